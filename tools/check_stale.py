#!/usr/bin/env python3
"""tools/check_stale.py -- after a change to /repo: does every hand-written mutant still match its site exactly once, and does
every seeded patch still apply?  Prints the stale ones; exit 1 if any."""
import glob, json, os, subprocess, sys, tempfile, shutil
REPO = os.environ.get('VERIF_REPO', '/repo')
here = os.path.dirname(os.path.dirname(os.path.abspath(__file__)))
bad = 0
for f in sorted(glob.glob(os.path.join(here, 'mutants', '*.json'))):
    for m in json.load(open(f)):
        for e in (m.get('edits') or [m]):
            p = os.path.join(REPO, e['file'])
            n = open(p).read().count(e['old']) if os.path.exists(p) else -1
            if n != 1:
                bad += 1
                print('STALE mutant %s (%s): old text occurs %d times in %s' % (m['id'], os.path.basename(f), n, e['file']))
tmp = tempfile.mkdtemp(prefix='stale.', dir='/dev/shm')
try:
    subprocess.check_call('cd %s && git ls-files -z mesonbuild | xargs -0 cp --parents -t %s' % (REPO, tmp), shell=True)
    for d in sorted(glob.glob(os.path.join(here, 'seeded', '*'))):
        pd = os.path.join(d, 'patch.diff')
        if not os.path.exists(pd):
            continue
        r = subprocess.run('patch -p1 -s --dry-run < %s' % pd, shell=True, cwd=tmp, capture_output=True)
        if r.returncode != 0:
            bad += 1
            print('STALE seed %s: patch does not apply' % os.path.basename(d))
finally:
    shutil.rmtree(tmp, ignore_errors=True)
print('stale: %d' % bad)
sys.exit(1 if bad else 0)
