# C15 - introspection files describe the build that was actually generated.
# Relational oracles, no stored expectations: for every generated / hand-written / corpus project the real
# `meson setup` writes meson-info/intro-*.json and build.ninja; the sibling artifacts are produced by real code too
# (reference ninja reader, `meson test` with an argv/env dumper, `meson install`, message()d get_option()).
import glob, json, os, re, shutil, sys
from verif.core import Check, pmap, run_main, scratch_root, REPO, VERIF
from verif import projgen as pg, refninja as rn
from verif.projects import RICH, NOLANG, install_dirs_project, install_names_project

DUMP = os.path.join(VERIF, 'tools', 'bin', 'argv_dump')


def load(bdir, name):
    with open(os.path.join(bdir, 'meson-info', name)) as f:
        return json.load(f)


# ---- (1) targets vs build.ninja ------------------------------------------------------------------------------------
def check_targets(bdir, src, mf, unity):
    v = []
    st = {'targets': 0, 'targets_with_sources_compared': 0, 'skipped_unspecified': 0}
    targets = load(bdir, 'intro-targets.json')

    def rel(p):
        return rn.canon_path(os.path.relpath(p, bdir)) if os.path.isabs(p) else rn.canon_path(p)

    def absn(p):
        return os.path.normpath(os.path.join(bdir, p))
    for t in targets:
        typ = t['type']
        if typ in ('run', 'alias'):
            continue
        st['targets'] += 1
        names = [rel(f) for f in t['filename']]
        edges = []
        for o in names:
            e = mf.producer.get(o)
            if e is None:
                v.append(('C15:targets:filename-not-produced:%s' % typ.replace(' ', '_'), 'target %s (%s): intro-targets.json names %s but no statement of build.ninja produces it' % (t['id'], typ, o)))
            elif e not in edges:
                edges.append(e)
        if not edges or len(edges) != 1 and typ != 'compile':
            if len(edges) > 1:
                st['skipped_unspecified'] += 1
            continue
        e = edges[0]
        if typ != 'compile':
            produced = [o for o in e.outs]
            if sorted(produced) != sorted(names):
                v.append(('C15:targets:filename-set:%s' % typ.replace(' ', '_'), 'target %s: intro-targets.json lists %s, the statement producing it has outputs %s' % (t['id'], sorted(names), sorted(produced))))
        # a custom target's statement consumes its inputs: the sources the introspection data lists for it
        if typ == 'custom':
            listed = set()
            for g in t['target_sources']:
                listed.update(os.path.normpath(p) for p in g.get('sources', []))
                listed.update(os.path.normpath(p) for p in g.get('generated_sources', []))
            consumed = {absn(p) for p in e.ins}
            st['custom_targets_with_inputs_compared'] = st.get('custom_targets_with_inputs_compared', 0) + 1
            if listed != consumed:
                flat = any('meson-out/' in p for p in e.outs)
                v.append(('C15:targets:custom-sources' + (':flat-layout' if flat else ''), 'custom target %s: its statement consumes %s but intro-targets.json lists %s'
                          % (t['id'], sorted(os.path.relpath(p, bdir) for p in consumed - listed) or '(same)', sorted(os.path.relpath(p, bdir) for p in listed - consumed) or '(same)')))
        # sources consumed by the compile statements of this target
        # (unity builds too: their compile statements consume the unity files, which must be the listed generated sources)
        if typ in ('executable', 'static library', 'shared library', 'shared module'):
            objs = [p for p in e.ins]
            consumed = set()
            ok = True
            for o in objs:
                ce = mf.producer.get(o)
                if ce is None or not re.search(r'_COMPILER|_PCH', ce.rule.name):
                    ok = False     # prebuilt / extracted object or other generated input: association unknown
                    break
                if os.path.dirname(ce.outs[0]) != e.outs[0] + '.p' and not ce.outs[0].startswith(os.path.dirname(e.outs[0]) + '/' if os.path.dirname(e.outs[0]) else ''):
                    ok = False
                    break
                if not ce.outs[0].startswith(e.outs[0] + '.p/'):
                    ok = False     # object of another target (extract_objects)
                    break
                consumed.update(absn(p) for p in ce.ins)
            if not ok or not objs:
                st['skipped_unspecified'] += 1
                continue
            listed = set()
            langs = [g for g in t['target_sources'] if 'language' in g]
            for g in langs:
                listed.update(os.path.normpath(p) for p in g.get('sources', []))
                listed.update(os.path.normpath(p) for p in g.get('generated_sources', []))
            # headers are listed as sources but are no explicit input of any compile statement
            listed_c = {p for p in listed if not re.search(r'\.(h|hh|hpp|hxx|H|inc|inl)$', p)}
            st['targets_with_sources_compared'] += 1
            if unity:
                st['unity_targets_compared'] = st.get('unity_targets_compared', 0) + 1
                if len([p for p in consumed if '-unity' in os.path.basename(p)]) > 1:
                    st['unity_targets_with_several_unity_files'] = st.get('unity_targets_with_several_unity_files', 0) + 1
            if listed_c != consumed:
                v.append(('C15:targets:sources', 'target %s: compile statements consume %s but intro-targets.json lists %s'
                          % (t['id'], sorted(os.path.relpath(p, bdir) for p in consumed - listed_c) or '(same)', sorted(os.path.relpath(p, bdir) for p in listed_c - consumed) or '(same)')))
    return v, st


# ---- (5) build system files -------------------------------------------------------------------------------------------
def check_buildsystem_files(bdir, src, expected):
    got = sorted(os.path.normpath(p) for p in load(bdir, 'intro-buildsystem_files.json'))
    exp = sorted(os.path.normpath(os.path.join(src, p)) for p in expected)
    # files that configure_file() reads as templates are reported too (they must trigger a reconfigure); whether they
    # count as "build definition files" is not specified: they are tolerated, decoy build files are not
    got = [p for p in got if p in exp or os.path.basename(p) in ('meson.build', 'meson.options', 'meson_options.txt')]
    if got != exp:
        return [('C15:buildsystem_files', 'intro-buildsystem_files.json lists %s; the build definition files read were %s'
                 % ([os.path.relpath(p, src) for p in got if p not in exp] or '(nothing extra)', [os.path.relpath(p, src) for p in exp if p not in got] or '(nothing missing)'))]
    return []


# ---- (3) build options vs get_option() ------------------------------------------------------------------------------
OPT_PROJECT = {
    'meson.build': '''project('opts', default_options: ['sopt=from_default_options', 'warning_level=2'])
foreach o : ['sopt', 'copt', 'bopt', 'iopt', 'aopt', 'fopt', 'yopt', 'warning_level', 'buildtype', 'debug', 'optimization', 'prefix', 'libdir', 'default_library', 'werror', 'unity', 'layout', 'wrap_mode', 'pkg_config_path', 'build.pkg_config_path']
  message('VOPT||' + o + '|', [get_option(o)], '|END')
endforeach
subproject('sub', default_options: ['ssopt=from_parent_call'])
subproject('sub2')
''',
    'meson.options': '''option('sopt', type: 'string', value: 'sdef')
option('copt', type: 'combo', choices: ['a', 'b', 'c'], value: 'b')
option('bopt', type: 'boolean', value: false)
option('iopt', type: 'integer', min: 0, max: 9, value: 4)
option('aopt', type: 'array', choices: ['x', 'y', 'z'], value: ['x', 'z'])
option('fopt', type: 'feature', value: 'auto')
option('yopt', type: 'string', value: 'parent_yopt')
''',
    'subprojects/sub/meson.build': '''project('sub', default_options: ['warning_level=0'])
foreach o : ['ssopt', 'yopt', 'sbopt', 'warning_level', 'default_library', 'werror']
  message('VOPT|sub|' + o + '|', [get_option(o)], '|END')
endforeach
''',
    'subprojects/sub/meson.options': '''option('ssopt', type: 'string', value: 'subdef')
option('yopt', type: 'string', value: 'sub_own_yopt', yield: true)
option('sbopt', type: 'boolean', value: true)
''',
    'subprojects/sub2/meson.build': '''project('sub2')
foreach o : ['sopt', 'warning_level']
  message('VOPT|sub2|' + o + '|', [get_option(o)], '|END')
endforeach
''',
    'subprojects/sub2/meson.options': "option('sopt', type: 'string', value: 'sub2_sopt')\n",
}
OPT_CMDLINES = [[], ['-Dsopt=cli', '-Dcopt=c', '-Dbopt=true', '-Diopt=7', '-Daopt=y', '-Dfopt=enabled'], ['-Dsub:ssopt=cli_sub', '-Dsub:warning_level=3', '-Dyopt=cli_y'],
                ['-Dbuildtype=release', '-Dsub:default_library=static', '-Dsub2:sopt=cli2', '--prefix=/opt/x', '-Dlibdir=lib64'], ['-Dsub:werror=true', '-Dwerror=false', '-Dpkg_config_path=/a:/b'],
                # a yielding option given its own value (it then no longer follows the parent), with and without a parent value
                ['-Dsub:yopt=own_cli'], ['-Dsub:yopt=own_cli', '-Dyopt=cli_y']]


def render_value(v, quote=False):
    if isinstance(v, bool):
        return 'true' if v else 'false'
    if isinstance(v, int):
        return str(v)
    if isinstance(v, str):
        return "'%s'" % v if quote else v
    if isinstance(v, list):
        return '[%s]' % ', '.join(render_value(x, True) for x in v)
    return repr(v)


def check_buildoptions(job):
    from verif import mesonproc as mp
    ci, cmdline = job
    root = os.path.join(scratch_root(), 'c15o.%d' % os.getpid())
    shutil.rmtree(root, ignore_errors=True)
    mp.write_tree(root, OPT_PROJECT)
    r = mp.run_meson(['setup', 'b', '--backend=none'] + cmdline, root)
    v = []
    n = 0
    if r.rc != 0:
        shutil.rmtree(root, ignore_errors=True)
        return ('opts', ' '.join(cmdline), [('C15:INTERNAL', 'option project does not configure: ' + r.out[-300:])], {'cases': 0})
    seen = {}
    for m in re.finditer(r'Message: VOPT\|(\w*)\|([\w.]+)\| (.*?) \|END', r.out, re.S):
        seen[(m.group(1), m.group(2))] = m.group(3)
    bo = load(os.path.join(root, 'b'), 'intro-buildoptions.json')
    by_name = {o['name']: o for o in bo}
    for (sp, name), shown in sorted(seen.items()):
        if name.startswith('build.'):
            continue      # build-machine options are not listed for native builds
        shown = re.sub(r"^\[(auto|enabled|disabled)\]$", r"['\1']", shown)     # feature objects print unquoted
        key = (sp + ':' if sp else '') + name
        o = by_name.get(key)
        if o is None and sp:
            # a per-subproject value of a builtin option may be reported only under the global name
            o = None
        n += 1
        if o is None:
            if sp and name in ('warning_level', 'default_library', 'werror') or not sp:
                g = by_name.get(name)
                if g is not None and render_value([g['value']]) == shown:
                    continue
            v.append(('C15:buildoptions:missing:%s' % ('subproject' if sp else 'top'), 'get_option(%r) in %r returned %s but intro-buildoptions.json has no entry %r that reports it'
                      % (name, sp or '(top)', shown, key)))
            continue
        got = render_value([o['value']])
        if got != shown:
            yielding = name == 'yopt' and sp == 'sub'
            v.append(('C15:buildoptions:value:%s' % ('yielding-subproject-option' if yielding else ('subproject' if sp else 'top')),
                      'get_option(%r) in %r returned %s, intro-buildoptions.json reports %s' % (name, sp or '(top)', shown, got)))
    shutil.rmtree(root, ignore_errors=True)
    return ('opts', ' '.join(cmdline), v, {'cases': n})


# ---- (2) tests vs `meson test`, (4) install plan vs `meson install` (on the RICH-like project) ------------------------
TEST_PROJECT = {
    'meson.build': '''project('tp', 'c')
dump = find_program('%(dump)s')
exe = executable('texe', 'main.c')
lib = shared_library('tlib', 'l.c')
ct = custom_target('tct', output: 'tct.txt', command: ['touch', '@OUTPUT@'])
e = environment({'ZED': 'z z', 'ABC': '1'})
e.set('SETV', 'a', 'b', separator: ';')
subdir('l2')
test('t1', dump, args: ['--dump=%(d)s/t1.dump', '--env=ZED', '--env=ABC', '--env=SETV', '--env=LD_LIBRARY_PATH', 'plain', 'two words', files('main.c'), ct, exe], env: e, suite: ['sa', 'sb'], depends: [lib])
test('t5', dump, args: ['--dump=%(d)s/t5.dump', '--env=ZED', '--env=LD_LIBRARY_PATH'], env: e, depends: [lib2], suite: 'sd')
test('t2', dump, args: ['--dump=%(d)s/t2.dump', '--env=K'], env: ['K=v=w'], suite: 'sb', is_parallel: false, timeout: 12, priority: 5, workdir: meson.current_source_dir())
test('t3', exe, suite: 'sc', should_fail: false)
test('t4', dump, args: ['--dump=%(d)s/t4.dump', '--tap'], protocol: 'tap')
benchmark('b1', dump, args: ['--dump=%(d)s/b1.dump', '--env=BV', 'bench arg'], env: {'BV': '1'})
benchmark('b2', dump, args: ['--dump=%(d)s/b2.dump', '--env=ZED', '--env=LD_LIBRARY_PATH'], env: e, depends: [lib3])
# programs and arguments that only `meson test` needs (not built by default): the dependencies intro-tests.json lists must be the
# ones the test run builds first
exe2 = executable('texe2', 'main.c', build_by_default: false)
meson.override_find_program('tool2', exe2)
test('t6', find_program('tool2'), suite: 'sc')
ct2 = custom_target('tct2', output: 'tct2.txt', command: ['touch', '@OUTPUT@'], build_by_default: false)
test('t7', dump, args: ['--dump=%(d)s/t7.dump', ct2])
exe3 = executable('texe3', 'main.c', build_by_default: false)
benchmark('b3', exe3)
exe4 = executable('texe4', 'main.c', build_by_default: false)
meson.override_find_program('tool4', exe4)
benchmark('b4', find_program('tool4'), args: [exe3])
subproject('tsp')
''',
    'main.c': 'int main(void) { return 0; }\n', 'l.c': 'int l(void) { return 0; }\n',
    'l2/meson.build': "lib2 = shared_library('tlib2', 'l2.c')\nsubdir('l3')\n", 'l2/l2.c': 'int l2(void) { return 0; }\n',
    'l2/l3/meson.build': "lib3 = shared_library('tlib3', 'l3.c')\n", 'l2/l3/l3.c': 'int l3(void) { return 0; }\n',
    'subprojects/tsp/meson.build': "project('tsp')\ndump = find_program('%(dump)s')\ntest('st1', dump, args: ['--dump=%(d)s/st1.dump', 'sub'], suite: 'sa')\n",
}


def parse_dump(path):
    with open(path, 'rb') as f:
        data = f.read()
    pos = 0

    def line():
        nonlocal pos
        e = data.index(b'\n', pos)
        l = data[pos:e]
        pos = e + 1
        return l
    hdr = line().split()
    args = []
    for _ in range(int(hdr[1])):
        n = int(line())
        args.append(data[pos:pos + n].decode('utf-8', 'surrogateescape'))
        pos += n + 1
    env = {}
    while pos < len(data):
        h = line().split(b' ')
        n = int(h[2])
        if n < 0:
            env[h[1].decode()] = None
            pos += 1
        else:
            env[h[1].decode()] = data[pos:pos + n].decode('utf-8', 'surrogateescape')
            pos += n + 1
    return args, env


def check_tests(job):
    from verif import mesonproc as mp
    root = os.path.join(scratch_root(), 'c15t.%d' % os.getpid())
    shutil.rmtree(root, ignore_errors=True)
    d = os.path.join(root, 'dumps')
    os.makedirs(d)
    mp.write_tree(root, {k: (c % {'dump': DUMP, 'd': d} if k.endswith('meson.build') else c) for k, c in TEST_PROJECT.items()})
    env = mp.base_env(home=os.path.join(root, 'home'))
    r = mp.run_meson(['setup', 'b'], root, env=env)
    v = []
    n = 0
    if r.rc != 0:
        return ('tests', 'tp', [('C15:INTERNAL', 'test project does not configure: ' + r.out[-300:])], {'cases': 0})
    bdir = os.path.join(root, 'b')
    mf = rn.parse_file(os.path.join(bdir, 'build.ninja'))
    for e in rn.topo_order(mf, ['all', 'meson-test-prereq', 'meson-benchmark-prereq']):
        rr = rn.run_edge(e, bdir)
        if rr.rc:
            return ('tests', 'tp', [('C15:INTERNAL', 'test project does not build: ' + rr.output[-300:])], {'cases': 0})
    mp.run_meson(['test', '-C', bdir, '--no-rebuild'], root, env=env)
    mp.run_meson(['test', '-C', bdir, '--no-rebuild', '--benchmark'], root, env=env)
    tests = load(bdir, 'intro-tests.json')
    bench = load(bdir, 'intro-benchmarks.json')
    for t in tests + bench:
        dumpargs = [a for a in t['cmd'] if isinstance(a, str) and a.startswith('--dump=')]
        if not dumpargs:
            continue
        p = dumpargs[0][7:]
        n += 1
        if not os.path.exists(p):
            v.append(('C15:tests:not-run', 'test %s is in the introspection data but `meson test` did not run it' % t['name']))
            continue
        args, envv = parse_dump(p)
        if args != t['cmd'][1:]:
            v.append(('C15:tests:args', 'test %s: `meson test` passed %r, intro says %r' % (t['name'], args, t['cmd'][1:])))
        if os.path.realpath(t['cmd'][0]) != os.path.realpath(DUMP):
            v.append(('C15:tests:exe', 'test %s: intro cmd[0] = %r' % (t['name'], t['cmd'][0])))
        for k, val in envv.items():
            n += 1
            if val is None and k not in t['env']:
                continue
            if t['env'].get(k) != val:
                v.append(('C15:tests:env', 'test %s: %s=%r at run time, intro-tests.json env says %r' % (t['name'], k, val, t['env'].get(k))))
    # dependencies: `meson test NAME` builds the files intro-targets.json names for the ids in the test's `depends`; a plain
    # `meson test` builds meson-test-prereq (meson-benchmark-prereq).  Both are "the dependencies meson test actually uses", so
    # every file the introspection data names as a dependency (and a test program inside the build directory) must be among what
    # the prereq statement builds.
    by_id = {t['id']: t for t in load(bdir, 'intro-targets.json')}
    ndeps = 0
    for lst, phony in ((tests, 'meson-test-prereq'), (bench, 'meson-benchmark-prereq')):
        reach = mf.reachable_from([phony])
        for t in lst:
            need = [(dep, f) for dep in t['depends'] for f in by_id.get(dep, {}).get('filename', [])]
            if os.path.isabs(t['cmd'][0]) and t['cmd'][0].startswith(bdir + '/'):
                need.append(('<program>', t['cmd'][0]))
                if not any(t['cmd'][0] in by_id.get(dep, {}).get('filename', []) for dep in t['depends']):
                    v.append(('C15:tests:program-not-in-depends', '%s runs %s, which no entry of its depends %r produces' % (t['name'], t['cmd'][0], t['depends'])))
            for dep, f in need:
                n += 1
                ndeps += 1
                o = rn.canon_path(os.path.relpath(f, bdir))
                if o not in reach:
                    v.append(('C15:tests:dependency-not-built-by-prereq', '%s: intro lists %s (%s) as a dependency, %s does not build it' % (t['name'], dep, o, phony)))
    if ndeps < 8:
        v.append(('C15:INTERNAL', 'only %d test dependencies were compared' % ndeps))
    # suites: `meson test --list --suite S` must list exactly the tests whose intro suite contains S
    def sel_matches(sel, t):
        # Unit-tests.md: --suite NAME selects by suite name, by (sub)project name, or by project:suite
        for e in t['suite']:
            proj, _, su = e.partition(':')
            if sel == e or sel == proj or (su and sel == su):
                return True
        return False
    # ground truth from the build definition generated above
    ground = {'t1': ('tp', ['sa', 'sb']), 't2': ('tp', ['sb']), 't3': ('tp', ['sc']), 't4': ('tp', []), 't5': ('tp', ['sd']), 'st1': ('tsp', ['sa']),
              't6': ('tp', ['sc']), 't7': ('tp', [])}

    def truth(sel):
        out = []
        for name, (proj, sus) in ground.items():
            if sel == proj or sel in sus or any(sel == '%s:%s' % (proj, su) for su in sus):
                out.append(name)
        return sorted(out)
    for s in ['sa', 'sb', 'sc', 'sd', 'tp', 'tsp', 'tp:sa', 'tp:sb', 'tsp:sa', 'tp:sc']:
        r = mp.run_meson(['test', '-C', bdir, '--no-rebuild', '--list', '--suite', s], root, env=env)
        listed = sorted(l.split(' / ')[-1].strip() if ' / ' in l else l.split(':')[-1].strip() for l in r.out.splitlines() if l.strip() and not l.startswith(('ninja', 'Found')))
        from_intro = sorted(t['name'] for t in tests if sel_matches(s, t))
        n += 1
        if from_intro != truth(s):
            v.append(('C15:tests:suite', 'suite selector %s: the build definition puts %r in it, intro-tests.json implies %r' % (s, truth(s), from_intro)))
        if listed != from_intro:
            v.append(('C15:tests:suite-vs-list', 'suite selector %s: `meson test --list` gives %r, intro-tests.json implies %r' % (s, listed, from_intro)))
    shutil.rmtree(root, ignore_errors=True)
    return ('tests', 'tp', v, {'cases': n})


def resolve_dest(dest, opts):
    prefix = opts['prefix']

    def sub(m):
        k = m.group(1)
        if k == 'prefix':
            return prefix
        k2 = {'libdir_shared': 'libdir', 'libdir_static': 'libdir', 'moduledir_shared': 'libdir', 'moduledir_static': 'libdir'}.get(k, k)
        if k2 in opts:
            val = opts[k2]
            return val if os.path.isabs(val) else os.path.join(prefix, val)
        raise KeyError(k)
    d = re.sub(r'\{(\w+)\}', sub, dest)
    return d if os.path.isabs(d) else os.path.join(prefix, d)     # a destination without placeholder is relative to the prefix


def listing(root):
    out = {}
    for base, dirs, files in os.walk(root):
        for fn in files + [d for d in dirs if os.path.islink(os.path.join(base, d))]:
            p = os.path.join(base, fn)
            out['/' + os.path.relpath(p, root)] = 'link' if os.path.islink(p) else 'file'
        for dn in dirs:
            p = os.path.join(base, dn)
            if not os.path.islink(p) and not os.listdir(p):
                out['/' + os.path.relpath(p, root)] = 'dir'
    return out


def check_install(job):
    from verif import mesonproc as mp
    name, files = job
    root = os.path.join(scratch_root(), 'c15i.%d' % os.getpid())
    shutil.rmtree(root, ignore_errors=True)
    mp.write_tree(os.path.join(root, 'src'), files)
    env = mp.base_env(home=os.path.join(root, 'home'))
    bdir = os.path.join(root, 'b')
    r = mp.run_meson(['setup', bdir, os.path.join(root, 'src'), '--prefix=/usr'], root, env=env)
    if r.rc != 0:
        return ('install', name, [('C15:INTERNAL', 'install project does not configure: ' + r.out[-300:])], {'cases': 0})
    v = []
    n = 0
    nsub = [0]
    if os.path.exists(os.path.join(bdir, 'build.ninja')):
        mf = rn.parse_file(os.path.join(bdir, 'build.ninja'))
        for e in rn.topo_order(mf, ['all']):
            rr = rn.run_edge(e, bdir)
            if rr.rc:
                return ('install', name, [('C15:INTERNAL', 'install project does not build: ' + rr.command[:200] + rr.output[-300:])], {'cases': 0})
    plan = load(bdir, 'intro-install_plan.json')
    installed = load(bdir, 'intro-installed.json')
    opts = {o['name']: o['value'] for o in load(bdir, 'intro-buildoptions.json')}
    # all tags, then each tag alone
    entries = []
    for sect, items in plan.items():
        for srcp, info in items.items():
            entries.append((sect, srcp, info))
    tags = sorted({str(info.get('tag')) for _, _, info in entries})
    for tagsel in [None] + tags:
        dest = os.path.join(root, 'dest_%s' % (tagsel or 'all'))
        args = ['install', '-C', bdir, '--no-rebuild', '--destdir', dest]
        if tagsel is not None:
            if tagsel == 'None':
                continue
            args += ['--tags', tagsel]
        r = mp.run_meson(args, root, env=env)
        if r.rc != 0:
            v.append(('C15:install:fails', 'meson install %s fails: %s' % (tagsel or '', r.out[-300:])))
            continue
        tree = listing(dest)
        expect = set()
        for sect, srcp, info in entries:
            if tagsel is not None and str(info.get('tag')) != tagsel:
                continue
            try:
                d = resolve_dest(info['destination'], opts)
            except KeyError:
                continue
            expect.add((sect, srcp, os.path.normpath(d)))
        n += len(expect)
        # every plan entry must exist in the tree (a directory for install_subdirs / emptydirs)
        covered = set()
        for sect, srcp, d in expect:
            if sect == 'install_subdirs' or os.path.isdir(srcp):
                hits = [p for p in tree if p == d or p.startswith(d.rstrip('/') + '/')]
                if not hits and not os.path.isdir(os.path.join(dest, d.lstrip('/'))):
                    v.append(('C15:install_plan:not-installed:%s' % sect, '%s -> %s is in intro-install_plan.json but was not installed (tags=%s)' % (os.path.relpath(srcp, root), d, tagsel)))
                # "names every installed ... subdirectory with the destination meson install uses": the destination is where the
                # CONTENTS of the source directory land - every file of it that the entry's exclude lists do not name is at
                # <destination>/<path below the source directory>, and only those count as named by this entry
                info = plan[sect][srcp]
                exf, exd = set(info.get('exclude_files') or []), set(info.get('exclude_directories') or info.get('exclude_dirs') or [])
                mine = set()
                if os.path.isdir(srcp):
                    for base, dirs, fns in os.walk(srcp):
                        relb = os.path.relpath(base, srcp)
                        relb = '' if relb == '.' else relb
                        dirs[:] = [x for x in dirs if os.path.join(relb, x) not in exd]
                        for fn in fns:
                            rel = os.path.join(relb, fn)
                            if rel in exf:
                                continue
                            want = os.path.normpath(os.path.join(d, rel))
                            mine.add(want)
                            nsub[0] += 1
                            if want not in tree:
                                v.append(('C15:install_plan:subdir-contents-elsewhere', '%s -> %s is in intro-install_plan.json, but its file %s is not at %s after meson install (tags=%s)'
                                          % (os.path.relpath(srcp, root), d, rel, want, tagsel)))
                    hits = [p for p in hits if p in mine or tree[p] != 'file']
                covered.update(hits)
            else:
                if d not in tree:
                    v.append(('C15:install_plan:not-installed:%s' % sect, '%s -> %s is in intro-install_plan.json but was not installed (tags=%s)' % (os.path.relpath(srcp, root), d, tagsel)))
                covered.add(d)
        # nothing installed that the plan does not name (shared-library alias symlinks belong to their library's entry)
        for p, kind in tree.items():
            if p in covered or kind != 'file':
                continue     # symlinks (library aliases, install_symlink) and empty directories are not among the kinds the property lists
            # the plan is a dict keyed by source path: a source installed to two places keeps one entry only
            twice = any(os.path.basename(srcp) == os.path.basename(p) and d != p for _, srcp, d in expect)
            v.append(('C15:install_plan:unlisted' + (':same-source-installed-twice' if twice else ''),
                      '%s was installed (tags=%s) but no entry of intro-install_plan.json names it' % (p, tagsel)))
        if tagsel is None:
            # intro-installed.json: source -> destination (prefix applied)
            for srcp, d in installed.items():
                n += 1
                dd = os.path.normpath(d)
                if dd not in tree and not os.path.isdir(os.path.join(dest, dd.lstrip('/'))):
                    v.append(('C15:installed:not-installed', '%s -> %s is in intro-installed.json but was not installed' % (os.path.relpath(srcp, root), dd)))
    shutil.rmtree(root, ignore_errors=True)
    return ('install', name, v, {'cases': n, 'subdir_files_located': nsub[0]})


# ---- driver per configured project ----------------------------------------------------------------------------------
def check_project(job):
    from verif import mesonproc as mp
    kind, name, files, srcdir, args, bsfiles = job
    root = os.path.join(scratch_root(), 'c15.%d' % os.getpid())
    shutil.rmtree(root, ignore_errors=True)
    src = os.path.join(root, 'src')
    if files is not None:
        mp.write_tree(src, files)
    else:
        shutil.copytree(srcdir, src, symlinks=True)
    bdir = os.path.join(root, 'b')
    r = mp.run_meson(['setup', bdir, src] + list(args), root, timeout=90)
    if r.rc != 0:
        shutil.rmtree(root, ignore_errors=True)
        return (kind, name, [] if kind == 'corpus' else [('C15:INTERNAL', 'project does not configure: ' + r.out[-300:])], {'skipped_setup': 1})
    v = []
    st = {'cases': 0}
    try:
        mf = rn.parse_file(os.path.join(bdir, 'build.ninja'))
        vv, s2 = check_targets(bdir, src, mf, any(a.startswith('--unity=') for a in args))
        v += vv
        st.update(s2)
        st['cases'] += s2['targets']
    except (rn.NinjaError, OSError) as e:
        v.append(('C15:manifest-unreadable', str(e)))
    if bsfiles is not None:
        v += check_buildsystem_files(bdir, src, bsfiles)
        st['cases'] += 1
    # non-initial state: the same questions about a build directory that was configured before (plain reconfigure, then
    # a reconfigure that changes nothing but is given an option)
    if kind in ('rich', 'gen'):
        for extra in ((), ('-Dwarning_level=0',)):
            r2 = mp.run_meson(['setup', '--reconfigure', bdir, src] + list(extra), root, timeout=90)
            if r2.rc != 0:
                v.append(('C15:reconfigure-fails', 'setup --reconfigure %s fails: %s' % (' '.join(extra), r2.out[-300:])))
                break
            tag = ' [after setup --reconfigure %s]' % ' '.join(extra)
            try:
                mf = rn.parse_file(os.path.join(bdir, 'build.ninja'))
                vv, s2 = check_targets(bdir, src, mf, any(a.startswith('--unity=') for a in args))
                v += [(k, w + tag) for k, w in vv]
                st['cases'] += s2['targets']
            except (rn.NinjaError, OSError) as e:
                v.append(('C15:manifest-unreadable', str(e) + tag))
            if bsfiles is not None:
                v += [(k, w + tag) for k, w in check_buildsystem_files(bdir, src, bsfiles)]
                st['cases'] += 1
            st['reconfigured'] = st.get('reconfigured', 0) + 1
    shutil.rmtree(root, ignore_errors=True)
    return (kind, name, v, st)


# ---- (5b) files read at configure time through modules, before and after a subproject used the same modules ---------------
# Whether a file read with fs.read() / keyval.load() counts as a "build-definition file" is meson's decision (it does list
# them); what the property fixes is that the answer is the same for every such file: it cannot depend on whether the file was
# read before or after a subproject ran, and the list agrees with what build.ninja regenerates on.
# NOT under /dev/shm: Interpreter.add_build_def_file() ignores every path that starts with /dev/.
READS_FILES = {
    'meson.build': "project('reads', 'c')\nfs = import('fs')\nkv = import('keyval')\na = fs.read('A.txt')\nka = kv.load('KA.cfg')\n"
                   "subproject('sub')\nb = fs.read('B.txt')\nkb = kv.load('KB.cfg')\nsubdir('d')\n"
                   "configure_file(input: 't.in', output: 't.out', configuration: {'X': 1})\n",
    'd/meson.build': "c = fs.read('C.txt')\nkc = kv.load(files('KC.cfg'))   # a plain string would be looked up in the source root\n",
    'A.txt': 'a\n', 'B.txt': 'b\n', 'd/C.txt': 'c\n', 'KA.cfg': 'K=1\n', 'KB.cfg': 'K=2\n', 'd/KC.cfg': 'K=3\n', 't.in': '@X@\n',
    'subprojects/sub/meson.build': "project('sub')\nfs = import('fs')\nkv = import('keyval')\ns = fs.read('S.txt')\nks = kv.load(files('KS.cfg'))\n",
    'subprojects/sub/S.txt': 's\n', 'subprojects/sub/KS.cfg': 'K=4\n',
}
READS_GROUPS = [['A.txt', 'B.txt', 'd/C.txt', 'subprojects/sub/S.txt'], ['KA.cfg', 'KB.cfg', 'd/KC.cfg', 'subprojects/sub/KS.cfg']]


def check_reads(job):
    from verif import mesonproc as mp
    import tempfile
    variant, = job
    root = tempfile.mkdtemp(prefix='verif.c15reads.', dir='/var/tmp')
    src, bdir = os.path.join(root, 'src'), os.path.join(root, 'b')
    v = []
    try:
        files = dict(READS_FILES)
        if variant == 'no-subproject':
            files['meson.build'] = files['meson.build'].replace("subproject('sub')\n", '')
        if variant.startswith('failing-subproject'):
            # an optional subproject that fails after (or while) reading its files: they have been read all the same
            files['meson.build'] = files['meson.build'].replace("subproject('sub')\n", "subproject('sub', required: false)\n")
            files['subprojects/sub/meson.build'] += {'failing-subproject-error': "error('giving up')\n",
                                                     'failing-subproject-dependency': "dependency('verif-no-such-dependency')\n",
                                                     'failing-subproject-subdir': "subdir('sd')\n",
                                                     'failing-subproject-subdir-syntax': "subdir('sd')\n",
                                                     'failing-subproject-syntax': "x = = 1\n"}[variant]
            if variant.endswith('-subdir'):
                files['subprojects/sub/sd/meson.build'] = "sd = fs.read('SD.txt')\nerror('giving up in a subdir')\n"
                files['subprojects/sub/sd/SD.txt'] = 'sd\n'
            if variant.endswith('-subdir-syntax'):
                files['subprojects/sub/sd/meson.build'] = "sd = fs.read('SD.txt'\n"     # read, but it does not parse
            if variant.endswith('subproject-syntax'):
                # the subproject's own build file does not parse: nothing of it is evaluated, so S.txt / KS.cfg are not read
                del files['subprojects/sub/S.txt'], files['subprojects/sub/KS.cfg']
        mp.write_tree(src, files)
        r = mp.run_meson(['setup', bdir, src], root, timeout=90)
        if r.rc != 0:
            return ('reads', variant, [('C15:INTERNAL', 'reads project does not configure: ' + r.out[-300:])], {'cases': 0})
        for rnd in ('setup', 'reconfigure'):
            listed = {os.path.relpath(os.path.normpath(p), src) for p in load(bdir, 'intro-buildsystem_files.json')}
            tag = ' [%s, %s]' % (variant, rnd)
            for grp in READS_GROUPS:
                grp = [g for g in grp if (variant != 'no-subproject' or not g.startswith('subprojects/')) and g in files]
                inn = [g for g in grp if g in listed]
                if inn and len(inn) != len(grp):
                    v.append(('C15:buildsystem_files:read-files-treated-differently',
                              'of the files read the same way (%s) intro-buildsystem_files.json lists %s but not %s%s'
                              % (', '.join(grp), inn, [g for g in grp if g not in listed], tag)))
            for bf in bs_files_for(files):
                if bf not in listed and not (variant == 'no-subproject' and bf.startswith('subprojects/')):
                    v.append(('C15:buildsystem_files', 'intro-buildsystem_files.json does not list %s%s' % (bf, tag)))
            txt = open(os.path.join(bdir, 'build.ninja')).read()
            m = re.search(r'^build build\.ninja[^:\n]*: REGENERATE_BUILD ((?:[^\n$]|\$.)*)$', txt, re.M)
            if not m:
                v.append(('C15:INTERNAL', 'no REGENERATE_BUILD statement found'))
                break
            deps = set()
            for tok in re.findall(r'(?:[^\s$]|\$.)+', m.group(1).split('|')[0]):
                tok = re.sub(r'\$(.)', r'\1', tok)
                ap = os.path.normpath(tok if os.path.isabs(tok) else os.path.join(bdir, tok))
                if ap.startswith(src + '/'):
                    deps.add(os.path.relpath(ap, src))
            if deps != listed:
                v.append(('C15:buildsystem_files:differs-from-regenerate-dependencies',
                          'build.ninja regenerates on %s, intro-buildsystem_files.json lists %s (only in one of them: %s)%s'
                          % (sorted(deps), sorted(listed), sorted(deps ^ listed), tag)))
            if rnd == 'setup':
                r2 = mp.run_meson(['setup', '--reconfigure', bdir, src], root, timeout=90)
                if r2.rc != 0:
                    v.append(('C15:reconfigure-fails', 'setup --reconfigure fails: ' + r2.out[-300:]))
                    break
    finally:
        shutil.rmtree(root, ignore_errors=True)
    return ('reads', variant, v, {'cases': 2 * (len(READS_GROUPS) + 2)})


def dispatch(job):
    k = job[0]
    if k == 'opts':
        return check_buildoptions(job[1:])
    if k == 'tests':
        return check_tests(job[1:])
    if k == 'install':
        return check_install(job[1:])
    if k == 'reads':
        return check_reads(job[1:])
    return check_project(job)


def bs_files_for(files):
    """build definition files a generated project reads: every meson.build (+ meson.options) that is reachable"""
    out = []
    for p in files:
        if os.path.basename(p) in ('meson.build', 'meson.options', 'meson_options.txt'):
            out.append(p)
    return out


def main():
    ck = Check('C15', 'exploration')
    from verif import mesonproc as mp
    if ck.args.replay:
        d = json.load(open(ck.args.replay))
        res = dispatch(tuple(d['job']))
        for k, w in res[2]:
            print(k, w)
        sys.exit(1 if res[2] else 0)
    mp.preimport()
    jobs = []
    specs = list(pg.enumerate_specs(3))
    for si, spec in enumerate(specs):
        if not ck.thorough and len(spec) == 3 and si % 3 != ck.seed % 3:
            continue
        for pi, pl in enumerate(('root', 'sub', 'allsub')):
            if not pg.placement_ok(spec, pl) or (not ck.thorough and (si + pi) % 3 != 0):
                continue
            r = pg.render(spec, pl, install=True)
            files = dict(r.files)
            # decoys: build files that exist but are never read
            files['unused/meson.build'] = "error('never read')\n"
            files['subprojects/ghost/meson.build'] = "project('ghost')\n"
            combos = [()] if not ck.thorough else [(), ('--layout=flat',), ('--default-library=static',), ('--unity=on',)]
            for combo in combos:
                if '--layout=flat' in combo and pl == 'sub':
                    continue
                jobs.append(('gen', r.desc + ' @' + pl + ' ' + ' '.join(combo), files, None, combo, bs_files_for(r.files)))
    # every target kind placed with build_subdir:, at the root and in a subdir, under both layouts
    kinds = {'executable': "executable('p_exe', SRC, build_subdir: 'deep')",
             'static_library': "static_library('p_st', LIB, build_subdir: 'deep')",
             'shared_library': "shared_library('p_sh', LIB, build_subdir: 'deep', version: '1.2.3')",
             'both_libraries': "both_libraries('p_both', LIB, build_subdir: 'deep/er')",
             'shared_module': "shared_module('p_mod', LIB, build_subdir: 'deep')",
             'custom_target': "custom_target('p_ct', output: 'p_ct.txt', command: ['touch', '@OUTPUT@'], build_subdir: 'deep')",
             'custom_target-2': "custom_target('p_ct2', output: ['p_a.txt', 'p_b.txt'], command: ['touch', '@OUTPUT@'], build_subdir: 'deep')",
             # sources that configuration itself writes into the build directory (with and without build_subdir:)
             'configured-source': "executable('p_cfgsrc', configure_file(input: SRC, output: 'p_cfgsrc.c', copy: true), LIB)",
             'configured-source-placed': "executable('p_cfgsrc2', LIB, configure_file(input: SRC, output: 'p_cfgsrc2.c', copy: true, build_subdir: 'deep'), build_subdir: 'deep')",
             'configured-source-library': "static_library('p_cfglib', configure_file(input: LIB, output: 'p_cfglib.c', copy: true))",
             # custom targets consuming files, whole custom targets and single outputs of custom targets
             'custom-consumers': "pa = custom_target('p_two', output: ['p_a.txt', 'p_b.txt'], command: ['touch', '@OUTPUT@'])\n"
                                 "custom_target('p_u1', input: pa[1], output: 'p_u1.txt', command: ['cp', '@INPUT@', '@OUTPUT@'])\n"
                                 "custom_target('p_u2', input: [pa, LIB], output: 'p_u2.txt', command: ['cp', '@INPUT0@', '@OUTPUT@'])\n"
                                 "custom_target('p_u3', input: [pa[0], SRC, pa[1]], output: 'p_u3.txt', command: ['cp', '@INPUT0@', '@OUTPUT@'])"}
    for kname, decl in kinds.items():
        for place in ('root', 'subdir'):
            up = '../' if place == 'subdir' else ''
            body = decl.replace('SRC', "files('%smain.c')" % up).replace('LIB', "files('%slib.c')" % up) + '\n'
            files = {'main.c': 'int main(void) { return 0; }\n', 'lib.c': 'int libf(void) { return 3; }\n'}
            if place == 'root':
                files['meson.build'] = "project('placed', 'c')\n" + body
            else:
                files['meson.build'] = "project('placed', 'c')\nsubdir('d')\n"
                files['d/meson.build'] = body
            for combo in ((), ('--layout=flat',)):
                jobs.append(('placed', '%s with build_subdir @%s %s' % (kname, place, ' '.join(combo)), files, None, combo, bs_files_for(files)))
    # a source kind with a compile rule of its own: LLVM IR (needs clang as the C compiler: chosen through a machine file)
    if shutil.which('clang'):
        files = {'meson.build': "project('ir', 'c')\nexecutable('ir', 'main.c', 'f.ll')\nstatic_library('irlib', 'f.ll', 'lib.c')\n",
                 'main.c': 'int main(void) { return 0; }\n', 'lib.c': 'int libf(void) { return 3; }\n', 'f.ll': 'define i32 @f() {\n  ret i32 0\n}\n',
                 'clang.ini': "[binaries]\nc = 'clang'\n"}
        for combo in (('--native-file', 'src/clang.ini'), ('--native-file', 'src/clang.ini', '--layout=flat')):
            jobs.append(('placed', 'LLVM IR sources ' + ' '.join(combo[2:]), files, None, combo, bs_files_for(files)))
    # unity builds: targets with 1 / unity_size / unity_size+1 / 2*unity_size+1 sources of one language, two languages in one
    # target, a generated source among them - for the default unity_size and for 2, per-subproject unity too
    files = {'main.c': 'int main(void) { return 0; }\n', 'subprojects/us/meson.build': "project('us', 'c')\nstatic_library('usl', 'u1.c', 'u2.c', 'u3.c')\n"}
    for i in range(1, 10):
        files['s%d.c' % i] = 'int s%d(void) { return %d; }\n' % (i, i)
        files['t%d.cpp' % i] = 'int t%d(void) { return %d; }\n' % (i, i)
    for i in range(1, 4):
        files['subprojects/us/u%d.c' % i] = 'int u%d(void) { return %d; }\n' % (i, i)
    cs = lambda a, b: ', '.join("'s%d.c'" % i for i in range(a, b + 1))
    files['meson.build'] = ("project('unity', 'c', 'cpp')\nsubproject('us')\n"
                            "gen = custom_target('gen', output: 'gen.c', command: ['touch', '@OUTPUT@'])\n"
                            "static_library('u_one', 's1.c')\n"
                            "static_library('u_four', %s)\n"
                            "static_library('u_five', %s)\n"
                            "shared_library('u_nine', %s)\n"
                            "executable('u_mixed', 'main.c', %s, 't1.cpp', 't2.cpp', 't3.cpp', gen)\n"
                            "executable('u_gen', 'main.c', 's1.c', gen)\n" % (cs(1, 4), cs(1, 5), cs(1, 9), cs(1, 5)))
    for combo in (('--unity=on',), ('--unity=on', '-Dunity_size=2'), ('--unity=subprojects',), ('--unity=on', '--layout=flat')):
        jobs.append(('placed', 'unity build ' + ' '.join(combo), files, None, combo, bs_files_for(files)))
    rich = dict(RICH)
    jobs.append(('rich', 'rich', rich, None, (), bs_files_for(RICH)))
    jobs.append(('rich', 'rich-flat', rich, None, ('--layout=flat',), bs_files_for(RICH)))
    jobs.append(('rich', 'nolang', dict(NOLANG), None, (), bs_files_for(NOLANG)))
    corpus = [d for d in sorted(glob.glob(os.path.join(REPO, 'test cases', 'common', '*'))) if os.path.isfile(os.path.join(d, 'meson.build'))]
    step = 5 if not ck.thorough else 1
    for i, d in enumerate(corpus):
        if i % step == ck.seed % step:
            jobs.append(('corpus', os.path.relpath(d, REPO), None, d, (), None))
    for ci, cl in enumerate(OPT_CMDLINES):
        jobs.append(('opts', ci, cl))
    jobs.append(('tests',))
    jobs.append(('reads', 'with-subproject'))
    jobs.append(('reads', 'no-subproject'))
    for how in ('error', 'dependency', 'subdir', 'subdir-syntax', 'syntax'):
        jobs.append(('reads', 'failing-subproject-' + how))
    jobs.append(('install', 'rich', RICH))
    jobs.append(('install', 'nolang', NOLANG))
    jobs.append(('install', 'install-dirs', install_dirs_project()))
    jobs.append(('install', 'install-names', install_names_project()))
    tot = {}
    classes = set()
    for kind, name, v, st in pmap(dispatch, jobs, chunksize=1):
        t = tot.setdefault(kind, {'n': 0})
        t['n'] += 1
        for k, x in st.items():
            t[k] = t.get(k, 0) + x
        classes.add((kind, min(st.get('cases', 0), 12)))
        for key, what in v:
            if key == 'C15:INTERNAL':
                ck.internal('%s %s: %s' % (kind, name, what))
            ck.violation(key, '%s %s: %s' % (kind, name, what), {'kind': kind, 'name': str(name)})
    for k, t in tot.items():
        ck.part(k, **t)
    ck.sample({'generated_project': jobs[0][1], 'option_cmdlines': OPT_CMDLINES[:3]})
    ck.require(tot.get('gen', {}).get('targets_with_sources_compared', 0) > 50 and tot.get('tests', {}).get('cases', 0) > 5 and tot.get('install', {}).get('cases', 0) > 10
               and tot.get('opts', {}).get('cases', 0) > 50, 'a relational sub-check compared too little: %r' % tot)
    ck.require(tot.get('placed', {}).get('unity_targets_with_several_unity_files', 0) >= 8 or not ck.want('placed'),
               'the unity family compared no target with more than one unity file: %r' % tot.get('placed'))
    n = sum(t.get('cases', 0) for t in tot.values())
    ck.assume('ninja grammar/scoping from lib/verif/refninja.py; headers listed as target sources are not expected among compile inputs; targets using prebuilt/extracted objects are skipped for the sources comparison')
    ck.finish(evaluations=n, distinct_nontrivial=len(classes), skipped_unspecified=sum(t.get('skipped_unspecified', 0) for t in tot.values()),
              rule='projgen shapes (<= 3 targets, placements%s) with decoy build files, two hand-written rich projects and %s of test cases/common: intro-targets.json vs build.ninja (output names, consumed sources), '
                   'intro-buildsystem_files.json vs files read; an option project under %d command lines: intro-buildoptions.json vs message()d get_option(); a test project: intro-tests/benchmarks vs argv/env seen by '
                   'the tests run by `meson test` and --list per suite; install projects: intro-install_plan/intro-installed vs the tree `meson install` creates for all tags and each tag. '
                   'evaluations = relational comparisons; distinct_nontrivial = (sub-check, size) classes' % (' x options' if ck.thorough else ', rotated', 'all' if ck.thorough else 'a fifth', len(OPT_CMDLINES)),
              exhaustive=True)


run_main(main)
