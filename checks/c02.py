# C02 - parsing is total, lossless and position-accurate.
# Bounded exhaustive, real mparser.Parser / RawPrinter on every input:
#   tokens_full : every realisable token sequence of length <= 4 (quick) / 5 (thorough) over the DESIGN's 41-token
#            alphabet, rendered with three separator policies; sound prefix pruning (a reject raised by the parser while
#            its lookahead token ends before the last token of the prefix is the verdict of every extension: lazy lexer,
#            self-delimiting lexemes, one token of lookahead), re-validated on a 1-in-K slice of the pruned prefixes
#   tokens_core : (thorough) length <= 6 over a 21-token core alphabet, single spaces
#   corpus : every meson.build / meson.options / meson_options.txt under the repo, and for every distinct file of
#            <= 20 / 60 tokens its complete single-edit neighbourhood (delete, duplicate, swap, replace by each alphabet token)
#   chars  : every string of length <= 3 / 4 over a 21-character set: lexer alone, and parser alone + inside two frames
#   gaps   : every trivia in every gap and pair of gaps of 10 one-statement skeletons
#   blocks : every nesting (depth <= 2 / 3) of the five block forms in every clause body x every trivia in every gap and in
#            every pair of line-end boundaries (two block keywords on one line, glued, continued, commented, no final newline)
# Oracle (c02core.evaluate): a MesonException with a line/column inside the text, or a tree whose RawPrinter output is
# the input byte for byte and whose every FunctionNode/ArrayNode extent, cut with the rewriter's offset arithmetic,
# is exactly the construct. Any other exception is a violation. Defect classes get narrow keys (c02core.classify_*).
import json, os, sys, zlib
from verif.core import Check, pmap, run_main, REPO, InternalError
from verif import c02core as cc
from verif.c02core import evaluate

from mesonbuild import mparser
from mesonbuild.mesonlib import MesonException

# ---- token alphabet (DESIGN C02; the listing there has 41 entries) ---------------------------------------
ALPHABET = [
    ('id', 'a'), ('number', '1'), ('string', "'s'"), ('mlstring', "'''m\nl'''"), ('fstring', "f'@a@'"),
    # strings whose lexeme spans lines in the other three spellings (a raw newline inside '...' is deprecated but accepted)
    ('nlstring', "'p\nq'"), ('nlfstring', "f'p\nq'"), ('mlfstring', "f'''m\nl'''"),
    ('not', 'not'), ('in', 'in'), ('and', 'and'), ('or', 'or'), ('if', 'if'), ('elif', 'elif'), ('else', 'else'),
    ('endif', 'endif'), ('foreach', 'foreach'), ('endforeach', 'endforeach'), ('continue', 'continue'),
    ('break', 'break'), ('true', 'true'),
    ('lparen', '('), ('rparen', ')'), ('lbracket', '['), ('rbracket', ']'), ('lcurl', '{'), ('rcurl', '}'),
    ('comma', ','), ('colon', ':'), ('dot', '.'), ('plus', '+'), ('dash', '-'), ('star', '*'), ('fslash', '/'),
    ('percent', '%'), ('assign', '='), ('plusassign', '+='), ('equal', '=='), ('nequal', '!='), ('lt', '<'),
    ('questionmark', '?'),
    ('eol', '\n'), ('comment', '#c'), ('cont', '\\\n'),
]
NAMES = [a for a, _ in ALPHABET]
LEX = [b for _, b in ALPHABET]
A = len(ALPHABET)
I_EOL, I_COMMENT, I_CONT = NAMES.index('eol'), NAMES.index('comment'), NAMES.index('cont')
NPOL = 3
POLNAMES = ['single-space', 'no-separator-where-lexically-possible', 'double-space+comment-before-newline+trailing-blank']


def wordlike(c):
    return c.isalnum() or c == '_'


def needs_sep(a: str, b: str) -> bool:
    """Would writing lexeme b directly after lexeme a change how either is read?"""
    if not a or not b:
        return False
    x, y = a[-1], b[0]
    if wordlike(x) and wordlike(y):
        return True
    if wordlike(x) and x == 'f' and y == "'":
        return True                      # f'...' prefix
    if x == "'" and y == "'":
        return True                      # '' ' could open a multi-line string
    if y == '=' and x in '=<>!+':
        return True
    if x == '\\':
        return True
    return False


# lexeme of token t under policy p
LEXP = [list(LEX), list(LEX), list(LEX)]
LEXP[2][I_EOL] = '#z\n'
LEXP[2][I_CONT] = '\\ #k\n'
SEP = [[[' '] * A for _ in range(A)], [['' if not needs_sep(LEX[i], LEX[j]) else ' ' for j in range(A)] for i in range(A)],
       [['  '] * A for _ in range(A)]]
TAIL = ['', '', ' ']


def render_body(seq, pol):
    out = []
    for k, t in enumerate(seq):
        if k:
            out.append(SEP[pol][seq[k - 1]][t])
        out.append(LEXP[pol][t])
    return ''.join(out)


def render(seq, pol):
    return render_body(seq, pol) + TAIL[pol]


# ------------------------------------------------------------------------------------------------------------
class Acc:
    """Picklable accumulator returned by workers."""

    def __init__(self):
        self.n = {}
        self.sigs = set()
        self.viol = {}      # key -> [count, [(rank, text, what, origin)]]
        self.samples = []

    def add(self, k, v=1):
        self.n[k] = self.n.get(k, 0) + v

    def record(self, text, o, origin):
        self.add('evaluations')
        self.add(o.cls)
        self.sigs.add(o.sig)
        if o.cls == 'accept':
            if o.nconstructs:
                self.add('accepted_with_extents')
                self.add('extents_checked', o.nconstructs)
            if o.skipped:
                self.add('skipped_unspecified', o.skipped)
        for key, what in o.viol:
            ent = self.viol.setdefault(key, [0, []])
            ent[0] += 1
            ent[1].append(((len(text), text), text, what, origin() if callable(origin) else origin, 'parse'))
            if len(ent[1]) > 6:
                ent[1].sort()
                del ent[1][3:]

    def merge(self, other):
        for k, v in other.n.items():
            self.add(k, v)
        self.sigs |= other.sigs
        for key, (cnt, exs) in other.viol.items():
            ent = self.viol.setdefault(key, [0, []])
            ent[0] += cnt
            ent[1].extend(exs)
            ent[1].sort()
            del ent[1][4:]
        if len(self.samples) < 4:
            self.samples.extend(other.samples[:1])


# Anti-vacuity conditions are judged after the violations have been reported: a tree that breaks the property on
# nearly every input (nothing round-trips, so no extent is ever checked) must come out as VIOLATION, not as exit 2.
UNMET = []


def need(cond, msg):
    if not cond:
        UNMET.append(msg)


# ---- part (a): token sequences ------------------------------------------------------------------------------
CFG = {}
CORE = ['id', 'number', 'string', 'not', 'in', 'if', 'endif', 'lparen', 'rparen', 'lbracket', 'rbracket', 'lcurl',
        'rcurl', 'comma', 'colon', 'dot', 'plus', 'dash', 'assign', 'questionmark', 'eol']


def subspace(k, n):
    """number of proper extensions (length k+1 .. n) of one prefix of length k"""
    a = len(CFG['toks'])
    return sum(a ** j for j in range(1, n - k + 1))


def tok_eval(acc, seq, pol, text, last_start):
    """evaluate one rendering; returns (alive, outcome)"""
    o = evaluate(text, True)
    acc.record(text, o, lambda: 'tokens ' + ' '.join(NAMES[t] for t in seq) + ' / ' + POLNAMES[pol])
    # dead: rejected while the lexer (suspended, so the error is the parser's) had not read past the start of the last
    # token. The lexer is lazy, every lexeme of a realisable sequence is self-delimiting, the parser looks one token
    # ahead: every extension repeats exactly this computation.
    dead = o.cls == 'reject' and o.cur_end is not None and o.cur_end <= last_start and o.lexer_suspended
    return (not dead), o


def validate_dead(acc, seq, pol, body, o, depth):
    """enumerate the pruned sub-space of a dead prefix anyway (up to `depth` more tokens): same verdict, same place"""
    def rec(s, b, d):
        for t in CFG['toks']:
            if s[-1] == I_COMMENT and t != I_EOL:
                continue
            s2 = s + [t]
            b2 = b + SEP[pol][s[-1]][t] + LEXP[pol][t]
            o2 = evaluate(b2 + TAIL[pol], False)
            acc.record(b2 + TAIL[pol], o2, lambda: 'tokens(validation) ' + ' '.join(NAMES[x] for x in s2) + ' / ' + POLNAMES[pol])
            acc.add('validated_extensions')
            if o2.cls != 'reject' or o2.errpos != o.errpos or o2.sig != o.sig:
                acc.add('pruning_unsound')
                acc.samples.append({'pruning_unsound': [NAMES[x] for x in s2], 'policy': POLNAMES[pol],
                                    'prefix_outcome': [o.cls, o.errpos, o.sig], 'extension_outcome': [o2.cls, o2.errpos, o2.sig]})
            if d > 1:
                rec(s2, b2, d - 1)
    rec(list(seq), body, depth)


def explore_shard(prefix):
    """all realisable sequences that extend `prefix` (itself included) up to length N, for every policy"""
    N, K, V, seed, toks, pols = CFG['N'], CFG['K'], CFG['V'], CFG['seed'], CFG['toks'], CFG['pols']
    acc = Acc()
    prefix = list(prefix)
    if prefix[0] == I_COMMENT and prefix[1] != I_EOL:
        acc.add('unrealisable_inputs', (1 + subspace(2, N)) * len(pols))
        return acc

    def died(seq, pol, body, o):
        k = len(seq)
        acc.add('dead_prefixes')
        acc.add('dead_at_len_%d' % k)
        if k < N:
            acc.add('pruned_inputs', subspace(k, N))
            if (zlib.crc32(bytes(seq) + bytes([pol])) + seed) % K == 0:
                acc.add('validated_prefixes')
                validate_dead(acc, seq, pol, body, o, min(V, N - k))

    def rec(seq, bodies, alive):
        # seq already evaluated; bodies[pol] = rendering without TAIL; extend by one token
        k = len(seq) + 1
        for t in toks:
            if seq[-1] == I_COMMENT and t != I_EOL:
                # not a token sequence: whatever follows a comment on its line is part of the comment
                acc.add('unrealisable_inputs', (1 + subspace(k, N)) * len(alive))
                continue
            s2 = seq + [t]
            nb = {}
            for pol, body in alive.items():
                sep = SEP[pol][seq[-1]][t]
                b2 = body + sep + LEXP[pol][t]
                ok, o = tok_eval(acc, s2, pol, b2 + TAIL[pol], len(body) + len(sep))
                if ok:
                    nb[pol] = b2
                else:
                    died(s2, pol, b2, o)
            if k < N and nb:
                rec(s2, nb, nb)

    # the shard root itself; its ancestors (length 0, 1) were evaluated by the parent and cannot be dead
    alive = {}
    for pol in pols:
        body = render_body(prefix, pol)
        ok, o = tok_eval(acc, prefix, pol, body + TAIL[pol], len(body) - len(LEXP[pol][prefix[-1]]))
        if ok:
            alive[pol] = body
        else:
            died(prefix, pol, body, o)
    if len(prefix) < N and alive:
        rec(prefix, alive, alive)
    return acc


def run_layer(ck, total, name, toknames, pols, N, K):
    toks = [NAMES.index(x) for x in toknames]
    CFG.update(N=N, K=K, V=2, seed=ck.seed, toks=toks, pols=pols)
    acc = Acc()
    for pol in pols:                                  # lengths 0 and 1 in the parent
        o = evaluate(TAIL[pol], False)
        acc.record(TAIL[pol], o, 'tokens <empty> / ' + POLNAMES[pol])
        for t in toks:
            tok_eval(acc, [t], pol, LEXP[pol][t] + TAIL[pol], 0)
    shards = [(i, j) for i in toks for j in toks]
    for r in pmap(explore_shard, shards, chunksize=1):
        acc.merge(r)
    n = acc.n
    space = sum(len(toks) ** j for j in range(0, N + 1)) * len(pols)
    covered = n.get('evaluations', 0) - n.get('validated_extensions', 0) + n.get('pruned_inputs', 0) + n.get('unrealisable_inputs', 0)
    ck.require(covered == space, '%s space accounting: %d evaluated + %d pruned + %d unrealisable != %d' % (
        name, n.get('evaluations', 0) - n.get('validated_extensions', 0), n.get('pruned_inputs', 0), n.get('unrealisable_inputs', 0), space))
    if n.get('pruning_unsound'):
        need(False, 'prefix pruning argument refuted on %d extensions: %s' % (n['pruning_unsound'], json.dumps(acc.samples[:2], default=repr)))
    need(n.get('accept', 0) > 100 and n.get('reject', 0) > 100, name + ': both verdicts must occur')
    need(n.get('extents_checked', 0) > 100, name + ': no call/array extents were checked')
    need(n.get('dead_prefixes', 0) > 0 and n.get('validated_extensions', 0) > 0, name + ': pruning never applied / never validated')
    ck.part(name, alphabet=len(toks), max_len=N, policies=[POLNAMES[p] for p in pols], space=space, pruning_validation_1_in_K=K,
            pruning_validation_extra_depth=2, **{k: v for k, v in sorted(n.items())})
    total.merge(acc)


def part_tokens(ck, total):
    # self-check of the no-separator policy: the reference scanner must read every adjacent pair as two tokens
    for i in range(A):
        for j in range(A):
            if i == I_COMMENT and j != I_EOL:
                continue            # unrealisable (excluded from the space)
            t = LEX[i] + SEP[1][i][j] + LEX[j]
            toks = [t[a:b] for k, a, b in cc.scan(t) if k != 'ws']
            ck.require(toks == [LEX[i], LEX[j]], 'separator policy 1 merges %r %r -> %r' % (LEX[i], LEX[j], toks))
    N = int(os.environ.get('C02_DEPTH') or ck.q(4, 5))
    N2 = int(os.environ.get('C02_CORE_DEPTH') or ck.q(0, 6))
    run_layer(ck, total, 'tokens_full', NAMES, [0, 1, 2], N, ck.q(50, 400))
    if N2 > N:                       # deeper, narrower layer (thorough only; at depth <= N it is contained in tokens_full)
        run_layer(ck, total, 'tokens_core', CORE, [0], N2, ck.q(50, 400))
    ck.sample({'tokens': 'id lparen lbracket number rbracket rparen', 'texts': [render([0, 18, 20, 1, 21, 19], p) for p in range(NPOL)]})
    return N, N2


# ---- part (b): corpus -----------------------------------------------------------------------------------------
def corpus_files():
    out = []
    for root, dirs, files in os.walk(REPO):
        dirs.sort()
        if '.git' in dirs:
            dirs.remove('.git')
        for f in sorted(files):
            if f in ('meson.build', 'meson.options', 'meson_options.txt'):
                out.append(os.path.join(root, f))
    return out


def read_like_meson(path):
    try:
        with open(path, encoding='utf-8') as f:      # interpreterbase.read_buildfile: text mode, universal newlines
            return f.read()
    except UnicodeDecodeError:
        return None


def slots(text):
    """[(leading blanks, lexeme)] for every token that is not plain blanks, plus the trailing blanks"""
    out = []
    lead = ''
    for k, a, b in cc.scan(text):
        if k == 'ws':
            lead += text[a:b]
        else:
            out.append((lead, text[a:b]))
            lead = ''
    return out, lead


def join(sl, trail):
    out = []
    prev = ''
    for lead, lx in sl:
        if not lead and needs_sep(prev, lx):
            lead = ' '
        out.append(lead)
        out.append(lx)
        prev = lx
    out.append(trail)
    return ''.join(out)


def neighbourhood(text):
    sl, trail = slots(text)
    n = len(sl)
    for i in range(n):
        yield 'delete %d' % i, join(sl[:i] + [(sl[i][0], '')] + sl[i + 1:], trail)
    for i in range(n):
        yield 'duplicate %d' % i, join(sl[:i + 1] + [('', sl[i][1])] + sl[i + 1:], trail)
    for i in range(n - 1):
        yield 'swap %d' % i, join(sl[:i] + [(sl[i][0], sl[i + 1][1]), (sl[i + 1][0], sl[i][1])] + sl[i + 2:], trail)
    for i in range(n):
        for t in range(A):
            if LEX[t] != sl[i][1]:
                yield 'replace %d by %s' % (i, NAMES[t]), join(sl[:i] + [(sl[i][0], LEX[t])] + sl[i + 1:], trail)


def corpus_file_job(path):
    acc = Acc()
    text = read_like_meson(path)
    rel = os.path.relpath(path, REPO)
    if text is None:
        acc.add('files_not_utf8')
        return acc, None, 0
    o = evaluate(text, False)
    acc.record(text, o, 'corpus ' + rel)
    acc.add('files_' + o.cls)
    ntok = len(slots(text)[0])
    return acc, text, ntok


def neighbourhood_job(item):
    rel, text = item
    acc = Acc()
    seen = {text}
    for what, t2 in neighbourhood(text):
        if t2 in seen:
            acc.add('edits_identical_text')
            continue
        seen.add(t2)
        o = evaluate(t2, False)
        acc.record(t2, o, lambda: 'corpus-edit %s: %s' % (rel, what))
        acc.add('edits')
    return acc


def part_corpus(ck, total):
    T_ = ck.q(20, 60)
    files = corpus_files()
    acc = Acc()
    uniq = {}
    for (a, text, ntok), path in zip(pmap(corpus_file_job, files, chunksize=16), files):
        acc.merge(a)
        if text is not None and 0 < ntok <= T_ and text not in uniq:
            uniq[text] = os.path.relpath(path, REPO)
    items = sorted(((rel, text) for text, rel in uniq.items()), key=lambda x: (len(x[1]), x[0]))
    acc2 = Acc()
    for a in pmap(neighbourhood_job, items, chunksize=4):
        acc2.merge(a)
    ck.require(len(files) > 1000, 'corpus not found under %s' % REPO)
    need(acc.n.get('files_accept', 0) > 1000 and acc.n.get('extents_checked', 0) > 1000, 'corpus: hardly any file accepted / extent-checked')
    need(acc2.n.get('edits', 0) > 10000 and acc2.n.get('accept', 0) > 0 and acc2.n.get('reject', 0) > 0,
         'edit neighbourhood empty or one-sided')
    ck.part('corpus_files', files=len(files), **{k: v for k, v in sorted(acc.n.items())})
    ck.part('corpus_edits', max_tokens=T_, distinct_files_expanded=len(items), **{k: v for k, v in sorted(acc2.n.items())})
    if items:
        ck.sample({'corpus_edit_base': items[len(items) // 2][0], 'tokens': len(slots(items[len(items) // 2][1])[0])})
    total.merge(acc)
    total.merge(acc2)
    return T_


# ---- part (c): characters -------------------------------------------------------------------------------------
CHARS = ["'", '\\', '#', '\r', '\t', cc.BOM, 'é', '"', ';', '\n', ' ', 'a', 'f', '0', '1', 'x', '(', ')', '=', '!', '\x0c']
FRAMES = [('', ''), ('', '\nf([1])\n'), ('v = ', '\nf([1])\n')]


def lexer_alone(text):
    """The lexer on its own: a located MesonException, or tokens whose spans tile the text (nothing dropped)."""
    try:
        toks = list(mparser.Lexer(text).lex('f'))
    except MesonException as e:
        ln, cn = getattr(e, 'lineno', None), getattr(e, 'colno', None)
        if not cc.position_ok(text, ln, cn):
            key = cc.classify_position(text, ln, cn, None)
            return 'reject', ('C02:lexer:position-outside-text' if key.endswith(':outside-text') else key,
                              'lexer error at line %r col %r which is not a position inside the text' % (ln, cn))
        return 'reject', None
    except Exception as e:
        return 'crash', ('C02:lexer:exception:' + type(e).__name__, '%s escaped the lexer: %s' % (type(e).__name__, str(e)[:200]))
    pos = 0
    for t in toks:
        if t.bytespan[0] != pos or t.bytespan[1] <= pos:
            return 'accept', ('C02:lexer:spans-do-not-tile', 'token %s spans %r after offset %d' % (t.tid, t.bytespan, pos))
        pos = t.bytespan[1]
    if pos != len(text):
        return 'accept', ('C02:lexer:spans-do-not-tile', 'tokens end at %d of %d' % (pos, len(text)))
    return 'accept', None


def chars_job(first):
    L = CFG['L']
    acc = Acc()

    def strings(prefix, n):
        yield prefix
        if n:
            for c in CHARS:
                yield from strings(prefix + c, n - 1)
    for s in strings(first, L - 1):
        cls, v = lexer_alone(s)
        acc.add('lexer_runs')
        acc.add('lexer_' + cls)
        if v:
            ent = acc.viol.setdefault(v[0], [0, []])
            ent[0] += 1
            if len(ent[1]) < 3:
                ent[1].append(((len(s), s), s, v[1], 'chars(lexer alone) %r' % s, 'lexer'))
        for pre, post in FRAMES:
            t = pre + s + post
            o = evaluate(t, False)
            acc.record(t, o, lambda: 'chars %r in frame %r' % (s, (pre, post)))
    return acc


def part_chars(ck, total):
    L = ck.q(3, 4)
    CFG['L'] = L
    acc = Acc()
    o = evaluate('', False)
    acc.record('', o, 'chars <empty>')
    for a in pmap(chars_job, CHARS, chunksize=1):
        acc.merge(a)
    nstr = sum(len(CHARS) ** j for j in range(1, L + 1))
    ck.require(acc.n.get('lexer_runs') == nstr, 'character space accounting')
    need(acc.n.get('lexer_accept', 0) > 0 and acc.n.get('lexer_reject', 0) > 0, 'lexer verdicts one-sided')
    ck.part('chars', charset=''.join(CHARS).encode('unicode_escape').decode(), max_len=L, strings=nstr, frames=len(FRAMES),
            **{k: v for k, v in sorted(acc.n.items())})
    total.merge(acc)
    return L


# ------------------------------------------------------------------------------------------------------------
# gaps: every kind of trivia in every gap (and every pair of gaps) of skeleton statements.  Whatever sits between two
# tokens - also between the two words of `not in` - must come back from the printer (or the text must be rejected).
GAP_SKELETONS = [
    ['x', '=', '(', 'a', 'not', 'in', 'b', ')', '\n'],
    ['f', '(', 'a', 'not', 'in', 'b', ',', 'k', ':', '[', '1', ',', '2', ']', ')', '\n'],
    ['x', '=', '[', 'a', ',', 'b', 'not', 'in', 'c', ']', '\n'],
    ['if', '(', 'a', 'not', 'in', 'b', ')', '\n', 'x', '=', '1', '\n', 'endif', '\n'],
    ['x', '=', '{', "'k'", ':', 'a', 'not', 'in', 'b', '}', '\n'],
    ['x', '=', '(', 'a', '?', 'b', ':', 'c', ')', '\n'],
    ['x', '=', 'a', '.', 'f', '(', 'b', ')', '[', '0', ']', '.', 'g', '(', ')', '\n'],
    ['x', '+=', '(', 'not', 'a', 'and', '-', 'b', '==', 'c', ')', '\n'],
    ['foreach', 'i', ',', 'j', ':', 'd', '\n', 'continue', '\n', 'endforeach', '\n'],
    ['x', '=', '(', 'a', 'or', 'b', ')', '!=', '(', 'c', 'in', 'd', ')', '\n'],
]
GAP_TRIVIA = ['', ' ', '  ', '\t', '\n', ' #c\n', '\\\n', ' \\\n  ', '\n\n', '#c\n#d\n']


def gap_text(toks, fill):
    out = []
    for i, t in enumerate(toks):
        out.append(t)
        if i + 1 < len(toks):
            g = fill.get(i)
            if g is None:
                g = ' ' if (t != '\n' and toks[i + 1] != '\n') else ''
            out.append(g)
    return ''.join(out)


def gaps_job(si):
    toks = GAP_SKELETONS[si]
    acc = Acc()
    n = len(toks) - 1
    seen = set()

    def run(fill):
        text = gap_text(toks, fill)
        if text in seen:
            return
        seen.add(text)
        o = evaluate(text, False)
        acc.record(text, o, lambda: 'gaps skeleton %d, trivia %r' % (si, sorted(fill.items())))
        acc.add('gap_texts')
    run({})
    for i in range(n):
        for a in GAP_TRIVIA:
            run({i: a})
    for i in range(n):
        for j in range(i + 1, n):
            for a in GAP_TRIVIA:
                for b in GAP_TRIVIA:
                    run({i: a, j: b})
    return acc


def part_gaps(ck, total):
    acc = Acc()
    for a in pmap(gaps_job, list(range(len(GAP_SKELETONS))), chunksize=1):
        acc.merge(a)
    need(acc.n.get('accept', 0) > 1000 and acc.n.get('reject', 0) > 1000, 'gap family verdicts one-sided')
    ck.part('gaps', skeletons=len(GAP_SKELETONS), trivia=len(GAP_TRIVIA), **{k: v for k, v in sorted(acc.n.items())})
    total.merge(acc)


# ------------------------------------------------------------------------------------------------------------
# blocks: block statements nested in each other.  The gap skeletons above hold one flat `if` and one flat `foreach`; the token
# sequences are far too short for a block inside a block (11 tokens at least).  Here the skeletons are ALL nestings, up to a
# depth, of the five block forms (if / if-else / if-elif / if-elif-else / foreach) in every clause body of the enclosing
# form, the inner block alone in its body, after a plain statement, or before one.  Every place where a statement or a
# block keyword line ends ("boundary", a newline in the plain rendering, the end of the text included) is filled with every
# kind of trivia, one boundary and every pair of boundaries at a time - also the ones that keep two block keywords on one
# logical line (blank, tab, line continuation) or glue them together; every other gap gets every trivia once.
# Oracle as everywhere: rejected with a located error, or printed back byte for byte with exact extents.
BLOCK_FORMS = [('if', ['if']), ('if-else', ['if', 'else']), ('if-elif', ['if', 'elif']),
               ('if-elif-else', ['if', 'elif', 'else']), ('foreach', ['foreach'])]
BLOCK_HEAD = {'if': ['if', 'a'], 'elif': ['elif', 'b'], 'else': ['else'], 'foreach': ['foreach', 'i', ':', 'd']}
BLOCK_AROUND = ['alone', 'after-statement', 'before-statement']
BLOCK_LEAF = ['f', '(', ')']
BLOCK_CLOSERS = frozenset(('endif', 'endforeach'))
BLOCK_KEYWORDS = frozenset(('if', 'elif', 'else', 'endif', 'foreach', 'endforeach'))
SAME_LINE_TRIVIA = frozenset((' ', '  ', '\t', '\\\n', ' \\\n  '))
# in PAIRS of boundaries: one trivia of each nature (nothing, blank, continuation, comment + newline, empty line); the full list
# is used for pairs in skeletons of depth <= 2 in the thorough tier, and for every single gap always
PAIR_TRIVIA = ['', ' ', '\\\n', ' #c\n', '\n\n']


def block_skeletons(depth):
    """[(description, tokens, boundary)]: boundary[i] is True when the gap after token i ends a line in the plain rendering"""
    out = []

    def emit(chain, around):
        # chain: [(form index, clause index holding the next level)], innermost last (its clause index is None)
        toks, bnd = [], []

        def put(words, end_of_line=True):
            for w in words:
                toks.append(w)
                bnd.append(False)
            bnd[-1] = end_of_line

        def block(level):
            fi, hold = chain[level]
            clauses = BLOCK_FORMS[fi][1]
            for ci, cl in enumerate(clauses):
                put(BLOCK_HEAD[cl])
                if level + 1 < len(chain) and ci == hold:
                    if around == 'after-statement':
                        put(BLOCK_LEAF)
                    block(level + 1)
                    if around == 'before-statement':
                        put(BLOCK_LEAF)
                else:
                    put(BLOCK_LEAF)
            put(['endforeach' if clauses[0] == 'foreach' else 'endif'])
        block(0)
        desc = ' > '.join(BLOCK_FORMS[fi][0] + ('' if hold is None else '[%s body]' % BLOCK_FORMS[fi][1][hold]) for fi, hold in chain)
        out.append((desc + (' (inner block %s)' % around if len(chain) > 1 else ''), toks, bnd))

    def chains(prefix, d):
        for fi in range(len(BLOCK_FORMS)):
            yield prefix + [(fi, None)]
            if d > 1:
                for hold in range(len(BLOCK_FORMS[fi][1])):
                    yield from chains(prefix + [(fi, hold)], d - 1)
    for ch in sorted(chains([], depth), key=lambda c: (len(c), c)):      # simplest first
        for around in (BLOCK_AROUND if len(ch) > 1 else BLOCK_AROUND[:1]):
            emit(ch, around)
    return out


def block_text(toks, bnd, fill):
    out = []
    for i, t in enumerate(toks):
        out.append(t)
        g = fill.get(i)
        if g is None:
            g = '\n' if bnd[i] else ' '
        out.append(g)
    return ''.join(out)


def blocks_job(item):
    si, (desc, toks, bnd), ptriv = item
    acc = Acc()
    seen = set()
    B = [i for i in range(len(toks)) if bnd[i]]

    def run(fill):
        text = block_text(toks, bnd, fill)
        if text in seen:
            return
        seen.add(text)
        o = evaluate(text, False)
        acc.record(text, o, lambda: 'blocks skeleton %d (%s), trivia %r' % (si, desc, sorted(fill.items())))
        acc.add('block_texts')
        if o.cls == 'accept':
            for i, g in fill.items():
                if g in SAME_LINE_TRIVIA and i + 1 < len(toks) and toks[i] in BLOCK_CLOSERS and toks[i + 1] in BLOCK_KEYWORDS:
                    acc.add('accepted_closer_and_next_block_keyword_on_one_line')
                    if toks[i + 1] in BLOCK_CLOSERS:
                        acc.add('accepted_two_closers_on_one_line')
                    break
            if text[-1:] != '\n':
                acc.add('accepted_without_final_newline')
    run({})
    for i in range(len(toks)):
        for a in GAP_TRIVIA:
            run({i: a})
    for x, i in enumerate(B):
        for j in B[x + 1:]:
            for a in ptriv:
                for b in ptriv:
                    run({i: a, j: b})
    return acc


def part_blocks(ck, total):
    D = int(os.environ.get('C02_BLOCK_DEPTH') or ck.q(2, 3))
    sk = block_skeletons(D)
    acc = Acc()
    full_upto = ck.q(0, 2)           # nesting depth up to which pairs of boundaries get the full trivia list
    items = [(i, s, GAP_TRIVIA if s[0].count(' > ') < full_upto else PAIR_TRIVIA) for i, s in enumerate(sk)]
    for a in pmap(blocks_job, items, chunksize=1):
        acc.merge(a)
    n = acc.n
    need(n.get('accept', 0) > 1000 and n.get('reject', 0) > 1000, 'block family verdicts one-sided')
    need(n.get('accepted_two_closers_on_one_line', 0) > 0 and n.get('accepted_closer_and_next_block_keyword_on_one_line', 0) > 0
         and n.get('accepted_without_final_newline', 0) > 0,
         'block family: no accepted text closes two blocks on one line / ends without a newline')
    ck.part('blocks', forms=[f for f, _ in BLOCK_FORMS], max_depth=D, inner_block_positions=BLOCK_AROUND, skeletons=len(sk),
            trivia=len(GAP_TRIVIA), pair_trivia=len(PAIR_TRIVIA), full_trivia_in_pairs_up_to_depth=full_upto, boundaries_max=max(sum(b) for _, _, b in sk), **{k: v for k, v in sorted(n.items())})
    ck.sample({'blocks_skeleton': sk[len(sk) // 2][0], 'plain_text': block_text(sk[len(sk) // 2][1], sk[len(sk) // 2][2], {})})
    total.merge(acc)
    return D, len(sk)


# ------------------------------------------------------------------------------------------------------------
# pairs (lib/verif/c02pairs.py): the verdict for a text must not depend on what the same process parsed before
def part_pairs(ck, total):
    from verif import c02pairs as cp
    n = len(cp.PAIR_TEXTS)
    items = [(None, j) for j in range(n)] + [(i, j) for i in range(n) for j in range(n)]
    res = {}
    for i, j, o in pmap(cp.pairs_job, items, chunksize=4):
        res[(i, j)] = o
    bad = 0
    for j in range(n):
        base = res[(None, j)]
        for i in range(n):
            got = res[(i, j)]
            if got[:4] != base[:4]:
                bad += 1
                ck.violation('C02:depends-on-earlier-parse', 'after parsing %r in the same process, %r gives %s %s; alone it gives %s %s'
                             % (cp.PAIR_TEXTS[i], cp.PAIR_TEXTS[j], got[1], (got[3] + got[4])[:3], base[1], (base[3] + base[4])[:3]),
                             {'text': cp.PAIR_TEXTS[j], 'before': cp.PAIR_TEXTS[i], 'origin': 'pairs', 'mode': 'pair'})
    ck.part('pairs', texts=n, ordered_pairs=n * n, fresh_interpreters=len(items), deviating=bad)
    total.add('evaluations', len(items))


# ---- part (f): escapes and scale --------------------------------------------------------------------------------
# Small-scope enumeration never reaches three input classes whose handling sits in library calls with their own
# failure modes: escape sequences that need a lookup (\N{name}, \U beyond the Unicode range), digit strings beyond
# int()'s conversion limit, and nesting / chain lengths beyond the interpreter's recursion limit.  The grid below is
# (escape bodies <= 2) x string kinds x frames, (digit-run lengths) x bases, and (forms) x (depths) x (closed, open).
ESC_UNITS = ['\\N{LATIN SMALL LETTER A}', '\\N{COMMERCIAL AT}', '\\N{foo}', '\\N{}', '\\N{', '\\N', '\\N{a', '\\N{\u00e9}', '\\N{{}',
             '\\U00000041', '\\U0010FFFF', '\\U00110000', '\\UFFFFFFFF', '\\U0000D800', '\\U0000004', '\\U',
             '\\u0041', '\\uD800', '\\uDFFF', '\\uFFFF', '\\u004', '\\x00', '\\x41', '\\xff', '\\x4', '\\x',
             '\\0', '\\7', '\\101', '\\377', '\\400', '\\777', '\\8', '\\\\', "\\'", '\\q', '@', 'a']
ESC_KINDS = [("'", "'"), ("f'", "'"), ("'''", "'''"), ("f'''", "'''")]
ESC_FRAMES = [('x = ', '\n'), ('f(', ', [1])\n'), ('x = {', ': 1}\n')]
SCALE_LENGTHS = [1, 10, 100, 1000, 4300, 4301, 5000, 20000]
SCALE_DEPTHS_Q = [1, 10, 50, 90, 100, 500, 5000]
SCALE_DEPTHS_T = SCALE_DEPTHS_Q + [50000]
NEST_FORMS = [('paren', 'x = ', '(', '1', ')'), ('array', 'x = ', '[', '1', ']'), ('dict', 'x = ', "{'k': ", '1', '}'),
              ('call', 'x = ', 'f(', '1', ')'), ('kwcall', 'x = ', 'f(k: ', '1', ')'), ('index', 'x = ', 'a[', '0', ']'),
              ('not', 'x = ', 'not ', 'true', ''), ('minus', 'x = ', '-', '1', ''), ('if', '', 'if true\n', 'x = 1\n', 'endif\n'),
              ('foreach', '', 'foreach i : a\n', 'x = 1\n', 'endforeach\n'), ('ternary', 'x = ', 'true ? 1 : (', '2', ')'),
              ('mixed', 'x = ', 'f([(', '1', ')])')]
CHAIN_FORMS = [('plus', 'x = 1', ' + 1'), ('and', 'x = true', ' and true'), ('or', 'x = true', ' or false'), ('method', 'x = a', '.f()'),
               ('index', 'x = a', '[0]'), ('mul', 'x = 1', ' * 2'), ('args', 'f(1', ', 1'), ('array', 'x = [1', ', 1'),
               ('statements', 'x = 1', '\nx = 1'), ('elif', 'if a\n', 'elif a\n'), ('comments', 'x = 1', ' # c\n'),
               ('continuation', 'x = 1', ' \\\n + 1'), ('plusassign', 'x = 1', '\nx += 1')]


def scale_job(item):
    kind = item[0]
    acc = Acc()
    if kind == 'esc':
        first = item[1]
        for second in [''] + ESC_UNITS:
            body = first + second
            for op, cl in ESC_KINDS:
                for pre, post in ESC_FRAMES:
                    t = pre + op + body + cl + post
                    acc.record(t, evaluate(t, False), lambda: 'scale: escape body %r' % body)
                    acc.add('escape_cases')
    elif kind == 'num':
        n = item[1]
        for prefix, digit in (('', '1'), ('', '9'), ('0x', 'f'), ('0X', '1'), ('0o', '7'), ('0b', '1'), ('0', '0'), ('', '0')):
            for pre, post in (('x = ', '\n'), ('f(', ')\n'), ('x = -', '\n')):
                t = pre + prefix + digit * n + post
                acc.record(t, evaluate(t, False), lambda: 'scale: %d-digit number (%s)' % (n, prefix or 'decimal'))
                acc.add('number_cases')
    elif kind == 'nest':
        _, (name, pre, op, core, cl), d = item
        for closers in (d, 0, d // 2, d + 1):
            t = pre + op * d + core + cl * closers + ('' if (cl * closers + core).endswith('\n') else '\n')
            o = evaluate(t, False)
            acc.record(t, o, lambda: 'scale: %s nested %d deep, %d closers' % (name, d, closers))
            acc.add('nesting_cases')
            if o.cls == 'accept':
                acc.add('nesting_accepted_depth_%d' % d)
    else:
        _, (name, base, unit), n = item
        for tail in ('\n', ')\n', ']\n', '\nendif\n'):
            t = base + unit * n + tail
            o = evaluate(t, False)
            acc.record(t, o, lambda: 'scale: %s chain of %d' % (name, n))
            acc.add('chain_cases')
            if o.cls == 'accept' and not o.viol:
                acc.add('chain_roundtrips')
    return acc


def part_scale(ck, total):
    depths = ck.q(SCALE_DEPTHS_Q, SCALE_DEPTHS_T)
    items = [('esc', u) for u in ESC_UNITS] + [('num', n) for n in SCALE_LENGTHS]
    items += [('nest', f, d) for f in NEST_FORMS for d in depths]
    items += [('chain', f, n) for f in CHAIN_FORMS for n in SCALE_LENGTHS]
    acc = Acc()
    for a in pmap(scale_job, items, chunksize=1):
        acc.merge(a)
    need(acc.n.get('escape_cases', 0) == len(ESC_UNITS) * (len(ESC_UNITS) + 1) * len(ESC_KINDS) * len(ESC_FRAMES), 'escape grid accounting')
    need(acc.n.get('nesting_accepted_depth_50', 0) > 0, 'no 50-deep nesting was accepted')
    need(acc.n.get('chain_roundtrips', 0) > 0, 'no chain round-tripped')
    ck.part('scale', escape_units=len(ESC_UNITS), string_kinds=len(ESC_KINDS), frames=len(ESC_FRAMES), digit_run_lengths=SCALE_LENGTHS,
            nesting_forms=len(NEST_FORMS), nesting_depths=depths, chain_forms=len(CHAIN_FORMS), chain_lengths=SCALE_LENGTHS,
            **{k: v for k, v in sorted(acc.n.items())})
    total.merge(acc)


# ------------------------------------------------------------------------------------------------------------
def report(ck, total):
    """violations shortest-first; every reported case is re-evaluated here (a different process than the worker)"""
    for key in sorted(total.viol, key=lambda k: (total.viol[k][1][0][0][0] if total.viol[k][1] else 0, k)):
        cnt, exs = total.viol[key]
        ck.add('cases:' + key, cnt)
        for rank, text, what, origin, mode in sorted(exs)[:3]:
            if mode == 'lexer':
                again = [a for a in [lexer_alone(text)[1]] if a]
            else:
                again = evaluate(text, False).viol
            if key not in [k for k, _ in again]:
                # not reproduced here: the verdict depends on what the worker had parsed before (or the check is broken: either way
                # it must not pass silently).  A brand-new interpreter gives the reference outcome for the text alone.
                from verif import c02pairs as cp
                alone = cp.fresh_outcome([text])
                ck.violation('C02:depends-on-earlier-parse:' + key.split(':', 1)[1],
                             'a worker process that had parsed other texts before reports %s for %r (%s); this process does not; a brand-new '
                             'interpreter gives %s %s' % (key, text[:200], what, alone[1], alone[3]), {'text': text, 'origin': origin, 'mode': mode})
                continue
            ck.violation(key, '%s -- input %r (%s)' % (what, text[:200], origin), {'text': text, 'origin': origin, 'mode': mode})


def main():
    ck = Check('C02', 'exploration')
    if ck.args.replay:
        return replay(ck)
    total = Acc()
    N = N2 = T_ = L = None
    if ck.want('chars'):
        L = part_chars(ck, total)
    if ck.want('corpus'):
        T_ = part_corpus(ck, total)
    if ck.want('tokens'):
        N, N2 = part_tokens(ck, total)
    if ck.want('gaps'):
        part_gaps(ck, total)
    BD = BS = None
    if ck.want('blocks'):
        BD, BS = part_blocks(ck, total)
    if ck.want('pairs'):
        part_pairs(ck, total)
    if ck.want('scale'):
        part_scale(ck, total)
    report(ck, total)
    if UNMET and not ck.n_viol:
        ck.internal('vacuity/self-check failed: ' + '; '.join(UNMET))
    for s in total.samples[:2]:
        ck.sample(s)
    for t in ("a([1], b)\n", "x = [\n  'y',  # c\n]\n", "( [ 1 ]", "if a\n"):
        o = evaluate(t, False)
        ck.sample({'input': t, 'outcome': o.sig, 'error_line_col': o.errpos, 'extents_checked': o.nconstructs})
    ck.assume('a position "inside the text" is 1 <= line <= number of lines (a trailing newline opens one more, empty, line) and '
              '0 <= column <= length of that line including its terminating newline; the BOM error is at 0/0 as documented')
    ck.assume('"trailing whitespace" of a printed node is its final run of blanks, newlines, comments and line continuations, '
              'found with a scanner written from Syntax.md')
    ck.assume('unspecified corner: texts containing a bare CR are not extent-checked (files are read with universal newlines, '
              'so a CR never reaches the parser); counted as skipped_unspecified')
    ck.assume('the parser runs in user mode: the `testcase` statement only exists under MESON_RUNNING_IN_PROJECT_TESTS (meson\'s own '
              'test runner); the 22 corpus files using it are rejected here with a located error, which satisfies the property')
    ck.assume('a token sequence in which a comment is followed by anything but a newline is not realisable (the rest of the line '
              'is the comment); such sequences are excluded from the token space and counted as unrealisable_inputs')
    ck.assume('E6 second opinion (accept/reject agreement with the reference grammar) is not built yet: accepting an '
              'ill-formed program such as `x = 1 +` is not judged here')
    ck.finish(evaluations=total.n.get('evaluations', 0), distinct_nontrivial=len(total.sigs),
              skipped_unspecified=total.n.get('skipped_unspecified', 0),
              accepted=total.n.get('accept', 0), rejected=total.n.get('reject', 0), crashed=total.n.get('crash', 0),
              extents_checked=total.n.get('extents_checked', 0), pruned_inputs=total.n.get('pruned_inputs', 0),
              rule='tokens: every realisable sequence (no token after a comment on its line) of length <= %s over %d tokens x %d '
                   'separator policies, and of length <= %s over a %d-token core alphabet with single spaces (extensions of dead '
                   'prefixes are not run: counted in pruned_inputs, argument re-validated 1-in-K); corpus: every build/options file under the repo + '
                   'every single token edit of each distinct file of <= %s tokens; chars: every string of length <= %s over %d '
                   'characters alone and in %d frames; blocks: every nesting of the 5 block forms up to depth %s (%s skeletons) x every trivia in every gap '
                   'and in every pair of line-end boundaries. distinct_nontrivial = distinct outcome signatures (exception type + '
                   'message head for rejects, first three top-level node types for accepts)' % (N, A, NPOL, N2, len(CORE), T_, L, len(CHARS), len(FRAMES), BD, BS),
              exhaustive=True)


def replay(ck):
    d = json.load(open(ck.args.replay))
    text = d['text']
    print('replay input %r (%s)' % (text, d.get('origin')))
    print('expected: located MesonException, or accepted with RawPrinter output == input and every call/array extent exact')
    if d.get('mode') == 'lexer':
        print('(lexer alone: a located MesonException, or tokens whose spans tile the text)')
        cls, v = lexer_alone(text)
        viol = [v] if v else []
        print('observed: %s' % cls)
    else:
        o = evaluate(text, False)
        cls, viol = o.cls, o.viol
        print('observed: %s %s %s' % (cls, o.sig, 'at line/col %r' % (o.errpos,) if cls == 'reject' else ''))
    for k, w in viol:
        print('  still violates: %s: %s' % (k, w))
    sys.exit(1 if viol else 0)


if __name__ == "__main__":
    run_main(main)
