# Child-side environment-answer hooks for mesonproc (run in the forked child before meson starts).
# They vary answers of the environment that meson must not depend on (directory-listing order) or neutralise
# waits (time.sleep).  They never touch mesonbuild itself.
import os
import time


def dirlist_order(mode: str) -> None:
    """mode: native | reversed | sorted -- order in which os.listdir / os.scandir (and so glob, os.walk, pathlib
    iterdir) report directory entries."""
    if mode == 'native':
        return
    rev = mode == 'reversed'
    real_listdir = os.listdir
    real_scandir = os.scandir

    def listdir(path='.'):
        r = real_listdir(path)
        return sorted(r, reverse=rev)

    class _ScandirIter:
        def __init__(self, path):
            with real_scandir(path) as it:
                self._entries = sorted(list(it), key=lambda e: e.name, reverse=rev)
            self._i = 0

        def __iter__(self):
            return self

        def __next__(self):
            if self._i >= len(self._entries):
                raise StopIteration
            e = self._entries[self._i]
            self._i += 1
            return e

        def close(self):
            pass

        def __enter__(self):
            return self

        def __exit__(self, *a):
            return False

    def scandir(path='.'):
        return _ScandirIter(path)
    os.listdir = listdir
    os.scandir = scandir


def no_sleep() -> None:
    time.sleep = lambda s: None


def combo(dir_mode: str, nosleep: bool = False) -> None:
    dirlist_order(dir_mode)
    if nosleep:
        no_sleep()
