# Helper of checks/c06.py only.
#
# bdio_project(): a project whose *configuration* creates files in the build directory and names / reads them again while
# configuring: the full grid  writer x reader x order  of the documented ways to do either, once in the root
# meson.build and once in a subdir() (so once with an empty and once with a non-empty current subdir).
#
#   writers (how configuration creates file F in the current build dir)
#     cfg    configure_file(output: F, configuration: ...)
#     cap    configure_file(output: F, command: ..., capture: true)
#     cmd    configure_file(output: F, command: [..., '@OUTPUT@'])          (the command writes F itself)
#     copy   configure_file(input: 'in.txt', output: F, copy: true)
#     run    run_command(..., meson.current_build_dir() / F)                 (the command writes F)
#   readers (how configuration names F)
#     none     nobody but the writer
#     runstr   run_command(cat, meson.current_build_dir() / F)              (a string path)
#     runfile  run_command(cat, <file object returned by the writer>)
#     cfgin    configure_file(input: F, output: F.cfgin, configuration: ...)
#     cmdin    configure_file(input: F, output: F.cmdin, command: [..., '@INPUT@', '@OUTPUT@'])
#     depfile  configure_file(..., depfile:) whose command writes a depfile that lists F as a dependency
#   order
#     after    F is named after it was created (it exists whenever it is named)
#     before   F is named by a statement in front of the one that creates it (string paths only: in a fresh build
#              directory F does not exist yet when it is named, in a reconfigured one it does); the reader tolerates a
#              missing file and its result is not used, so the project's meaning does not depend on it
#
# Every cell uses its own file name <writer>_<reader>_<order>.txt, so a difference in generated text names its cell.
import itertools
import typing as T

WRITERS = ['cfg', 'cap', 'cmd', 'copy', 'run']
READERS = ['none', 'runstr', 'runfile', 'cfgin', 'cmdin', 'depfile']
ORDERS = ['after', 'before']


def cells() -> T.List[T.Tuple[str, str, str]]:
    out = []
    for w, r, o in itertools.product(WRITERS, READERS, ORDERS):
        if r == 'none' and o == 'before':
            continue
        if o == 'before' and r not in ('runstr', 'depfile'):
            continue            # a file object / an input must exist when it is named
        if r in ('runfile', 'cfgin', 'cmdin') and w == 'run':
            continue            # run_command() returns no file object (and naming a generated input by string is deprecated)
        out.append((w, r, o))
    return out


def _writer(w: str, var: str, fn: str) -> str:
    if w == 'cfg':
        return "%s = configure_file(output: '%s', configuration: {'K': 'v'})" % (var, fn)
    if w == 'cap':
        return "%s = configure_file(output: '%s', command: [sh, '-c', 'echo cap'], capture: true)" % (var, fn)
    if w == 'cmd':
        return "%s = configure_file(output: '%s', command: [sh, '-c', 'echo cmd > \"$0\"', '@OUTPUT@'])" % (var, fn)
    if w == 'copy':
        return "%s = configure_file(input: 'in.txt', output: '%s', copy: true)" % (var, fn)
    if w == 'run':
        return "run_command(sh, '-c', 'echo run > \"$0\"', bd / '%s', check: true)" % fn
    raise AssertionError(w)


def _reader(r: str, var: str, fn: str, prefix: str) -> str:
    if r == 'none':
        return ''
    if r == 'runstr':
        return "run_command(sh, '-c', 'cat \"$0\" 2>/dev/null; true', bd / '%s', check: true)" % fn
    if r == 'runfile':
        return "run_command(sh, '-c', 'cat \"$0\"', %s, check: true)" % var
    if r == 'cfgin':
        return "configure_file(input: %s, output: '%s.cfgin', configuration: {'K': 'v'})" % (var, fn)
    if r == 'cmdin':
        return "configure_file(input: %s, output: '%s.cmdin', command: [sh, '-c', 'cat \"$0\" > \"$1\"', '@INPUT@', '@OUTPUT@'])" % (var, fn)
    if r == 'depfile':
        return ("configure_file(input: 'in.txt', output: '%s.dep', depfile: '%s.d', command: [sh, '-c', "
                "'cp \"$0\" \"$1\"; echo \"$(basename \"$1\"): $3\" > \"$2\"', '@INPUT@', '@OUTPUT@', '@DEPFILE@', bd / '%s'])" % (fn, prefix + fn, fn))
    raise AssertionError(r)


def _grid(prefix: str, only: T.Optional[T.Sequence[T.Tuple[str, str, str]]]) -> T.Tuple[T.List[str], T.List[str]]:
    lines, owned = [], []
    for w, r, o in (cells() if only is None else only):
        cid = '%s_%s_%s' % (w, r, o)
        fn, var = cid + '.txt', prefix + cid
        ws, rs = _writer(w, var, fn), _reader(r, var, fn, prefix)
        lines += [rs, ws] if o == 'before' else [ws, rs]
        # outputs written by meson itself (held to the "not touched when unchanged" clause); the others are written by
        # the project's own commands, which rewrite them on every configuration
        if w in ('cfg', 'cap', 'copy'):
            owned.append(fn)
        if r == 'cfgin':
            owned.append(fn + '.cfgin')
    return [l for l in lines if l], owned


def bdio_project(lang: T.Optional[str] = None, only: T.Optional[T.Sequence[T.Tuple[str, str, str]]] = None,
                 subgrid: bool = True) -> T.Tuple[T.Dict[str, str], T.List[str]]:
    """-> (files, build-dir relative paths of the configure-time outputs that meson itself writes)"""
    top, owned_top = _grid('r_', only)
    sub, owned_sub = _grid('s_', only) if subgrid else ([], [])
    head = ["project('bdio'%s, meson_version: '>=1.0')" % (", '%s'" % lang if lang else ''), "sh = find_program('sh')"]
    files = {'in.txt': 'x\n', 'sub/in.txt': 'y\n'}
    tail = []
    if lang == 'c':
        files['main.c'] = '#include "conf.h"\nint lf(void); int main(void) { return lf(); }\n'
        files['sub/l.c'] = 'int lf(void) { return 0; }\n'
        head.append("configure_file(output: 'conf.h', configuration: {'CONF': 1})")
        tail = ["executable('e', 'main.c', link_with: l, include_directories: include_directories('.', 'sub'))"]
        sub = sub + ["l = static_library('l', 'l.c')"]
    files['meson.build'] = '\n'.join(head + ['bd = meson.current_build_dir()'] + top + ["subdir('sub')"] + tail) + '\n'
    files['sub/meson.build'] = '\n'.join(['bd = meson.current_build_dir()'] + sub) + '\n'
    return files, owned_top + ['sub/' + p for p in owned_sub]


# A language-less project whose lookups go through wrap files whose `directory =` differs from the wrap name, by wrap name and by
# directory name, with fallback allowed: what is found must not depend on the order in which subprojects/ is listed.
WRAPS_PROJECT = {
    'meson.build': """project('wraps', meson_version: '>=1.0')
cd = configuration_data()
foreach n : ['wfoo', 'wfoo-1.0', 'wbar-2', 'wbar', 'zz-3', 'zz', 'aa', 'aa-0', 'nothere']
  d = dependency(n, required: false, allow_fallback: true)
  cd.set('HAVE_' + n.underscorify(), d.found())
endforeach
configure_file(output: 'have.h', configuration: cd)
""",
    'subprojects/wfoo.wrap': "[wrap-file]\ndirectory = wfoo-1.0\n\n[provide]\nwfoo = wfoo_dep\n",
    'subprojects/wbar.wrap': "[wrap-file]\ndirectory = wbar-2\n\n[provide]\nwbar = wbar_dep\n",
    'subprojects/zz.wrap': "[wrap-file]\ndirectory = zz-3\n\n[provide]\nzz = zz_dep\n",
    'subprojects/aa.wrap': "[wrap-file]\ndirectory = aa-0\n\n[provide]\naa = aa_dep\n",
    'subprojects/wfoo-1.0/meson.build': "project('wfoo', version: '1.0')\nwfoo_dep = declare_dependency()\n",
    'subprojects/wbar-2/meson.build': "project('wbar', version: '2')\nwbar_dep = declare_dependency()\n",
    'subprojects/zz-3/meson.build': "project('zz', version: '3')\nzz_dep = declare_dependency()\n",
    'subprojects/aa-0/meson.build': "project('aa', version: '0')\naa_dep = declare_dependency()\n",
}
