# C12 - `meson test` runs each test once, isolates serial tests and reports truthfully.
#
# Part 1 (deciding, exhaustive; level model_checking).  The REAL mesonbuild.mtest.TestHarness(options).doit() ->
# run_tests() -> asyncio.run(_run_tests), with options parsed by mtest.add_arguments, is executed from a real build
# directory (`meson setup --backend=none` of a generated project, so a real meson_test_setup.dat) under verif.vloop:
# a virtual asyncio loop whose fake selector is the choice point, fake subprocesses with real StreamReaders, a
# stubbed os.killpg.  For every configuration (ordered test set x --num-processes x --repeat x --maxfail) the
# stateless explorer runs EVERY order of enabled environment events (exit of any running fake process / expiry of
# the earliest timer) within the deviation bound (quick: 2; thorough: none for n<=4 with --repeat 1 and for the
# non-flaky n<=2 sets with --repeat 2, else as listed below).  Replaying a prefix that meets different options is a
# hard error (exit 2).  Every execution has a horizon (60 environment events).  Configurations are dealt out
# simplest first; after 40 new (not known) violations the exploration stops (`exhaustive` is then false).
#
#   Test attributes: is_parallel {P,S} x outcome {ok=exit 0, fail=exit 1, skip=77, err=99, sig=killed by SIGSEGV,
#   hang=never exits => only the timeout ends it} x should_fail {n,x} x protocol {e=exitcode, t=tap with a stream
#   `1..1/ok 1`, `1..1/not ok 1` or `1..0 # SKIP`}.  Timeouts differ per position (30,20,40,10,25 s virtual).
#   Covering family (same code for both tiers; [q] = quick, [t] = thorough; bound = max number of non-default choices):
#     A  n=1: the full attribute table (2 x 2 x (6 exitcode + 6x3 tap) = 96 tests)    x J x R x M   [q] bound 2  [t] all schedules
#     B  n=2: all 12^2 pairs of (is_parallel, outcome); (should_fail, protocol) rotate so that all 16 pairs of
#             them occur                                                              x J x R x M   [q] bound 2  [t] all schedules
#     C  n=3: all 8 P/S patterns x outcome triples     [q] {ok,fail,hang}^3, R={1,2}, bound 2
#                                                      [t] all 6^3 with R=1, all schedules; {ok,fail,hang}^3 with R=2, bound 3
#     D  n=4: all 16 P/S patterns x outcome 4-tuples   [q] strength-2 orthogonal array (9 rows) over {ok,fail,hang}, bound 2
#                                                      [t] all 3^4 with R=1, all schedules; the 9-row array with R=2, bound 3
#     E  n=5 [t only]: all 32 P/S patterns x strength-2 orthogonal array (27 rows) over {ok,fail,hang}; R=1 bound 2, R=2 bound 1
#     F  n=2, --repeat 2, outcome depends on the iteration (flaky tests), J={2,3}      [q] bound 2  [t] bound 3
#     R  n=1, protocol rust: {P,S} x should_fail x 6 outcomes x output {`test a::b ... ok`, `... FAILED`, `... ignored`}
#             (72 tests) x J x M                                                       [q] R=1 bound 2  [t] R={1,2} all schedules
#   with J = --num-processes {1,2,3}, R = --repeat {1,2}, M = --maxfail {0,1}.
#   EVERY configuration that is explored has ALL its schedules within the stated deviation bound explored.
#
#   Oracle per execution, evaluated on the fake-process start/end/signal log and on the harness's own outputs
#   (stdout summary, meson-logs/testlog.json, return value of TestHarness.doit()):
#     once      each selected (test, iteration) started <= 1 time; == 1 unless the run may be cut short
#               (--maxfail N>0 and >= N bad results, or --repeat > 1 and >= 1 bad result)
#     jobs      at every instant #running <= --num-processes
#     serial    while an is_parallel:false test runs nothing else runs, nothing starts before it ends, and it does
#               not start while anything else runs
#     class     result of each run per the documented table: 0 OK, 77 SKIP, 99 ERROR, other FAIL; should_fail
#               turns OK into UNEXPECTEDPASS and FAIL into EXPECTEDFAIL only; TIMEOUT iff the harness signalled the
#               process at/after its limit; a process still running strictly after its limit without having been
#               signalled is a violation; every process must have ended when the harness returns
#     totals    printed totals == tally of the testlog.json results; one json record per started run
#     exit      return value != 0  <=>  some FAIL / ERROR / TIMEOUT / UNEXPECTEDPASS
#   Selection by name, separately exhaustive on a build directory in which test names are NOT unique (same name in two subdirs
#   of one project, and in both projects) through the real TestHarness.get_tests(): every sequence of <= 2 (thorough: 3)
#   arguments over the 48 documented spellings {name, :name, proj:name, proj:} x wildcards in either part: each test named by
#   some argument is selected exactly once, no other test (an argument naming no test at all: unspecified).  The single
#   arguments and the ordered pairs of 4 spellings also run through the real CLI with real test programs that log their start.
#   Selection logic, separately exhaustive on a 2-project x 2-suite build directory through the real
#   TestHarness.get_tests(): every --slice i/n for n <= |subset| over every non-empty subset of 8 tests, 3 of them non-parallel (disjoint, covering), every
#   pair (include set, exclude set) of subsets of the 6 documented suite spellings, priority order.
#
# Part 2 (conformance with real processes): a handful of the same configurations through the real CLI
# (mesonproc.run_meson(['test', '-C', bld, ...])) with real child scripts that append start/end events with
# CLOCK_MONOTONIC timestamps to a log file and sleep for planned durations (several duration patterns per
# configuration).  Only invariants are evaluated, on the intervals the test programs themselves report (those are
# sub-intervals of the true running intervals, so an overlap of reported intervals is a real overlap: slow
# scheduling can reduce coverage but cannot cause a false alarm).
#
# Unspecified corners (never compared, or compared against a set of admissible results; counted):
#   * how a run that the harness interrupts when --maxfail is reached is classified and tallied (INTERRUPT; the
#     `Fail:` total may or may not include it)                                          -> interrupted_runs
#   * whether a TIMEOUT / UNEXPECTEDPASS counts towards --maxfail and stops --repeat: the run MAY be cut short as soon
#     as there is a bad result, it is never required to be
#   * tap / rust protocol with a non-zero exit status: ERROR or FAIL (EXPECTEDFAIL under should_fail), also SKIP for 77;
#     tap + should_fail + `not ok` + exit 0: EXPECTEDFAIL or UNEXPECTEDPASS               -> loose_cells
#   * `--suite name` without project for tests of a SUBproject ("can be omitted if it is the top-level project")
#                                                                                        -> skipped_unspecified
#   * relative order of tests with equal priority
import argparse, collections, io, itertools, json, os, re, shutil, signal, sys, time
from verif.core import Check, pmap, run_main, scratch_root, InternalError, NCPU
from verif import vloop, mesonproc

from mesonbuild import mtest

TIMEOUTS = [30, 20, 40, 10, 25]
# test.yaml, timeout: "Since 0.57 if timeout is <= 0 the test has infinite duration"; the tests of blocks 5..9 have no limit
NOLIMIT = [-1, 0, -30, 0, -1]
INF = float('inf')
OUTS = ['ok', 'fail', 'skip', 'err', 'sig', 'hang']
RC = {'ok': 0, 'fail': 1, 'skip': 77, 'err': 99, 'sig': -int(signal.SIGSEGV), 'hang': 0}
STREAMS = {'ok': b'1..1\nok 1\n', 'notok': b'1..1\nnot ok 1\n', 'skip': b'1..0 # SKIP\n',
           # protocol rust (output of a native Rust test executable: one line per test function)
           'rok': b'\nrunning 1 test\ntest a::b ... ok\n', 'rfail': b'\nrunning 1 test\ntest a::b ... FAILED\n', 'rign': b'\nrunning 1 test\ntest a::b ... ignored\n'}
STREAM_VERDICT = {'ok': 'OK', 'notok': 'FAIL', 'skip': 'SKIP', 'rok': 'OK', 'rfail': 'FAIL', 'rign': 'SKIP'}
DEFAULT_STREAM = {'ok': 'ok', 'fail': 'notok', 'skip': 'skip', 'err': 'ok', 'sig': 'notok', 'hang': 'ok'}
BAD = ('FAIL', 'ERROR', 'TIMEOUT', 'UNEXPECTEDPASS')
HORIZON = 60
RUN_CAP = 60000        # executions per configuration; hitting it clears `exhaustive`
EARLY_STOP = 40         # stop exploring after this many new (not known) violations; clears `exhaustive`

T_PY = '''#!%s
# Test program of the C12 check.  Part 1 never executes it.  Part 2: behaviour comes from $C12_PLAN, events
# (start / end rc / term) are appended with CLOCK_MONOTONIC timestamps to $C12_LOG.
import json, os, signal, sys, time
name = sys.argv[1] if len(sys.argv) > 1 else '?'
plan_file = os.environ.get('C12_PLAN')
if not plan_file:
    sys.exit(0)
it = os.environ.get('MESON_TEST_ITERATION', '1')
key = name + '#' + it
fd = os.open(os.environ['C12_LOG'], os.O_WRONLY | os.O_APPEND | os.O_CREAT, 0o644)
def log(what):
    os.write(fd, ('%%s %%s %%.6f\\n' %% (what, key, time.monotonic())).encode())
def on_term(signum, frame):
    log('term')
    os._exit(143)
signal.signal(signal.SIGTERM, on_term)
log('start')
plan = json.load(open(plan_file))
spec = plan.get(key) or plan[name]
time.sleep(3600 if spec.get('hang') else spec['sleep'])
if spec.get('out'):
    sys.stdout.write(spec['out'])
    sys.stdout.flush()
rc = spec['rc']
log('end %%d' %% rc)
if rc < 0:
    signal.signal(-rc, signal.SIG_DFL)
    os.kill(os.getpid(), -rc)
    time.sleep(5)
os._exit(rc)
'''


# =============================================================================================================
# projects
def main_project(nblocks):
    mb = '''project('p12')
prog = find_program('t.py')
timeouts = %r
foreach b : %r
  foreach par : [true, false]
    foreach sf : [false, true]
      foreach proto : ['exitcode', 'tap', 'rust']
        name = 'b@0@@1@@2@@3@'.format(b, par ? 'P' : 'S', sf ? 'x' : 'n', {'exitcode': 'e', 'tap': 't', 'rust': 'r'}[proto])
        test(name, prog, args: [name], is_parallel: par, should_fail: sf, protocol: proto, timeout: timeouts[b])
      endforeach
    endforeach
  endforeach
endforeach
''' % ((TIMEOUTS + NOLIMIT)[:nblocks], list(range(nblocks)))
    return {'meson.build': mb, 't.py': T_PY % sys.executable}


SEL_MAIN = 'mp'
SEL_TESTS = [   # (project, name, suites, priority)
    ('mp', 'm_a', ['sa'], 0), ('mp', 'm_b', ['sb'], 5), ('mp', 'm_ab', ['sa', 'sb'], -3), ('mp', 'm_none', [], 0),
    ('sub', 's_a', ['sa'], 7), ('sub', 's_b', ['sb'], 0), ('sub', 's_ab', ['sa', 'sb'], 0), ('sub', 's_none', [], -3),
]
SUITE_ARGS = ['mp:sa', 'mp:sb', 'sub:sa', 'sub:sb', 'sa', 'sb']
SEL_SERIAL = {'m_b', 's_none', 's_ab'}     # declared is_parallel: false (slicing must not treat them differently)


def sel_project():
    def decl(t):
        kw = "args: ['%s'], priority: %d" % (t[1], t[3])
        if t[2]:
            kw += ', suite: %r' % (t[2] if len(t[2]) > 1 else t[2][0],)
        if t[1] in SEL_SERIAL:
            kw += ', is_parallel: false'
        return "test('%s', prog, %s)\n" % (t[1], kw)
    files = {'t.py': T_PY % sys.executable, 'subprojects/sub/t.py': T_PY % sys.executable}
    files['meson.build'] = "project('mp')\nprog = find_program('t.py')\n" + \
        ''.join(decl(t) for t in SEL_TESTS if t[0] == 'mp') + "subproject('sub')\n"
    files['subprojects/sub/meson.build'] = "project('sub')\nprog = find_program('t.py')\n" + \
        ''.join(decl(t) for t in SEL_TESTS if t[0] == 'sub')
    return files


# Selection by NAME (`meson test A D`, `(sub)project_name:`, `(sub)project_name:test_name`, wildcards in project and test
# names).  Test names are not unique in Meson: the same test('dup', ...) appears in two subdirs of the main project, in two
# subdirs of the subproject, and a name may be shared between projects.  Every test has its own id (its only argument).
NM_TESTS = [    # (id, project, subdir, name, exit status in the real-process runs), in declaration order
    ('a_dup', 'mp', 'a', 'dup', 0), ('m_uniq', 'mp', '', 'uniq', 0), ('b_dup', 'mp', 'b', 'dup', 1), ('m_both', 'mp', '', 'both', 0),
    ('s_dup', 'sub', '', 'dup', 0), ('s_both', 'sub', '', 'both', 0), ('c_dup', 'sub', 'c', 'dup', 0), ('s_sonly', 'sub', '', 'sonly', 0),
]
NM_NAMEPATS = ['dup', 'uniq', 'both', 'sonly', 'd*', '?o*']
NM_PROJPATS = [None, '', 'mp', 'sub', 's*', 'm?', '*']       # None: unqualified `name`; '': `:name`


def name_args():
    """The alphabet of documented spellings of a test-name argument."""
    args = [n if p is None else p + ':' + n for p in NM_PROJPATS for n in NM_NAMEPATS]
    return args + [p + ':' for p in NM_PROJPATS[1:]]


def names_project():
    files = {'t.py': T_PY % sys.executable, 'subprojects/sub/t.py': T_PY % sys.executable}
    for proj, rel in (('mp', ''), ('sub', 'subprojects/sub/')):
        mb = "project('%s')\nprog = find_program('t.py')\n" % proj
        for tid, p, sd, name, _ in NM_TESTS:
            if p != proj:
                continue
            decl = "test('%s', prog, args: ['%s'])\n" % (name, tid)
            if sd:
                files['%s%s/meson.build' % (rel, sd)] = decl
                mb += "subdir('%s')\n" % sd
            else:
                mb += decl
        if proj == 'mp':
            mb += "subproject('sub')\n"
        files[rel + 'meson.build'] = mb
    return files


def setup_project(root, files):
    src, bld = os.path.join(root, 'src'), os.path.join(root, 'bld')
    mesonproc.write_tree(src, files)
    for rel in files:
        if rel.endswith('.py'):
            os.chmod(os.path.join(src, rel), 0o755)
    r = mesonproc.run_meson(['setup', '--backend=none', bld, src], root)
    if r.rc != 0 or not os.path.exists(os.path.join(bld, 'meson-private', 'meson_test_setup.dat')):
        raise InternalError('meson setup of the generated project failed:\n' + r.out[-1500:])
    return bld


# =============================================================================================================
# configurations.  test = [par, sf, proto, outcome, stream|None, outcome_iter2|None]
def tname(i, t):
    return 'b%d%s%s%s' % (i, t[0], t[1], t[2])


def mk(par, sf, proto, out, stream=None, out2=None):
    return [par, sf, proto, out, stream if proto in ('t', 'r') else None, out2]


SP = [('n', 'e'), ('x', 'e'), ('n', 't'), ('x', 't')]


def rot_sp(idx, pos):
    """(should_fail, protocol) for position pos of the idx-th test tuple of a family: a fixed rotation such that
    all 16 pairs of values occur on every pair of positions over 16 consecutive idx."""
    if pos == 0:
        return SP[idx % 4]
    if pos == 1:
        return SP[(idx // 4) % 4]
    return SP[(idx + pos * (idx // 4) + pos) % 4]


def oa9():
    return [(a, b, (a + b) % 3, (a + 2 * b) % 3) for a in range(3) for b in range(3)]


def oa27():
    return [(a, b, c, (a + b + c) % 3, (a + 2 * b) % 3) for a in range(3) for b in range(3) for c in range(3)]


def families(thorough):
    """-> list of (family name, ordered test sets, repeats, {repeat: deviation bound or None})."""
    fam = []
    A = []
    for par in 'PS':
        for sf in 'nx':
            for out in OUTS:
                A.append([mk(par, sf, 'e', out)])
            for out in OUTS:
                for st in ('ok', 'notok', 'skip'):
                    A.append([mk(par, sf, 't', out, st)])
    RU = [[mk(par, sf, 'r', out, st)] for par in 'PS' for sf in 'nx' for out in OUTS for st in ('rok', 'rfail', 'rign')]
    PO = [(p, o) for p in 'PS' for o in OUTS]
    B = []
    for idx, (x, y) in enumerate(itertools.product(PO, PO)):
        s0, s1 = rot_sp(idx, 0), rot_sp(idx, 1)
        B.append([mk(x[0], s0[0], s0[1], x[1], DEFAULT_STREAM[x[1]]), mk(y[0], s1[0], s1[1], y[1], DEFAULT_STREAM[y[1]])])
    R3 = ['ok', 'fail', 'hang']

    def block(n, rows):
        out = []
        idx = 0
        for pars in itertools.product('PS', repeat=n):
            for row in rows:
                ts = []
                for i in range(n):
                    s = rot_sp(idx, i)
                    ts.append(mk(pars[i], s[0], s[1], row[i], DEFAULT_STREAM[row[i]]))
                out.append(ts)
                idx += 1
        return out

    def flaky(second):
        F = []
        for pars in itertools.product('PS', repeat=2):
            for o1, o1b in itertools.product(R3, repeat=2):
                for o2, o2b in second:
                    if o1 == o1b and o2 == o2b:
                        continue
                    F.append([mk(pars[0], 'n', 'e', o1, None, o1b), mk(pars[1], 'n', 'e', o2, None, o2b)])
        return F
    r3_3 = list(itertools.product(R3, repeat=3))
    oa9_rows = [[R3[v] for v in r] for r in oa9()]
    if not thorough:
        fam.append(('A', A, (1, 2), {1: 2, 2: 2}))
        fam.append(('B', B, (1, 2), {1: 2, 2: 2}))
        fam.append(('C', block(3, r3_3), (1, 2), {1: 2, 2: 2}))
        fam.append(('D', block(4, oa9_rows), (1, 2), {1: 2, 2: 2}))
        fam.append(('F', flaky([('ok', 'ok')]), (2,), {2: 2}))
        fam.append(('R', RU, (1,), {1: 2}))
    else:
        fam.append(('A', A, (1, 2), {1: None, 2: None}))
        fam.append(('B', B, (1, 2), {1: None, 2: None}))
        fam.append(('C', block(3, list(itertools.product(OUTS, repeat=3))), (1,), {1: None}))
        fam.append(('C', block(3, r3_3), (2,), {2: 3}))
        fam.append(('D', block(4, list(itertools.product(R3, repeat=4))), (1,), {1: None}))
        fam.append(('D', block(4, oa9_rows), (2,), {2: 3}))
        fam.append(('E', block(5, [[R3[v] for v in r] for r in oa27()]), (1, 2), {1: 2, 2: 1}))
        fam.append(('F', flaky(list(itertools.product(R3, repeat=2))), (2,), {2: 3}))
        fam.append(('R', RU, (1, 2), {1: None, 2: None}))
    # M: many bad results in one run (the exit status is one byte: a count of failures must not wrap to 0); default schedule only
    many = (255, 256, 257) if not thorough else (255, 256, 257, 511, 512)
    fam.append(('M', [[mk('P', 'n', 'e', 'fail')], [mk('P', 'n', 'e', 'fail'), mk('S', 'n', 'e', 'ok')], [mk('P', 'x', 'e', 'ok')]], many, {r: 0 for r in many}))
    if os.environ.get('C12_FAMS'):      # debugging aid only
        fam = [f for f in fam if f[0] in os.environ['C12_FAMS']]
    return fam


def configurations(thorough):
    """Ordered simplest-first: list of (config dict, deviation bound or None)."""
    out = []
    for name, sets, repeats, bounds in families(thorough):
        for tests in sets:
            for repeat in repeats:
                for jobs in (1, 2, 3):
                    if name == 'F' and jobs == 1:
                        continue
                    if name == 'M' and jobs == 2:
                        continue
                    for maxfail in ((0, 1) if name != 'M' else (0,)):
                        cfg = {'fam': name, 'tests': tests, 'jobs': jobs, 'repeat': repeat, 'maxfail': maxfail}
                        out.append((cfg, bounds[repeat]))
                        if name in ('A', 'B') and repeat == 1 and maxfail == 0 and jobs <= 2:
                            # --timeout-multiplier with a fractional part: the limit is timeout x multiplier, not a whole number
                            for tm in (0.95, 2.45):
                                c2 = dict(cfg)
                                c2['tm'] = tm
                                out.append((c2, bounds[repeat]))
                            # no limit at all: timeout: <= 0 in the build definition, or --timeout-multiplier <= 0 (only tests that
                            # end by themselves: nothing else would ever end a hanging one)
                            if not any(t[3] == 'hang' or t[5] == 'hang' for t in tests):
                                out.append((dict(cfg, nolim=True), bounds[repeat]))
                                for tm in (0, -1):
                                    out.append((dict(cfg, tm=tm), bounds[repeat]))
    out.sort(key=lambda cb: (len(cb[0]['tests']) * cb[0]['repeat'], cb[0]['jobs']))
    if os.environ.get('C12_STRIDE'):      # debugging aid only (cost estimation)
        out = out[::int(os.environ['C12_STRIDE'])]
    return out


# =============================================================================================================
# reference: classification table (from docs/markdown/Unit-tests.md, docs/yaml/functions/test.yaml, property text)
def allowed_results(sf, proto, rcode, stream):
    """-> (set of admissible results, loose?) for a run that ended by itself with status rcode."""
    def inv(r):
        if sf == 'x':
            return {'OK': 'UNEXPECTEDPASS', 'FAIL': 'EXPECTEDFAIL'}.get(r, r)
        return r
    if proto == 'e':
        base = 'OK' if rcode == 0 else 'SKIP' if rcode == 77 else 'ERROR' if rcode == 99 else 'FAIL'
        return {inv(base)}, False
    verdict = STREAM_VERDICT[stream]
    if rcode == 0:
        if sf == 'x' and verdict == 'FAIL':
            return {'EXPECTEDFAIL', 'UNEXPECTEDPASS'}, True
        return {inv(verdict)}, False
    s = {'ERROR', inv('FAIL')}
    if rcode == 77:
        s.add('SKIP')
    return s, True


TOTAL_LINES = ['Ok', 'Expected Fail', 'Fail', 'Unexpected Pass', 'Skipped', 'Ignored', 'Timeout']
TOTAL_RE = re.compile(r'^(Ok|Expected Fail|Fail|Unexpected Pass|Skipped|Ignored|Timeout):\s+(\d+)\s*$', re.M)


def parse_totals(out):
    found = TOTAL_RE.findall(out)
    d = {}
    dup = False
    for k, v in found:
        if k in d:
            dup = True
        d[k] = int(v)
    return d, dup


def cfg_index(cfg):
    off = len(TIMEOUTS) if cfg.get('nolim') else 0
    names = [tname(i + off, t) for i, t in enumerate(cfg['tests'])]
    tm = cfg.get('tm')
    # Unit-tests.md / `meson test --help`: --timeout-multiplier "<= 0 to disable timeout"
    meta = {tname(i + off, t): (t, INF if (cfg.get('nolim') or (tm is not None and tm <= 0)) else TIMEOUTS[i] * (tm or 1)) for i, t in enumerate(cfg['tests'])}
    return names, meta


def check_totals_exit(V, tally, ninterrupt, printed, dup, rc, any_selected):
    if not printed and any_selected:
        V.append(('C12:totals:missing', 'no summary printed'))
    elif printed:
        if dup:
            V.append(('C12:totals:printed-twice', 'summary lines printed more than once'))
        exp = {'Ok': tally.get('OK', 0), 'Expected Fail': tally.get('EXPECTEDFAIL', 0),
               'Unexpected Pass': tally.get('UNEXPECTEDPASS', 0), 'Skipped': tally.get('SKIP', 0),
               'Timeout': tally.get('TIMEOUT', 0), 'Ignored': 0}
        for k, v in exp.items():
            if printed.get(k, 0) != v:
                V.append(('C12:totals:%s' % k.replace(' ', ''), 'printed %s: %d, tally of testlog.json results %d (%r)'
                          % (k, printed.get(k, 0), v, dict(tally))))
        lo = tally.get('FAIL', 0) + tally.get('ERROR', 0)
        if not lo <= printed.get('Fail', 0) <= lo + ninterrupt:
            V.append(('C12:totals:Fail', 'printed Fail: %d, tally FAIL+ERROR = %d (+%d interrupted) (%r)'
                      % (printed.get('Fail', 0), lo, ninterrupt, dict(tally))))
    bad = sorted(k for k in BAD if tally.get(k))
    if isinstance(rc, int) and not isinstance(rc, bool):
        rc = rc % 256          # what the process that started `meson test` sees: the exit status is one byte
    if bad and rc == 0:
        V.append(('C12:exit:zero-despite-' + '+'.join(bad), 'exit status 0 although results are %r' % dict(tally)))
    if not bad and rc != 0:
        V.append(('C12:exit:nonzero-without-failure', 'exit status %r although results are %r' % (rc, dict(tally))))


def judge(cfg, log, rc, out, jrecs, err):
    """Oracle for one Part-1 execution.  -> (violations [(key, what)], stats dict, classes set)."""
    V = []
    S = collections.Counter()
    classes = set()
    names, meta = cfg_index(cfg)
    jobs, repeat, maxfail = cfg['jobs'], cfg['repeat'], cfg['maxfail']
    sel = ['%s#%d' % (n, it) for it in range(1, repeat + 1) for n in names]
    selset = set(sel)
    if err:
        kind = err.split(':', 1)[0]
        V.append(('C12:harness:' + kind, err[:300]))

    def serial(key):
        return meta[key.split('#')[0]][0][0] == 'S'
    running = collections.OrderedDict()
    starts = collections.Counter()
    runs = {}       # key -> dict(start, end, rc, sigs)
    max_running = 0
    ends_since_start = []
    for kind, t, key, extra in log:
        if kind == 'start':
            starts[key] += 1
            if key not in selset:
                V.append(('C12:once:unselected', '%s started but was not selected' % key))
                continue
            ser = [k for k in running if serial(k)]
            if ser:
                V.append(('C12:serial:start-during-serial', '%s started while non-parallel %s was running' % (key, ser[0])))
            if serial(key) and running:
                V.append(('C12:serial:started-while-others-run', 'non-parallel %s started while %s running' % (key, list(running))))
            if serial(key) and any(not serial(k) for k in ends_since_start):
                S['serial_waited_for_parallel'] = 1
            if key in running:
                V.append(('C12:once:twice', '%s started again while running' % key))
            running[key] = t
            runs.setdefault(key, {'start': t, 'end': None, 'rc': None, 'sigs': []})
            if len(running) > jobs:
                V.append(('C12:jobs:exceeded', '%d tests running with --num-processes %d: %s' % (len(running), jobs, list(running))))
            max_running = max(max_running, len(running))
            ends_since_start = []
        elif kind == 'end':
            running.pop(key, None)
            ends_since_start.append(key)
            if key in runs:
                runs[key]['end'] = t
                runs[key]['rc'] = extra
        elif kind == 'signal':
            if key in runs:
                runs[key]['sigs'].append((t, extra))
    left_running = list(running)
    # serial test overlapped in time with the launch loop: it ran while later runners were still to be launched
    for i, k in enumerate(sel):
        if serial(k) and k in runs and i + 1 < len(sel):
            S['serial_ran_with_pending_launches'] = 1
            break
    if max_running == jobs and len(sel) > jobs and jobs > 1:
        S['jobs_saturated'] = 1
    # reports
    observed = {}
    for rec in jrecs:
        nm = rec.get('name', '').split(':', 1)[-1]
        key = '%s#%s' % (nm, (rec.get('env') or {}).get('MESON_TEST_ITERATION', '?'))
        if key in observed:
            V.append(('C12:totals:duplicate-record', 'two testlog.json records for %s' % key))
        observed[key] = rec.get('result')
        if key not in runs:
            V.append(('C12:totals:phantom-record', 'testlog.json reports %s (%s) which never started' % (key, rec.get('result'))))
        if bool(rec.get('is_fail')) != (rec.get('result') in BAD + ('INTERRUPT',)):
            V.append(('C12:totals:is_fail', 'testlog.json is_fail=%r for result %s' % (rec.get('is_fail'), rec.get('result'))))
    interrupted = []
    nbad0 = sum(1 for v in observed.values() if v in BAD)
    for key, r in runs.items():
        t, limit = meta[key.split('#')[0]]
        it = int(key.split('#')[1])
        outcome = t[5] if (it == 2 and t[5]) else t[3]
        obs = observed.get(key)
        if obs is None and not err:
            if r['sigs'] and r['sigs'][0][0] - r['start'] >= limit and maxfail > 0 and nbad0 >= maxfail:
                # classifier of one specific defect: the run was being killed for its timeout when --maxfail cancelled everything
                V.append(('C12:lost-run:timeout-kill-cancelled-by-maxfail',
                          '%s passed its limit (%ss) and was sent SIGTERM at t=%s; before it was reaped --maxfail cancelled the run: the test is in '
                          'neither testlog.json nor the totals%s' % (key, limit, r['sigs'][0][0], ' and its process was never reaped' if key in left_running else '')))
                if key in left_running:
                    left_running.remove(key)
                S['timeouts'] += 1
            else:
                V.append(('C12:totals:missing-record', '%s ran but has no testlog.json record' % key))
            continue
        loose = False
        if r['sigs'] and r['sigs'][0][0] - r['start'] >= limit:
            exp = {'TIMEOUT'}
            S['timeouts'] += 1
            what = 'limit %ss passed at t=%s, then signalled' % (limit, r['sigs'][0][0])
        elif r['sigs']:
            exp = None          # unspecified corner: classification of a run the harness itself interrupted
            interrupted.append(key)
            what = 'signalled by the harness before its limit'
            if obs == 'TIMEOUT':
                V.append(('C12:class:timeout-before-limit', '%s is reported TIMEOUT but was signalled at t=%s, %s after its start; its limit is %s'
                          % (key, r['sigs'][0][0], r['sigs'][0][0] - r['start'], limit)))
        else:
            if r['end'] is not None and r['end'] - r['start'] > limit:
                V.append(('C12:class:timeout-not-enforced', '%s ran from %s to %s, limit %s, never signalled' % (key, r['start'], r['end'], limit)))
            exp, loose = allowed_results(t[1], t[2], r['rc'], t[4])
            what = 'exit status %s' % r['rc']
        if loose:
            S['loose_cells'] += 1
        if t[2] == 'r' and not r['sigs'] and r['rc'] != 0:
            S['rust_runs_nonzero_status'] += 1
        if obs is not None:
            classes.add((t[2], t[1], outcome if not r['sigs'] else 'signalled', obs))
            if exp is not None and obs not in exp and t[2] == 'r' and r['rc'] != 0 and not r['sigs'] and \
                    obs == {'x': {'OK': 'UNEXPECTEDPASS', 'FAIL': 'EXPECTEDFAIL'}}.get(t[1], {}).get(STREAM_VERDICT[t[4]], STREAM_VERDICT[t[4]]):
                # classifier of one specific defect: protocol rust takes the result from the output alone, whatever the exit status
                S['rust_nonzero_status'] += 1
                V.append(('C12:class:rust:exit-status-ignored',
                          '%s (%s, protocol rust, should_fail %s, output %r): expected %s, testlog.json says %s - the non-zero status is ignored'
                          % (key, what, t[1], STREAMS[t[4]].decode().strip().splitlines()[-1], sorted(exp), obs)))
            elif exp is not None and obs not in exp:
                V.append(('C12:class:%s%s:%s:%s-as-%s' % (t[2], t[1], 'sig@limit' if exp == {'TIMEOUT'} else 'rc%s' % r['rc'],
                                                           '|'.join(sorted(exp)), obs),
                          '%s (%s, protocol %s, should_fail %s, stream %s): expected %s, testlog.json says %s'
                          % (key, what, t[2], t[1], t[4], sorted(exp), obs)))
    if left_running and not err:
        V.append(('C12:class:left-running', 'harness returned while %s still running' % left_running))
    tally = collections.Counter(v for v in observed.values() if v)
    nbad = sum(tally.get(k, 0) for k in BAD)
    cut_ok = (maxfail > 0 and nbad >= maxfail) or (repeat > 1 and nbad >= 1)
    never = [k for k in sel if starts[k] == 0]
    for k in sel:
        if starts[k] > 1:
            V.append(('C12:once:twice', '%s started %d times' % (k, starts[k])))
    if never and not cut_ok and not err:
        V.append(('C12:once:never', '%s never started although nothing allowed the run to be cut short (results %r)' % (never, dict(tally))))
    if interrupted and not cut_ok:
        V.append(('C12:once:interrupt-without-cut', '%s signalled before the limit although the run may not be cut short' % interrupted))
    if interrupted:
        S['interrupted_runs'] += len(interrupted)
    if (never or interrupted) and cut_ok:
        S['cut_maxfail' if maxfail else 'cut_repeat'] = 1
    if not err:
        printed, dup = parse_totals(out)
        check_totals_exit(V, tally, sum(1 for k in interrupted if observed.get(k) not in ('FAIL', 'ERROR')), printed, dup, rc, bool(sel))
    S['runs'] = len(runs)
    return V, S, classes


# =============================================================================================================
# executing one schedule of one configuration on the real harness
_PARSER = None
_WD = {}


def parser():
    global _PARSER
    if _PARSER is None:
        _PARSER = argparse.ArgumentParser(prog='meson test')
        mtest.add_arguments(_PARSER)
    return _PARSER


def worker_wd(bld):
    """Private copy of the build directory for this process (the harness writes meson-logs/testlog.* into it)."""
    k = (os.getpid(), bld)
    if k not in _WD:
        d = os.path.join(os.path.dirname(bld), 'w%d-%s' % (os.getpid(), os.path.basename(os.path.dirname(bld))))
        shutil.rmtree(d, ignore_errors=True)
        shutil.copytree(bld, d)
        _WD[k] = d
        if os.getpid() != MAIN_PID:
            minimal_environ()
    return _WD[k]


def minimal_environ():
    keep = {'PATH': '/usr/local/bin:/usr/bin:/bin', 'HOME': os.path.join(scratch_root(), 'home'), 'LC_ALL': 'C.UTF-8',
            'TZ': 'UTC', 'PYTHONHASHSEED': os.environ.get('PYTHONHASHSEED', '0'), 'MESON_VERIF': '1', 'TERM': 'dumb'}
    os.environ.clear()
    os.environ.update(keep)


def cfg_argv(cfg, wd):
    names, _ = cfg_index(cfg)
    tm = ['-t', str(cfg['tm'])] if cfg.get('tm') is not None else []
    return ['-C', wd, '--num-processes', str(cfg['jobs']), '--repeat', str(cfg['repeat']), '--maxfail', str(cfg['maxfail'])] + tm + names


def behaviour_of(cfg):
    names, meta = cfg_index(cfg)

    def behaviour(args, env):
        name = args[-1]
        it = env.get('MESON_TEST_ITERATION', '?')
        t = meta[name][0]
        outcome = t[5] if (it == '2' and t[5]) else t[3]
        out = STREAMS[t[4]] if t[2] in ('t', 'r') else b'output of %s\n' % name.encode()
        return '%s#%s' % (name, it), vloop.Behaviour(RC[outcome], out, b'', outcome == 'hang')
    return behaviour


def run_schedule(cfg, wd, prefix=(), sig=()):
    """One execution: real TestHarness(options).doit() under the virtual loop. -> (Run, log, transitions, rc, out, jrecs)."""
    jpath = os.path.join(wd, 'meson-logs', 'testlog.json')

    def body(world):
        import random
        random.seed(0)
        opts = parser().parse_args(cfg_argv(cfg, wd))
        try:
            os.unlink(jpath)
        except OSError:
            pass
        buf = io.StringIO()
        old = sys.stdout, sys.stderr
        sys.stdout = sys.stderr = buf
        try:
            # what mtest.run(options) does after argument parsing, for a build directory with backend=none
            opts.no_rebuild = True
            with mtest.TestHarness(opts) as th:
                rc = th.doit()
        finally:
            sys.stdout, sys.stderr = old
            world.stdout_text = buf.getvalue()
        return rc
    r, world = vloop.execute(body, behaviour_of(cfg), prefix, sig, HORIZON if cfg.get('fam') != 'M' else 4 * len(cfg['tests']) * cfg['repeat'] + 60)
    jrecs = []
    try:
        with open(jpath, encoding='utf-8') as f:
            jrecs = [json.loads(l) for l in f if l.strip()]
    except OSError:
        pass
    return r, world.log, world.transitions, r.result, getattr(world, 'stdout_text', ''), jrecs


def observation(cfg, wd, prefix, sig=()):
    """Everything the oracle looks at, in comparable form (used for the determinism self-check and re-validation)."""
    r, log, ntr, rc, out, jrecs = run_schedule(cfg, wd, prefix, sig)
    V, S, classes = judge(cfg, log, rc, out, jrecs, r.error)
    return {'choices': list(r.choices), 'labels': [list(l) for l in r.labels], 'schedule': [l[c] for l, c in zip(r.labels, r.choices)], 'log': [list(e) for e in log],
            'rc': rc, 'totals': parse_totals(out)[0], 'results': sorted((j['name'], j['env'].get('MESON_TEST_ITERATION'), j['result']) for j in jrecs),
            'error': r.error, 'violations': sorted(set(V))}


MAIN_BLD = None
SEL_BLD = None
NM_BLD = None
MAIN_PID = os.getpid()


def explore_config(item):
    cfg, bound = item
    wd = worker_wd(MAIN_BLD)
    agg = {'execs': 0, 'points': 0, 'transitions': 0, 'viol': [], 'stats': collections.Counter(), 'classes': set(),
           'capped': 0, 'maxlen': 0, 'sample': None}

    def run(prefix, sig):
        r, log, ntr, rc, out, jrecs = run_schedule(cfg, wd, prefix, sig)
        return r._replace(result=(log, ntr, rc, out, jrecs))
    for r, newp in vloop.explore(run, bound, RUN_CAP):
        log, ntr, rc, out, jrecs = r.result
        agg['execs'] += 1
        agg['points'] += newp
        agg['transitions'] += ntr
        agg['maxlen'] = max(agg['maxlen'], len(r.choices))
        V, S, classes = judge(cfg, log, rc, out, jrecs, r.error)
        flags = {k: (1 if v else 0) for k, v in S.items() if k in ('serial_waited_for_parallel', 'serial_ran_with_pending_launches',
                                                                   'jobs_saturated', 'cut_maxfail', 'cut_repeat')}
        agg['stats'].update(flags)
        agg['stats']['exec_with_timeout'] += 1 if S['timeouts'] else 0
        for k in ('timeouts', 'loose_cells', 'interrupted_runs', 'runs', 'rust_nonzero_status', 'rust_runs_nonzero_status'):
            agg['stats'][k] += S[k]
        if sum(1 for c in r.choices if c):
            agg['stats']['exec_with_deviation'] += 1
        agg['classes'] |= classes
        for key, what in V:
            if len(agg['viol']) < 6 and sum(1 for v in agg['viol'] if v[0] == key) < 2:
                agg['viol'].append((key, what, {'config': cfg, 'choices': list(r.choices), 'labels': [list(l) for l in r.labels]}))
            agg['stats']['violating'] += 1
        if agg['sample'] is None and len(r.choices) >= 3 and any(r.choices):
            agg['sample'] = {'config': {k: cfg[k] for k in ('jobs', 'repeat', 'maxfail')}, 'tests': [tname(i, t) + ':' + t[3] for i, t in enumerate(cfg['tests'])],
                             'schedule': [l[c] for l, c in zip(r.labels, r.choices)], 'totals': parse_totals(out)[0], 'exit': rc}
    if agg['execs'] >= RUN_CAP:
        agg['capped'] = 1
    agg['stats'] = dict(agg['stats'])
    agg['classes'] = sorted(agg['classes'])
    return agg


def selftest_divergence(case):
    """The explorer must refuse to replay a prefix whose recorded options differ from what the execution offers."""
    wd = worker_wd(MAIN_BLD)
    try:
        run_schedule(case['config'], wd, tuple(case['choices']), tuple(tuple(l) for l in case['labels']))
    except vloop.ReplayDivergence as e:
        return 'diverged: %s' % e
    return 'accepted'


def reexec(case):
    wd = worker_wd(MAIN_BLD)
    return observation(case['config'], wd, tuple(case['choices']), tuple(tuple(l) for l in case['labels']))


# =============================================================================================================
# selection logic
def ref_member(proj, suites, arg):
    """Does a test of project `proj` carrying suite labels `suites` belong to suite argument `arg`?  None = unspecified."""
    if ':' in arg:
        p, s = arg.split(':', 1)
        return proj == p and s in suites
    if proj == SEL_MAIN:
        return arg in suites
    return None if arg in suites else False


def ref_selected(proj, suites, include, exclude):
    ex = [ref_member(proj, suites, a) for a in exclude]
    inc = [ref_member(proj, suites, a) for a in include]
    if any(x is True for x in ex):
        return False
    if include and not any(x is not False for x in inc):
        return False
    if any(x is None for x in ex):
        return None
    if include and not any(x is True for x in inc):
        return None
    return True


def sel_chunk(chunk):
    """chunk = list of (include tuple, exclude tuple).  Real TestHarness.get_tests() for each; compare with the reference."""
    wd = worker_wd(SEL_BLD)
    res = {'cases': 0, 'cells': 0, 'unspec': 0, 'viol': [], 'nonempty': 0, 'distinct': set()}
    th = None
    buf = io.StringIO()
    old = sys.stdout, sys.stderr
    sys.stdout = sys.stderr = buf
    try:
        for inc, exc in chunk:
            argv = ['-C', wd, '--no-rebuild']
            for a in inc:
                argv += ['--suite', a]
            for a in exc:
                argv += ['--no-suite', a]
            opts = parser().parse_args(argv)
            if th is None:
                th = mtest.TestHarness(opts)
            th.options = opts
            opts.setup = None
            got = [(t.project_name, t.name) for t in th.get_tests()]
            res['cases'] += 1
            res['distinct'].add(tuple(got))
            if got:
                res['nonempty'] += 1
            if len(set(got)) != len(got):
                res['viol'].append(('C12:select:suite:duplicate', 'test listed twice', {'include': inc, 'exclude': exc}))
            gotset = set(got)
            for proj, name, suites, prio in SEL_TESTS:
                exp = ref_selected(proj, suites, inc, exc)
                if exp is None:
                    res['unspec'] += 1
                    continue
                res['cells'] += 1
                if exp != ((proj, name) in gotset):
                    res['viol'].append(('C12:select:suite:%s' % ('missing' if exp else 'extra'),
                                        '--suite %r --no-suite %r: test %s:%s (suites %r) expected %s' % (list(inc), list(exc), proj, name, suites, 'selected' if exp else 'not selected'),
                                        {'select': 'suite', 'include': list(inc), 'exclude': list(exc)}))
    finally:
        sys.stdout, sys.stderr = old
        if th is not None:
            th.close_logfiles()
    res['distinct'] = sorted(res['distinct'])
    return res


def slice_cases(wd, maxtests):
    """All --slice i/n for n <= m <= maxtests tests (chosen by name).  -> (ncases, violations, sample)."""
    viol = []
    ncases = 0
    buf = io.StringIO()
    old = sys.stdout, sys.stderr
    sys.stdout = sys.stderr = buf
    try:
        opts = parser().parse_args(['-C', wd, '--no-rebuild'])
        th = mtest.TestHarness(opts)
        opts.setup = None
        allt = [t.name for t in th.get_tests()]
        prios = {t[1]: t[3] for t in SEL_TESTS}
        for i, a in enumerate(allt):
            for b in allt[i + 1:]:
                if prios[a] < prios[b]:
                    viol.append(('C12:select:priority', 'test %s (priority %d) listed before %s (priority %d)' % (a, prios[a], b, prios[b]), {'select': 'priority'}))
        sample = None
        # every non-empty subset of the tests (selected by name; mixes of parallel and serial tests), every n <= |subset|
        for mask in range(1, 1 << len(allt)):
            names = [a for k, a in enumerate(allt) if mask >> k & 1]
            m = len(names)
            if m > maxtests:
                continue
            o = parser().parse_args(['-C', wd, '--no-rebuild'] + names)
            o.setup = None
            th.options = o
            base = [t.name for t in th.get_tests()]
            if base != names:
                viol.append(('C12:select:names', 'selecting %r by name gave %r' % (names, base), {'select': 'names', 'names': names}))
            for n in range(1, m + 1):
                parts = []
                for i in range(1, n + 1):
                    o = parser().parse_args(['-C', wd, '--no-rebuild', '--slice', '%d/%d' % (i, n)] + names)
                    o.setup = None
                    th.options = o
                    parts.append([t.name for t in th.get_tests()])
                    ncases += 1
                rep = {'select': 'slice', 'names': names, 'n': n}
                flat = [x for p in parts for x in p]
                if len(flat) != len(set(flat)):
                    viol.append(('C12:select:slice:overlap', '%d tests, %d slices: %r overlap' % (m, n, parts), rep))
                if set(flat) != set(base):
                    viol.append(('C12:select:slice:not-covering', '%d tests, %d slices: %r do not cover %r' % (m, n, parts, base), rep))
                if m == 5 and n == 2 and sample is None:
                    sample = {'slice': {'tests': base, 'n': n, 'parts': parts}}
        th.close_logfiles()
    finally:
        sys.stdout, sys.stderr = old
    return ncases, viol, sample, allt


def glob_match(pat, s):
    """The documented "wildcards" as far as the alphabet uses them: `*` any run of characters, `?` any one character."""
    return re.fullmatch(''.join('.*' if c == '*' else '.' if c == '?' else re.escape(c) for c in pat), s) is not None


def ref_name_match(proj, name, arg):
    """Unit-tests.md: `A` = tests named A (any project); `proj:` = all tests of proj; `proj:name` = test name of proj."""
    if ':' in arg:
        p, n = arg.split(':', 1)
        return (p == '' or glob_match(p, proj)) and (n == '' or glob_match(n, name))
    return glob_match(arg, name)


def ref_names_selected(args):
    """-> (ids of the tests selected by the name arguments, arguments that match no test at all)."""
    sel = [t[0] for t in NM_TESTS if any(ref_name_match(t[1], t[3], a) for a in args)]
    dead = [a for a in args if not any(ref_name_match(t[1], t[3], a) for t in NM_TESTS)]
    return sel, dead


def name_chunk(chunk):
    """chunk = list of argument tuples.  Real TestHarness.get_tests() for each; every test some argument names must be
    selected exactly once, no other test.  An argument that names no test at all: whether that is an error is not
    documented -> if the real code refuses the command line the case is counted as unspecified."""
    from mesonbuild.mesonlib import MesonException
    wd = worker_wd(NM_BLD)
    res = {'cases': 0, 'cells': 0, 'unspec': 0, 'viol': [], 'dup_named': 0, 'multi': 0, 'redundant': 0, 'distinct': set()}
    th = None
    buf = io.StringIO()
    old = sys.stdout, sys.stderr
    sys.stdout = sys.stderr = buf
    try:
        for args in chunk:
            args = list(args)
            opts = parser().parse_args(['-C', wd, '--no-rebuild'] + args)
            if th is None:
                th = mtest.TestHarness(opts)
            th.options = opts
            opts.setup = None
            exp, dead = ref_names_selected(args)
            rep = {'select': 'name', 'args': args}
            res['cases'] += 1
            try:
                got = [t.cmd_args[-1] for t in th.get_tests()]
            except MesonException as e:
                if dead:
                    res['unspec'] += 1
                else:
                    res['viol'].append(('C12:select:name:refused', 'meson test %s: every argument names a test, but: %s' % (' '.join(args), e), rep))
                continue
            res['distinct'].add(tuple(got))
            names = collections.Counter(t[3] + '@' + t[1] for t in NM_TESTS if t[0] in exp)
            if any(v > 1 for v in names.values()):
                res['dup_named'] += 1       # two selected tests share project and name
            if sum(1 for t in NM_TESTS if sum(1 for a in args if ref_name_match(t[1], t[3], a)) > 1):
                res['multi'] += 1           # some test is named by more than one argument
            if any(all(any(ref_name_match(t[1], t[3], b) for b in args[:i]) for t in NM_TESTS if ref_name_match(t[1], t[3], a))
                   for i, a in enumerate(args) if a not in dead):
                res['redundant'] += 1       # an argument names only tests that earlier arguments name already
            cnt = collections.Counter(got)
            for tid, proj, sd, name, _ in NM_TESTS:
                res['cells'] += 1
                want = 1 if tid in exp else 0
                if cnt[tid] != want:
                    kind = 'missing' if cnt[tid] < want else 'twice' if want else 'extra'
                    res['viol'].append(('C12:select:name:%s' % kind,
                                        'meson test %s: test %s (%s:%s%s) selected %d time(s), expected %d; selection %r, expected %r'
                                        % (' '.join(args), tid, proj, name, ' in subdir ' + sd if sd else '', cnt[tid], want, got, exp), rep))
                    break
    finally:
        sys.stdout, sys.stderr = old
        if th is not None:
            th.close_logfiles()
    res['distinct'] = sorted(res['distinct'])
    return res


def name_real(item):
    """`meson test <name arguments>` through the real CLI with real test programs: every selected test must report exactly
    one start, no other test any; one testlog.json record per selected test; exit status non-zero iff a selected test fails."""
    idx, args = item
    wd = os.path.join(os.path.dirname(NM_BLD), 'nr-%d' % idx)
    shutil.rmtree(wd, ignore_errors=True)
    shutil.copytree(NM_BLD, wd)
    with open(os.path.join(wd, 'plan.json'), 'w') as f:
        json.dump({t[0]: {'sleep': 0.01, 'rc': t[4], 'hang': False, 'out': 'output\n'} for t in NM_TESTS}, f)
    logp = os.path.join(wd, 'events.log')
    env = mesonproc.base_env(C12_PLAN=os.path.join(wd, 'plan.json'), C12_LOG=logp)
    r = mesonproc.run_meson(['test', '-C', wd, '--num-processes', '2'] + list(args), wd, env=env, timeout=120)
    starts = collections.Counter()
    try:
        for l in open(logp):
            p = l.split()
            if p[0] == 'start':
                starts[p[1].split('#')[0]] += 1
    except OSError:
        pass
    try:
        jrecs = [json.loads(l) for l in open(os.path.join(wd, 'meson-logs', 'testlog.json')) if l.strip()]
    except OSError:
        jrecs = []
    shutil.rmtree(wd, ignore_errors=True)
    if r.signaled:
        return {'viol': [], 'aborted': 1}
    exp, dead = ref_names_selected(args)
    rep = {'name_real': list(args)}
    V = []
    cmd = 'meson test ' + ' '.join(args)
    for t in NM_TESTS:
        want = 1 if t[0] in exp else 0
        if starts[t[0]] != want:
            V.append(('C12:p2:name:%s' % ('never' if starts[t[0]] < want else 'twice' if want else 'unselected'),
                      '%s: test %s (%s:%s) reported %d start(s), expected %d (selected: %r, started: %r)'
                      % (cmd, t[0], t[1], t[3], starts[t[0]], want, exp, dict(starts)), rep))
            break
    if len(jrecs) != len(exp):
        V.append(('C12:p2:name:records', '%s: %d testlog.json records for %d selected tests %r' % (cmd, len(jrecs), len(exp), exp), rep))
    fails = any(t[4] for t in NM_TESTS if t[0] in exp)
    if fails != (r.rc != 0):
        V.append(('C12:p2:name:exit', '%s: exit status %r, a selected test fails: %s (selected %r)' % (cmd, r.rc, fails, exp), rep))
    return {'viol': V, 'aborted': 0, 'selected': len(exp), 'fails': int(fails),
            'sample': {'argv': list(args), 'started': dict(starts), 'exit': r.rc}}


def name_real_cases(thorough):
    """Single arguments (quick: those whose name part is `dup`, `d*` or empty) and all ordered pairs of four spellings."""
    singles = [a for a in name_args() if thorough or a.split(':')[-1] in ('dup', 'd*', '')]
    four = ['mp:dup', 'sub:dup', 'mp:uniq', 'dup']
    cases = [(a,) for a in singles] + [(a, b) for a in four for b in four if a != b]
    return [c for c in cases if not ref_names_selected(c)[1]]


# =============================================================================================================
# Part 2: real processes through the real CLI
P2_OUT = {'ok': (0, False), 'fail': (1, False), 'skip': (77, False), 'err': (99, False), 'sig': (-int(signal.SIGUSR1), False), 'hang': (0, True)}
P2_TM = 0.1     # --timeout-multiplier: limits 3, 2, 4, 1, 2.5 s


def p2_cases(thorough, seed=0):
    P, S = 'P', 'S'
    base = [
        ([mk(P, 'n', 'e', 'ok'), mk(P, 'n', 'e', 'fail'), mk(S, 'n', 'e', 'ok'), mk(P, 'n', 'e', 'ok')], 2, 1, 0),
        ([mk(S, 'n', 'e', 'ok'), mk(S, 'x', 'e', 'fail'), mk(P, 'n', 't', 'ok', 'ok'), mk(P, 'n', 'e', 'skip')], 3, 1, 0),
        ([mk(P, 'n', 'e', 'ok'), mk(P, 'x', 'e', 'ok'), mk(P, 'n', 't', 'fail', 'notok'), mk(P, 'n', 'e', 'err')], 3, 1, 0),
        ([mk(P, 'n', 'e', 'ok'), mk(P, 'n', 'e', 'sig'), mk(S, 'n', 't', 'skip', 'skip'), mk(P, 'n', 'e', 'hang')], 2, 1, 0),
        ([mk(P, 'n', 'e', 'fail'), mk(P, 'n', 'e', 'ok'), mk(P, 'n', 'e', 'ok'), mk(P, 'n', 'e', 'ok')], 2, 1, 1),
        ([mk(P, 'n', 'e', 'ok'), mk(S, 'n', 'e', 'ok'), mk(P, 'n', 'e', 'ok')], 2, 2, 0),
        ([mk(P, 'n', 'e', 'ok', None, 'fail'), mk(P, 'n', 'e', 'ok'), mk(S, 'n', 'e', 'ok')], 3, 2, 0),
        ([mk(S, 'n', 'e', 'ok'), mk(P, 'n', 'e', 'ok'), mk(P, 'n', 'e', 'ok'), mk(P, 'n', 'e', 'ok')], 1, 1, 0),
    ]
    durs = [0.05, 0.12, 0.2, 0.3]
    out = []
    for tests, jobs, repeat, maxfail in base:
        n = len(tests)
        perms = list(itertools.permutations(durs[:n]))
        # quick: 3 of the n! duration patterns; VERIF_SEED only rotates which ones (no verdict depends on it)
        pats = perms if thorough else [perms[(seed * 3 + i * 7) % len(perms)] for i in range(3)]
        for pat in pats:
            out.append({'tests': tests, 'jobs': jobs, 'repeat': repeat, 'maxfail': maxfail, 'sleeps': list(pat)})
    return out


def run_real(case):
    idx, case = case
    root = os.path.dirname(MAIN_BLD)
    wd = os.path.join(root, 'p2-%d' % idx)
    shutil.rmtree(wd, ignore_errors=True)
    shutil.copytree(MAIN_BLD, wd)
    names, meta = cfg_index(case)
    plan = {}
    for i, (n, t) in enumerate(zip(names, case['tests'])):
        for it, outcome in ((1, t[3]), (2, t[5] or t[3])):
            rc, hang = P2_OUT[outcome]
            out = STREAMS[t[4]].decode() if t[2] in ('t', 'r') else 'output\n'
            plan['%s#%d' % (n, it)] = {'sleep': case['sleeps'][i], 'rc': rc, 'hang': hang, 'out': out}
    with open(os.path.join(wd, 'plan.json'), 'w') as f:
        json.dump(plan, f)
    logp = os.path.join(wd, 'events.log')
    env = mesonproc.base_env(C12_PLAN=os.path.join(wd, 'plan.json'), C12_LOG=logp)
    argv = ['test', '-C', wd, '--num-processes', str(case['jobs']), '--repeat', str(case['repeat']), '--maxfail', str(case['maxfail']),
            '-t', str(P2_TM)] + names
    r = mesonproc.run_meson(argv, wd, env=env, timeout=120)
    events = []
    try:
        for l in open(logp):
            p = l.split()       # `start key ts` | `term key ts` | `end rc key ts`
            events.append((p[0], p[-2], float(p[-1]), int(p[1]) if p[0] == 'end' else None))
    except OSError:
        pass
    jrecs = []
    try:
        jrecs = [json.loads(l) for l in open(os.path.join(wd, 'meson-logs', 'testlog.json')) if l.strip()]
    except OSError:
        pass
    shutil.rmtree(wd, ignore_errors=True)
    if r.signaled:      # our own 120 s guard killed `meson test` (machine hopelessly overloaded): no verdict from this run
        return {'viol': [], 'stats': {'aborted_runs': 1}, 'wall': r.wall, 'sample': None}
    V, S = judge_real(case, events, r.rc, r.out, jrecs)
    return {'viol': [(k, w, {'part2': case}) for k, w in V], 'stats': dict(S), 'wall': r.wall,
            'sample': {'argv': argv[3:], 'events': [(e[0], e[1]) for e in sorted(events, key=lambda e: e[2])], 'exit': r.rc, 'totals': parse_totals(r.out)[0]}}


def judge_real(case, events, rc, out, jrecs):
    V = []
    S = collections.Counter()
    names, meta = cfg_index(case)
    jobs, repeat, maxfail = case['jobs'], case['repeat'], case['maxfail']
    sel = ['%s#%d' % (n, it) for it in range(1, repeat + 1) for n in names]
    starts = collections.Counter()
    iv = {}     # key -> [start, end or None, rc or 'term' or None]
    for kind, key, ts, extra in sorted(events, key=lambda e: e[2]):
        if kind == 'start':
            starts[key] += 1
            iv.setdefault(key, [ts, None, None])
        elif key in iv and iv[key][1] is None:
            iv[key][1] = ts
            iv[key][2] = extra if kind == 'end' else 'term'
    if 'Traceback (most recent call last)' in out:
        V.append(('C12:p2:harness:exception', out[-400:]))

    def serial(key):
        return meta[key.split('#')[0]][0][0] == 'S'
    closed = {k: (v[0], v[1] if v[1] is not None else v[0]) for k, v in iv.items()}
    for k, (a, b) in closed.items():
        if not serial(k):
            continue
        for k2, (c, d) in closed.items():
            if k2 != k and c < b and d > a:
                V.append(('C12:p2:serial:overlap', 'non-parallel %s reported [%f,%f] overlapping %s [%f,%f]' % (k, a, b, k2, c, d)))
        S['serial_runs'] += 1
    pts = sorted([(a, 1) for a, b in closed.values() if b > a] + [(b, -1) for a, b in closed.values() if b > a], key=lambda x: (x[0], x[1]))
    cur = mx = 0
    for _, d in pts:
        cur += d
        mx = max(mx, cur)
    if mx > jobs:
        V.append(('C12:p2:jobs:exceeded', '%d reported intervals overlap with --num-processes %d' % (mx, jobs)))
    S['max_overlap_%d' % mx] += 1
    if mx >= 2:
        S['overlap_seen'] += 1
    observed = {}
    durations = {}
    for rec in jrecs:
        key = '%s#%s' % (rec['name'].split(':', 1)[-1], rec['env'].get('MESON_TEST_ITERATION', '?'))
        if key in observed:
            V.append(('C12:p2:totals:duplicate-record', key))
        observed[key] = rec['result']
        durations[key] = rec.get('duration') or 0.0
    tally = collections.Counter(observed.values())
    nbad = sum(tally.get(k, 0) for k in BAD)
    cut_ok = (maxfail > 0 and nbad >= maxfail) or (repeat > 1 and nbad >= 1)
    for k in sel:
        if starts[k] > 1:
            V.append(('C12:p2:once:twice', '%s reported %d starts' % (k, starts[k])))
        if starts[k] == 0 and k in observed:
            S['result_without_reported_start'] += 1     # program killed (or broken) before it could log: nothing to compare
        if starts[k] == 0 and k not in observed and not cut_ok:
            V.append(('C12:p2:once:never', '%s never started, results %r' % (k, dict(tally))))
        if starts[k] == 0 and cut_ok:
            S['cut_runs'] += 1
    for k in starts:
        if k not in sel:
            V.append(('C12:p2:once:unselected', k))
    for key, (a, b, how) in iv.items():
        t, limit = meta[key.split('#')[0]]
        limit = limit * P2_TM
        obs = observed.get(key)
        if obs is None:
            V.append(('C12:p2:totals:missing-record', '%s ran but has no testlog.json record' % key))
            continue
        if how is None:
            S['unknown_end'] += 1
            continue
        if obs == 'TIMEOUT' and durations.get(key, 0) >= 0.95 * limit:
            S['timeouts'] += 1     # truthful whatever the program did: the limit did pass
            continue
        if obs == 'INTERRUPT' and cut_ok:
            # the harness cut the run short; it may have signalled the program after it had logged its end (race): unspecified
            S['interrupted_runs'] += 1
            continue
        if how == 'term':
            V.append(('C12:p2:class:term-as-%s' % obs, '%s was terminated by the harness after %.2fs (limit %.2f) and is reported %s' % (key, durations.get(key, 0), limit, obs)))
            continue
        exp, loose = allowed_results(t[1], t[2], how, t[4])
        S['classified'] += 1
        if obs not in exp:
            V.append(('C12:p2:class:%s%s:rc%s:%s-as-%s' % (t[2], t[1], how, '|'.join(sorted(exp)), obs),
                      '%s exited %s: expected %s, reported %s' % (key, how, sorted(exp), obs)))
    printed, dup = parse_totals(out)
    V2 = []
    check_totals_exit(V2, tally, tally.get('INTERRUPT', 0), printed, dup, rc, True)
    V += [(k.replace('C12:', 'C12:p2:'), w) for k, w in V2]
    return V, S


def list_cli(args):
    idx, argv = args
    r = mesonproc.run_meson(['test', '-C', SEL_BLD, '--list'] + argv, SEL_BLD)
    return [l.strip() for l in r.out.splitlines() if ':' in l and not l.startswith(('WARNING', 'ninja'))], r.rc


# =============================================================================================================
def main():
    global MAIN_BLD, SEL_BLD, NM_BLD
    ck = Check('C12', 'model_checking')
    thorough = ck.thorough
    mesonproc.preimport()
    root = scratch_root()
    MAIN_BLD = setup_project(os.path.join(root, 'main'), main_project(len(TIMEOUTS) + len(NOLIMIT)))
    SEL_BLD = setup_project(os.path.join(root, 'sel'), sel_project())
    NM_BLD = setup_project(os.path.join(root, 'nm'), names_project())
    if ck.args.replay:
        return replay(ck)

    # ---- start-up self-checks: determinism of one non-trivial schedule, executed twice in fresh processes ----
    probe = {'fam': 'probe', 'jobs': 2, 'repeat': 1, 'maxfail': 0,
             'tests': [mk('P', 'n', 'e', 'ok'), mk('P', 'x', 't', 'fail', 'notok'), mk('S', 'n', 'e', 'hang'), mk('P', 'n', 'e', 'err')]}
    # (the probe schedule is derived from what the real code offers, so that a changed tree yields verdicts, not probe failures)
    case0 = {'config': probe, 'choices': [], 'labels': []}
    d1, d2 = list(pmap(reexec, [case0, case0], jobs=2))
    if d1 != d2:
        ck.internal('the default schedule executed twice gave different observations:\n%r\n%r' % (d1, d2))
    dev = []
    for opts in d1['labels']:
        dev.append(len(opts) - 1 if len(dev) < 2 and len(opts) > 1 else 0)      # "timer" at the first two real choice points
        if len(dev) >= 3:
            break
    case = {'config': probe, 'choices': dev, 'labels': d1['labels'][:1]}
    o1, o2 = list(pmap(reexec, [case, case], jobs=2))
    if o1 != o2:
        ck.internal('the same schedule replayed twice gave different observations:\n%r\n%r' % (o1, o2))
    ck.require(o1['choices'][:len(dev)] == dev, 'probe schedule was not followed: %r' % (o1,))
    for key, what in sorted(set(d1['violations'] + o1['violations'])):
        ck.violation(key, what, dict(case, labels=[]))
    if d1['labels'] and len(d1['labels'][0]) > 1:
        wrong = dict(case0, choices=[0], labels=[d1['labels'][0][:-1]])       # one option fewer than really offered
        right = dict(case0, choices=[0], labels=[d1['labels'][0]])
        r1, r2 = list(pmap(selftest_divergence, [wrong, right], jobs=2))
        ck.require(r1.startswith('diverged') and r2 == 'accepted', 'replay-divergence detection is broken: %r / %r' % (r1, r2))
    ck.sample({'probe_schedule': o1['schedule'], 'results': o1['results'], 'totals': o1['totals'], 'exit': o1['rc']})

    states = transitions = traces = 0
    exhaustive = True
    classes = set()

    # ---- selection ----
    if ck.want('sel'):
        subsets = [c for k in range(len(SUITE_ARGS) + 1) for c in itertools.combinations(SUITE_ARGS, k)]
        pairs = [(i, e) for i in subsets for e in subsets]
        chunks = [pairs[i:i + 128] for i in range(0, len(pairs), 128)]
        st = collections.Counter()
        distinct = set()
        pending = []
        for res in pmap(sel_chunk, chunks):
            for k in ('cases', 'cells', 'unspec', 'nonempty'):
                st[k] += res[k]
            distinct |= set(map(tuple, res['distinct']))
            pending += res['viol'][:4]
        ncases, viol, sample, order = slice_cases(worker_wd(SEL_BLD), 8)
        pending += viol
        report(ck, pending)
        if sample:
            ck.sample(sample)
        ck.part('selection', suite_pairs=st['cases'], cells_compared=st['cells'], skipped_unspecified=st['unspec'],
                nonempty_selections=st['nonempty'], distinct_selections=len(distinct), slice_cases=ncases, listed_order=order)
        ck.add('skipped_unspecified', st['unspec'])
        ck.require(len(distinct) >= 20 and st['nonempty'] > 100, 'suite selection space degenerate')
        states += st['cases'] + ncases
        transitions += st['cases'] + ncases

    # ---- selection by name ----
    if ck.want('names'):
        alphabet = name_args()
        maxlen = ck.q(2, 3)
        seqs = [c for k in range(1, maxlen + 1) for c in itertools.product(alphabet, repeat=k)]
        chunks = [seqs[i:i + 256] for i in range(0, len(seqs), 256)]
        st = collections.Counter()
        distinct = set()
        pending = []
        for res in pmap(name_chunk, chunks):
            for k in ('cases', 'cells', 'unspec', 'dup_named', 'multi', 'redundant'):
                st[k] += res[k]
            distinct |= set(map(tuple, res['distinct']))
            pending += res['viol'][:4]
        rcases = name_real_cases(thorough)
        rst = collections.Counter()
        first = None
        for res in pmap(name_real, list(enumerate(rcases)), jobs=min(NCPU, 8)):
            rst['runs'] += 1
            rst['aborted_runs'] += res['aborted']
            rst['selected_tests'] += res.get('selected', 0)
            rst['runs_with_failing_test'] += res.get('fails', 0)
            pending += res['viol'][:4]
            first = first or res.get('sample')
        report(ck, pending)
        if first:
            ck.sample({'names_real': first})
        ck.part('names', arguments=len(alphabet), max_arguments=maxlen, selections=st['cases'], cells_compared=st['cells'],
                skipped_unspecified=st['unspec'], distinct_selections=len(distinct), selecting_same_named_tests=st['dup_named'],
                test_named_by_several_arguments=st['multi'], with_redundant_argument=st['redundant'],
                real_runs=rst['runs'], real_runs_selected_tests=rst['selected_tests'],
                real_runs_with_failing_test=rst['runs_with_failing_test'], timing_dependent={'aborted_runs': rst['aborted_runs']})
        ck.add('skipped_unspecified', st['unspec'])
        ck.require(st['dup_named'] > 0 and st['multi'] > 0 and st['redundant'] > 0 and len(distinct) >= 15,
                   'name selection space degenerate: %r' % dict(st))
        ck.require(rst['runs'] - rst['aborted_runs'] > 0 and rst['runs_with_failing_test'] > 0 and rst['runs_with_failing_test'] < rst['runs'],
                   'real runs of name selections exercised nothing: %r' % dict(rst))
        states += st['cases']
        transitions += st['cases']
        names_real_runs = rst['runs']
    else:
        names_real_runs = 0

    # ---- Part 1 ----
    if ck.want('p1'):
        confs = configurations(thorough)
        tot = collections.Counter()
        perfam = collections.defaultdict(collections.Counter)
        nsamp = 0
        pending = []
        fresh = 0
        stopped_early = False
        known_keys = {k['key'] for k in ck.known if k.get('status') == 'known'}
        results = pmap(explore_config, confs, chunksize=4)
        for (cfg, bound), agg in zip(confs, results):
            f = cfg['fam']
            perfam[f]['configurations'] += 1
            perfam[f]['executions'] += agg['execs']
            tot['configurations'] += 1
            tot['executions'] += agg['execs']
            tot['points'] += agg['points']
            tot['transitions'] += agg['transitions']
            tot['capped'] += agg['capped']
            tot['max_schedule_len'] = max(tot['max_schedule_len'], agg['maxlen'])
            for k, v in agg['stats'].items():
                tot[k] += v
            classes |= set(map(tuple, agg['classes']))
            pending += agg['viol']
            fresh += sum(1 for v in agg['viol'] if v[0] not in known_keys)
            if fresh >= EARLY_STOP:
                # enough counterexamples (simplest configurations first): do not spend the rest of the budget
                stopped_early = True
                break
            if agg['sample'] and nsamp < 3 and len(cfg['tests']) >= 3 and cfg['jobs'] >= 2:
                ck.sample(agg['sample'])
                nsamp += 1
        results.close()
        tot['wall_explore_s'] = int(time.time() - ck.t0)
        report(ck, pending)
        if stopped_early:
            exhaustive = False
            tot['stopped_early_after_violations'] = fresh
        tot['wall_with_report_s'] = int(time.time() - ck.t0)
        states += tot['points']
        transitions += tot['transitions']
        traces += tot['executions']
        if tot['capped']:
            exhaustive = False
        ck.part('part1', **{k: tot[k] for k in sorted(tot)})
        ck.part('part1_families', **{f: dict(c) for f, c in perfam.items()})
        if not stopped_early and not os.environ.get('C12_FAMS') and not os.environ.get('C12_STRIDE'):     # coverage requirements are meaningless for an aborted exploration
            ck.require(tot['serial_waited_for_parallel'] > 0, 'no execution in which a serial test had to wait for running parallel tests')
            ck.require(tot['serial_ran_with_pending_launches'] > 0, 'no execution in which a serial test overlapped with the launch loop')
            ck.require(tot['exec_with_timeout'] > 0, 'no execution in which a timeout fired')
            ck.require(tot['cut_maxfail'] > 0, 'no execution cut short by --maxfail')
            ck.require(tot['cut_repeat'] > 0, 'no execution cut short by a failure under --repeat')
            ck.require(tot['jobs_saturated'] > 0, 'job limit never reached')
            ck.require(tot['rust_runs_nonzero_status'] > 0, 'no run of a protocol-rust test that ended with a non-zero status')
            ck.require(tot['exec_with_deviation'] > 0, 'no non-default schedule')
            ck.require(len(classes) >= 20, 'too few classification classes observed: %d' % len(classes))

    # ---- Part 2 ----
    if ck.want('p2'):
        cases = p2_cases(thorough, ck.seed)
        st = collections.Counter()
        pending = []
        first = None
        for res in pmap(run_real, list(enumerate(cases)), jobs=min(NCPU, 8)):
            st['runs'] += 1
            for k, v in res['stats'].items():
                st[k] += v
            pending += res['viol'][:4]
            first = first or res['sample']
        # selection through the CLI: --list must agree with the in-process get_tests()
        listed = [[], ['--suite', 'sa'], ['--suite', 'sub:sb', '--no-suite', 'sa'], ['--slice', '2/3'], ['--no-suite', 'mp:sa', '--slice', '1/2']]
        for (lines, rc), argv in zip(pmap(list_cli, list(enumerate(listed)), jobs=len(listed)), listed):
            buf = io.StringIO()
            old = sys.stdout, sys.stderr
            sys.stdout = sys.stderr = buf
            try:
                o = parser().parse_args(['-C', worker_wd(SEL_BLD), '--no-rebuild'] + argv)
                with mtest.TestHarness(o) as th:
                    exp = [th.get_pretty_suite(t) for t in th.get_tests()]
            finally:
                sys.stdout, sys.stderr = old
            st['list_runs'] += 1
            if lines != exp:
                pending.append(('C12:p2:list-differs', 'meson test --list %r printed %r, in-process get_tests gave %r' % (argv, lines, exp), {'list': argv}))
        report(ck, pending)
        stable = ('runs', 'list_runs', 'serial_runs')
        ck.part('part2', timing_dependent={k: st[k] for k in sorted(st) if k not in stable}, **{k: st[k] for k in stable})
        if first:
            ck.sample({'part2': first})
        ck.require(st['overlap_seen'] > 0 and st['serial_runs'] > 0 and st['classified'] > 0, 'part 2 exercised nothing')
        part2_runs = st['runs']
    else:
        part2_runs = 0

    if os.environ.get('C12_DEBUG'):
        print(json.dumps(ck.parts, indent=1, sort_keys=True, default=repr))
        print('KEYS', json.dumps(ck._seen_keys, indent=1))
    ck.assume('environment model: a fake process writes its whole output, closes its pipes and exits in ONE event; SIGTERM makes a process '
              'exit (rc -15) at an explorer-chosen later point, SIGKILL immediately; fake process creation never fails or suspends')
    ck.assume('ERROR and (unspecified) INTERRUPT have no summary line of their own; ERROR is tallied under `Fail:`')
    ck.assume('stdout is not a tty: ConsoleLogger starts no periodic progress timer, so the only timers are test limits and kill grace periods')
    ck.assume('Part 2 compares intervals reported by the test programs (sub-intervals of the real ones) and durations reported by the harness; '
              'its coverage counters (parts.part2.timing_dependent) depend on real scheduling, its verdicts do not')
    ck.finish(states=states, transitions=transitions, traces_validated_against_impl=traces, part2_real_runs=part2_runs + names_real_runs,
              distinct_result_classes=len(classes),
              rule='states = distinct (configuration, schedule prefix) points of the exploration tree (+ selection cases); transitions = environment '
                   'events (process exit / timer expiry) delivered to the real harness (+ selection calls); traces = complete schedules executed on '
                   'the real TestHarness and judged; deviation bound %s; horizon %d events' % ('2' if not thorough else 'none (n<=4 with repeat 1; n<=2), 3 (n=3,4 with repeat 2; flaky), 2/1 (n=5)', HORIZON),
              exhaustive=exhaustive)


def report(ck, pending):
    """Re-validate (twice, fresh processes) and report violations found by workers."""
    seen = collections.Counter()
    for key, what, rep in pending:
        seen[key] += 1
        if seen[key] > 2:
            ck.violation(key, what, rep)
            continue
        if 'choices' in rep:
            a, b = list(pmap(reexec, [rep, rep], jobs=2))
            if a != b:
                ck.internal('violation %s not reproducible: two re-executions differ\n%r\n%r' % (key, a, b))
            if not any(k == key for k, _ in a['violations']):
                ck.internal('violation %s disappeared on re-execution: %r' % (key, a['violations']))
            rep = dict(rep, observed={k: a[k] for k in ('schedule', 'rc', 'totals', 'results', 'error')}, expected=what)
        ck.violation(key, what, rep)


def replay(ck):
    d = json.load(open(ck.args.replay))
    print('replay of', d.get('key'), '-', d.get('what'))
    bad = False
    if 'choices' in d:
        o = observation(d['config'], worker_wd(MAIN_BLD), tuple(d['choices']), tuple(tuple(l) for l in d.get('labels', [])))
        print('configuration:', json.dumps(d['config']))
        print('schedule     :', o['schedule'])
        print('event log    :', o['log'])
        print('observed     : exit', o['rc'], 'totals', o['totals'], 'results', o['results'], 'error', o['error'])
        for k, w in o['violations']:
            print('EXPECTED vs OBSERVED [%s]: %s' % (k, w))
        bad = bool(o['violations'])
    elif d.get('select') == 'suite' or 'include' in d:
        res = sel_chunk([(tuple(d['include']), tuple(d['exclude']))])
        for k, w, _ in res['viol']:
            print('EXPECTED vs OBSERVED [%s]: %s' % (k, w))
        bad = bool(res['viol'])
    elif d.get('select') == 'name':
        res = name_chunk([tuple(d['args'])])
        for k, w, _ in res['viol']:
            print('EXPECTED vs OBSERVED [%s]: %s' % (k, w))
        bad = bool(res['viol'])
    elif 'name_real' in d:
        res = name_real((0, tuple(d['name_real'])))
        print('observed:', res.get('sample'))
        for k, w, _ in res['viol']:
            print('EXPECTED vs OBSERVED [%s]: %s' % (k, w))
        bad = bool(res['viol'])
    elif 'select' in d:
        n, viol, _, order = slice_cases(worker_wd(SEL_BLD), 8)
        for k, w, _ in viol:
            print('EXPECTED vs OBSERVED [%s]: %s' % (k, w))
        bad = bool(viol)
    elif 'part2' in d:
        res = run_real((0, d['part2']))
        print('observed:', res['sample'])
        for k, w, _ in res['viol']:
            print('EXPECTED vs OBSERVED [%s]: %s' % (k, w))
        bad = bool(res['viol'])
    elif 'list' in d:
        print(list_cli((0, d['list'])))
    print('still violating' if bad else 'no violation on this tree')
    sys.exit(1 if bad else 0)


run_main(main)
