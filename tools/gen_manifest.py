#!/usr/bin/env python3
"""Regenerates MANIFEST.json from the table below (one entry per claimed property)."""
import json, os, subprocess, sys

VERIF = os.path.dirname(os.path.dirname(os.path.abspath(__file__)))

CHECKS = {
    'C19': dict(
        category='exploration', design_ref='DESIGN.md §4 C19',
        technique='bounded exhaustive enumeration of version pairs/triples, operator spellings, constraint lists and Range pairs against an RPM-style reference order',
        text='Every pair of version strings over a component alphabet goes through all six real comparison operators; the order axioms '
             '(trichotomy, antisymmetry, derived operators, hash, transitivity over all triples) and agreement with a reference order are '
             'checked on the recorded matrix; constraint lists, Range.intersect/always and version_check_to_range are checked with set '
             'semantics on a probe set that covers every bound and gap. Exhaustive within the stated component domain.',
        note='Trusted: my RPM-style reference order; probe-set completeness argument for ranges (ranges only compare against their bounds).'),
}

CHECKS.update({
    'C01': dict(
        category='exploration', design_ref='DESIGN.md §4 C01',
        technique='bounded exhaustive enumeration of core-language programs (operator ladders, expression trees, method table, literals, statement sequences) run on the real interpreter in-process and end-to-end through meson setup, against a reference evaluator written from the language docs',
        text='Every program of six bounded families is parsed and evaluated by the real mparser/Interpreter and by an independent reference '
             'lexer/parser/evaluator (lib/verif/reflang.py, written from Syntax.md and docs/yaml/elementary); the typed variable tables or the '
             'fact of failure must agree. All succeeding programs and a representative of every failure class additionally run end-to-end as '
             'subprojects of a generated super-project through `meson setup` (get_variable read-back, subdir() splits, parent-variable isolation). '
             'Small-scope completeness for the stated families; documented-unspecified corners are skipped and counted.',
        note='Trusted: reflang as transcription of the docs; corners listed in evidence as unspec:* are never compared. Programs beyond the stated bounds are not covered.'),
    'C13': dict(
        category='model_checking', design_ref='DESIGN.md §4 C13',
        technique='explicit-state search over operation sequences on real CompilerArgs/CLikeCompilerArgs objects (product with an eager reference list), plus unmerged flat enumeration validating the state merging',
        text='All operation sequences up to the depth bound over a 9-argument alphabet (+=, append, extend, *_direct, insert, copy, reads, to_native) '
             'are executed on real argument-list objects bound to the detected gcc; every read is compared with the eager reference list of the '
             'property statement and history-derived invariants; states are merged on (real lazy fields, model list).',
        note='Trusted: the eager reference list as transcription of the property; argument kind table for the 9-argument alphabet; default include dirs taken from the real compiler.'),
    'C20': dict(
        category='exploration', design_ref='DESIGN.md §4 C20',
        technique='exhaustive (requirement, version) grid and SemVer order matrix against a reference Cargo matcher; exhaustive cfg() expressions to a depth bound x all assignments, and all single-token corruptions',
        text='Every single comparator and every comma pair over a bounded component domain is evaluated on every version of the domain by the real '
             'cargo_parse and by a reference matcher transcribed twice from the Cargo rules (with the two pinned deviations); SemVer order axioms on all '
             'triples; every cfg() expression to depth 2 (+ a depth-3 layer) under all 16 configurations; every single-token edit must raise MesonException.',
        note='Trusted: the transcription of Cargo/semver rules (cross-checked against unittests/cargotests.py tables at start-up).'),
})

CHECKS.update({
    'C05': dict(
        category='model_checking', design_ref='DESIGN.md §4 C05',
        technique='explicit-state search over the lattice of ideals of the build-edge partial order of generated build.ninja files, each transition executing one real edge (gcc/ar/cp/sh) with only its state\'s outputs present',
        text='For every generated project (all target-graph shapes up to 3 targets of the projgen grammar, several placements/options) the real '
             '`meson setup` writes build.ninja; a reference Ninja reader extracts the edge order; every downward-closed set of executed edges is a '
             'state and from every state every enabled edge is run for real in a build directory holding exactly the configure-time files plus the '
             'outputs of the state. Each transition must succeed and reproduce the reference digests; two adversarial complete schedules are run too.',
        note='Trusted: lib/verif/refninja.py as reading of the Ninja manual (ninja is not installed); sequential schedules only; outputs of executed edges are restored from the reference build.'),
    'C18': dict(
        category='model_checking', design_ref='DESIGN.md §4 C18',
        technique='explicit-state BFS over the product of the real TAPParser state and a reference TAP 12/13 consumer over a 27-form line alphabet; unmerged flat sequences through the real TestRunTAP for the verdict clause',
        text='Every transition feeds one more line to the real parser (prefix replayed on a fresh TAPParser) and compares the emitted events with a '
             'reference consumer written from the TAP specification; the end-of-stream transition is taken in every state; product states are merged on '
             '(real parser fields, reference state). All strings of <= 2 printable characters must not raise; whole-test verdicts via TestRunTAP x exit status.',
        note='Trusted: the reference consumer as transcription of TAP 12/13; corners listed as may-classes are not compared.'),
})

CHECKS.update({
    'C04': dict(
        category='exploration', design_ref='DESIGN.md §4 C04',
        technique='bounded exhaustive enumeration of generated target-graph shapes x layout/default_library/unity settings, a collision table and the repository corpus, each configured by real meson setup and read by an independent Ninja manifest reader',
        text='Every projgen shape of <= 3 targets (all placements) is configured with the real Ninja backend under layout/default_library/unity '
             'combinations; build.ninja is parsed by lib/verif/refninja.py (written from the Ninja manual) and checked for undefined rules, duplicate '
             'outputs (explicit or implicit), cycles, dangling inputs, and reachability of build_by_default targets from all and of test executables / '
             'test depends from meson-test-prereq (via meson-info). A table of 132 colliding/reserved-name declarations must be rejected with a '
             'MesonException or yield a valid manifest. The configurable part of test cases/{common,unit,native,linuxlike} is checked the same way.',
        note='Trusted: refninja as reading of the Ninja manual (ninja is not installed). VS/Xcode backends are not covered.'),
})

CHECKS.update({
    'C06': dict(
        category='exploration', design_ref='DESIGN.md §4 C06',
        technique='exhaustive cross product of environment answers (hash seed x environ order x directory-listing order x build-dir history) per project, real meson setup at identical paths, byte comparison of generated text and stat comparison across no-op reconfigure',
        text='For hand-written feature-rich projects, projgen shapes and corpus projects, fresh `meson setup` runs at identical absolute paths under every '
             'combination of PYTHONHASHSEED (separate interpreter per seed), os.environ insertion order and os.listdir/scandir order must produce '
             'byte-identical build.ninja, meson-info/intro-*.json, configure_file outputs, .pc files and depmf.json; cross-seed reconfigure must equal '
             'fresh; a no-op reconfigure must keep build.ninja content and must not touch configure_file outputs / .pc files / alias symlinks.',
        note='Decided for the enumerated seed list only (evidence reports how many distinct set orders the seeds realise). build.ninja and meson-info files are only required to keep their content, not their mtime.'),
    'C10': dict(
        category='exploration', design_ref='DESIGN.md §4 C10',
        technique='exhaustive decision table (6 480 cells) of dependency() lookups through real meson setup against a decision function transcribed from the docs; exhaustive lookup sequences <= 3; fault enumeration over archive/hash corruption classes x acquisition locations',
        text='Every cell of the documented fallback policy (system version x constraint x provider x subproject version x wrap_mode x force_fallback_for x required x '
             'allow_fallback) is evaluated by the real `meson setup --backend=none` with pkg-config files in a private libdir and file:// wraps, batched as capsule '
             'subprojects; repeated-lookup consistency over all sequences <= 3; every corruption class of source/patch archives at every acquisition location with '
             'invariants on subprojects/ and the package cache and on a second run.',
        note='Trusted: decide() as transcription of dependency.yaml / Subprojects.md / Wrap manual; docs-silent cells are skipped and counted; only [wrap-file] with file:// URLs (no network, no git/hg/svn).'),
    'C14': dict(
        category='exploration', design_ref='DESIGN.md §4 C14',
        technique='bounded exhaustive enumeration of templates (<= 3/4 fragments of a 30-fragment alphabet) x 100 data sets x 3 formats through the real do_conf_str/do_conf_file/dump_conf_header; marker-differential (no-rescan) oracle plus a reference scanner',
        text='Every template built from placeholder-like fragments is substituted by the real code under every data set; the meson-format output must equal '
             'the template\'s structure (obtained with inert marker values) with the values textually inserted (so a value is never re-scanned), and must agree '
             'with a reference scanner written from Configuration.md and calibrated on the pinned config6/config7 expectations; placeholder-free text is copied '
             'byte for byte; missing-name sets are exact; template-less headers contain exactly the keys, sorted, rendered per type.',
        note='Tier A only (in-process); undocumented cmake-format forms are on the unspecified list and skipped (counted).'),
})

CHECKS.update({
    'C03': dict(
        category='exploration', design_ref='DESIGN.md §4 C03',
        technique='bounded exhaustive enumeration of argument strings (<= 2/3 atoms of a 26-atom alphabet + specials) x every command position and wrapping mode; real meson setup, reference ninja expansion, real /bin/sh and a C argv dumper; real meson test for test arguments',
        text='Every string is placed as an argument (and as an env value) of custom_target (plain/capture/feed/env/console/depfile), run_target, generator, '
             'test() (exitcode and tap) and of per-target -D and neutral c_args, link_args, project/global/project-link arguments, with and without '
             'forced response files; the command text of build.ninja is expanded by the reference Ninja evaluator, run by the real /bin/sh (or decoded '
             'by a libiberty buildargv port for response files) and the argv/env recorded by a C dumper must equal the given strings after the '
             'documented rewrites only (backslash -> / in custom-target commands, doubled backslashes in per-target -D, exact && splits).',
        note='Trusted: refninja ($-escapes, $in/$out quoting), the buildargv port for @file, /bin/sh. POSIX/Ninja only (no VS/Xcode, no cmd.exe quoting). @TEMPLATE@-forming strings and newline-bearing compile/link arguments (refused by meson with an error) are not enumerated.'),
})

CHECKS.update({
    'C15': dict(
        category='exploration', design_ref='DESIGN.md §4 C15',
        technique='bounded exhaustive enumeration of generated project shapes (plus hand-written and corpus projects, option command lines, a test project, install projects) with relational comparison of meson-info/intro-*.json against sibling artifacts produced by real code',
        text='For every projgen shape of <= 3 targets (with decoy build files), two feature-rich projects and part of test cases/common the real `meson setup` '
             'runs; intro-targets.json is compared with build.ninja read by the reference Ninja reader (output names of each target, sources consumed by its '
             'compile statements), intro-buildsystem_files.json with the build files actually entered; intro-buildoptions.json with message()d get_option() '
             'values under several command lines; intro-tests/benchmarks.json with the argv/env seen by tests run by the real `meson test` and with --list per '
             'suite selector; intro-install_plan/intro-installed.json with the tree the real `meson install` creates for all tags and for each tag.',
        note='Trusted: refninja; the C argv dumper. Unity builds and targets with prebuilt/extracted objects are skipped for the sources comparison; symlinks and empty directories are not required to be named by the install plan.'),
})

CHECKS.update({
    'C09': dict(
        category='fault_enumeration', design_ref='DESIGN.md §4 C09',
        technique='exhaustive crash-point enumeration: every file-system mutation (libc-level LD_PRELOAD shim) issued by each mutating meson command on each directory history is a kill point; real recovery command after each kill',
        text='For every (history, command) pair a counting run under tools/fsfault.c lists the N mutations the real command issues below the build directory; '
             'for every k the command is re-run from the same snapshot and killed right before mutation k (thorough: also torn in the middle of every write); '
             'the prescribed recovery (`meson setup`, --reconfigure iff coredata.dat exists) must succeed without an unhandled exception and every tracked option '
             'must have its old value or the value the command was setting.',
        note='Process-kill consistency at libc-call granularity; power-loss semantics are not modelled. Quick explores the first/last point of every run of log-only mutations (argument in DESIGN.md), thorough every point and adds a C project with the ninja backend.'),
    'C02': dict(
        category='exploration', design_ref='DESIGN.md §4 C02',
        technique='bounded exhaustive enumeration of token sequences (41 tokens, <= 4/5 tokens, 3 separator policies, sound prefix pruning), all strings <= 3/4 characters, the repository corpus and its complete single-edit neighbourhood, through the real lexer/parser/RawPrinter',
        text='Every input is either rejected with a MesonException whose position lies inside the text or parsed to a tree whose RawPrinter output equals the input byte for byte, '
             'and for every FunctionNode/ArrayNode the text cut by the recorded extent with the arithmetic the real rewriter uses (probed at start-up) is exactly that construct. '
             'Any other exception type is a violation. Pruned sub-spaces are justified (LL(1) parser already failed before the last token) and re-validated on a slice.',
        note='Completed depth is reported in evidence; texts with a bare CR are not extent-checked.'),
    'C07': dict(
        category='exploration', design_ref='DESIGN.md §4 C07',
        technique='exhaustive enumeration of option-source subsets (2^4 top level, 2^8 subproject) x option kinds x value assignments on the real OptionStore in-process and end-to-end through meson setup, against a reference function transcribed from the documented order',
        text='Every subset of the documented value sources is realised for every option kind with assignments that make a wrong winner visible; the real OptionStore is driven exactly '
             'as the interpreter drives it (tier A) and the same scenarios run as real projects with command line, machine files and default_options through `meson setup` with get_option() '
             'messages as ground truth (tier B); buildtype/debug/optimization, prefix-dependent directories, per-machine options and every invalid-value class from every source are covered.',
        note='Trusted: the reference functions as transcription of Builtin-options.md / Machine-files.md / Build-options.md; docs-silent corners are skipped and counted.'),
    'C11': dict(
        category='model_checking', design_ref='DESIGN.md §4 C11',
        technique='explicit-state search over install histories (states = DESTDIR trees) on projects enumerated from an install-rule alphabet, real meson install/uninstall, against a reference install model computed from the generated build definition',
        text='All install-rule sets up to the bound x names/modes/umask/prefix/DESTDIR/tags/skip-subprojects families are configured, built by the reference ninja executor and installed by '
             'the real `meson install` inside a read-only mount namespace; the tree must equal the model, the log must name exactly what was created, intro-install_plan must agree, '
             'dry-run changes nothing, install twice equals once, uninstall restores the pre-install tree; histories are explored breadth-first to depth 3.',
        note='Trusted: the install model as transcription of Installing.md and the generated rules; listed unspecified corners (parent directory modes etc.) are not compared.'),
})

CHECKS.update({
    'C08': dict(
        category='model_checking', design_ref='DESIGN.md §4 C08',
        technique='explicit-state BFS over histories of real lifecycle commands (setup / configure -D / -U / --reconfigure / --wipe / option-file edits / injected failures) on real build directories, product with a reference lifecycle model',
        text='From a freshly configured generated project every command of a 24-28 command alphabet is applied to every reachable state up to the depth bound; the build directory of each '
             'frontier state is kept as an in-memory snapshot and restored at a fixed path inside a private mount namespace; after every transition introspection, `meson configure`, '
             'cmd_line.txt and (by a throw-away observer reconfigure) the get_option() values are compared with a LifecycleModel written from the property text; failed commands must leave every '
             'persisted value unchanged; states are merged on (model state, observations) so merged states have equal futures, and two histories reaching one model state must observe the same.',
        note='Trusted: the LifecycleModel as transcription of the property and docs; docs-silent commands are skipped and counted. Thorough caps the last level (reported, exhaustive=false there).'),
    'C12': dict(
        category='model_checking', design_ref='DESIGN.md §4 C12',
        technique='stateless exploration of all event orders (process exits / timer expiries) of the real asyncio TestHarness under a virtual event loop with a deviation bound, plus exhaustive selection tables and a conformance part with real processes',
        text='The unmodified mtest.TestHarness.doit() runs from a real meson_test_setup.dat under an event-loop policy whose virtual loop hands every quiescent point to the explorer; fake '
             'subprocesses exit when the explorer says so. For each configuration of a covering family (parallel/serial x outcomes x should_fail x protocol x jobs x repeat x maxfail) all '
             'schedules within the deviation bound (all schedules for small n in thorough) are executed; each must start every selected test once, respect the job limit and serial isolation, '
             'classify per the documented table, report totals/testlog/exit status truthfully. --slice and --suite selection are exhaustive tables; a smaller part replays configurations '
             'through the real `meson test` with real self-logging child processes.',
        note='Trusted: the virtual loop seam (asyncio policy + create_subprocess_exec + os.killpg outside mesonbuild). Interactive/gdb/Ctrl-C paths are out of scope.'),
    'C17': dict(
        category='exploration', design_ref='DESIGN.md §4 C17',
        technique='bounded exhaustive enumeration of expression trees x re-print contexts and of rewriter commands (and command pairs) x project shapes through the real `meson rewrite`, with the reference parser/evaluator as oracle',
        text='Every expression tree to depth 2 over a typed 34-operator family and 21 string-literal classes is placed in the other arguments of every statement the rewriter re-prints; every '
             'rewriter command (CLI and JSON forms) and every ordered pair runs on 12 project shapes. After each real `meson rewrite` process the touched file must parse (real parser and '
             'reference parser), the addressed target/keyword must have the requested value (reference model + `info`), every byte outside the edited statement must be unchanged, and every '
             'other argument of a re-printed statement must evaluate to the same value for all assignments of its free identifiers.',
        note='Trusted: lib/verif/reflang.py as independent reading of the language; listed unspecified corners (duplicate sources, non-literal addressed keywords, ...) are counted, not compared.'),
})

CHECKS.update({
    'C16': dict(
        category='exploration', design_ref='DESIGN.md §4 C16',
        technique='bounded exhaustive enumeration of grammar-generated programs decorated with every legal trivia choice under a deviation bound, string bodies, long argument lists, all formatter configurations and the repository corpus through the real Formatter, judged by the independent reference parser',
        text='Every program of a token-level grammar (depth <= 2, sequences <= 3) is decorated at every token gap with every legal trivia choice (0/1/2 non-default gaps), all string bodies <= 3/4 characters '
             'in four quote styles, argument lists around max_line_length, all 4 096 configuration combinations and every corpus meson.build are formatted by the real mformat.Formatter; reflang '
             'parses input and output and the trees must be equal modulo whitespace, comments, redundant commas, parentheses and the documented simplifications (only when they denote the same value), '
             'comment sequences equal, format(format(x)) == format(x); the CLI part checks --check-only/--check-diff status against the bytes --inplace writes.',
        note='Trusted: lib/verif/reflang.py as independent parser. Inputs the reference grammar rejects but the real parser accepts form a separate family with its own keys.'),
})

NOT_YET = {}

# coverage added after the first registration (appended to the claimed text)
ADDED = {
    'C01': 'A program whose result differs between the reused and a brand-new Interpreter is a violation (one Interpreter evaluates all build files of a project); every program has a wall-clock and memory budget. Family X6: one statement executed several times (loop, twice, nested loop) with variables that change in between. Rounds 8-9: the method table takes every integer boundary of every receiver length and boolean keyword values; a program whose value is unspecified must still not end in a Python traceback. Rounds 10-11: placeholder-like strings as format() arguments. Round 12: family X7 - identifiers spelled with a keyword as prefix or suffix (installed, notx, order, xin, ...) at every operand position of every operator and unary prefix, with 1 / 2 blanks or a tab after \'not\', in ternaries, if / elif conditions and as loop variables. Round 13: family X8 - every kind of value, the empty ones (0, false, \'\', [], {}) first, stored in a dict / array / variable and read back through every read path (get with each fallback, indexing, in, contains, values, foreach, get_variable with fallback, ternary, comparison); dictionary keys that are names meson itself uses (kwargs, args, required ...), literal and through a variable.',
    'C02': 'Gaps part: 10 kinds of trivia in every gap and pair of gaps of 10 skeleton statements. Pairs part: every ordered pair of 14 texts parsed in one brand-new interpreter, the second verdict compared with the text parsed alone. Rounds 8-9: scale part - escape sequences that need a lookup (N{..}, U beyond Unicode) in every string kind, digit runs up to 20000 digits in every base, 12 nesting forms x depths up to 5000 (closed, open, half closed) and 13 chain forms x lengths up to 20000. Round 12: the blocks family - every nesting (depth <= 2, thorough 3) of the five block forms, the inner block in every clause body, every trivia in every gap and every pair of line-end boundaries over one trivia of each nature (two closers on one line, no final newline).',
    'C03': 'test(workdir:); every sequence of <= 3 add_project_(link_)arguments / add_global_(link_)arguments calls over the language sets {c}, {cpp}, {c, cpp}: which language receives which argument, compile and link. Pairs of wrapped commands whose argument lists differ only in where the boundaries fall; generator extra_args positions; every test again under a test setup with a transparent exe_wrapper. Rounds 8-9: targets mixing C and C++ sources with per-language target arguments (both source orders); every spelling of env: (dict, list of NAME=value strings, environment() from dict / list / set()); 34 placeholder spellings (documented ones and near-misses) as generator / custom_target arguments: configuration terminates without traceback and documented spellings are substituted. Rounds 10-11: environment() methods (set / append / prepend x separator) against a variable already set where the command runs, in a source directory whose name holds \'=\'; test() / benchmark() arguments that are built targets, files or programs at every position among strings. Round 12: reconfigure histories (every ordered pair of 16 command definitions: configure with A, edit to B, reconfigure, run the statement) and sibling targets (same command line, different environments, one configuration) through the pickled wrapper. Round 13: every documented placeholder of custom_target / run_target / generator between every context of <= 2 (thorough 3) literal atoms of {@, u, :} on either side; the literal text must arrive unchanged around the value of the placeholder. Round 14: custom targets with 0-2 inputs and 1-2 outputs in the embedded-placeholder family, statements of different shapes interleaved.',
    'C04': 'A unity family, and a tests family (6 ways a test can refer to something built x program/args/nested args/depends, tests and benchmarks) for meson-test-prereq. One generator list shared by consumer sequences of length 2-3; a project mixing statements above and below the response-file threshold; output clashes in first/middle/last position of a multi-output statement; an optional subproject that fails after declaring tests / targets / install rules (nothing of it may remain). Rounds 8-9: linkkinds (5 provider kinds x 5 consumer kinds x 6 link relations x layout/default_library), bsubdir (6 kinds of things placed with build_subdir: and 2 without x 12 consuming positions x layout x placement), aliasrun (alias targets over run/alias/custom targets at top level, in (nested) subprojects and their subdirs), self-cycle collision cases, and the shape families of C05 (link chains, partial dependencies, shared generated lists, precompiled headers, generators with depends:). Rounds 10-11: a colon in target names; C / Fortran language assignments in the linkkinds family (dependency-scanner statements); preprocess(depends:) as a consumer in the bsubdir family. Round 12: the inplace family (custom targets whose output path may be the path of something they read: what is read x where x spelling of output: incl. @PLAINNAME@ / @BASENAME@ x place x layout) and assembly sources in the unity family. Round 13: targets without a single source in the source tree (own C file made by a custom target / generator()), alone, with generated headers, precompiled headers and linked libraries; generators whose depends: names a built executable, directly or as an overridden find_program(). Round 14: generator inputs in nested directories processed with preserve_path_from:.',
    'C05': 'generator()-made headers and 59 link chains of 3-5 targets (header two or three link levels away from its user); generators with depends: and several inputs; a dependency listed after its own partial_dependency(); precompiled headers that include generated headers. Rounds 10-11: unitymix (unity builds of targets mixing plain and generated C / C++ sources x unity_size x source order) and preprocess (compiler.preprocess over generated files of any name, through depends: and through declare_dependency(sources:)) families, explored like every generated project. Round 12: the ctlib family - libraries made by custom targets (4 producer shapes x 6 relations x consumer kinds x build_by_default) and the clause that a library the manual says is linked is named on a link line. Round 13: the same all-generated-sources shapes and generator depends: on a built executable / overridden find_program() result, explored like every other project. Round 14: the same preserve_path_from shapes; pchmix projects (a target of a C and a C++ source with precompiled headers for C / C++ / both x target kind x source order x generated header in the precompiled one).',
    'C06': 'The RICH project runs compiler checks (supported arguments, has_header, sizeof) whose results feed config.h and project arguments; a pch target with five generated headers. Rounds 8-9: build-directory placement (sibling / nested / nested twice / far; absolute and relative) for projects that write and read files in the build directory (5 writers x 6 readers x before/after), run outside /dev/shm; stale directories in the build directory; machine files from regular files and pipes; CRLF / lone-CR templates in RICH. Rounds 10-11: a wraps project (wrap directory differs from wrap name, lookups by both names) in the full product; install_subdir with several excluded names and install_data with mixed implicit tags in RICH; an earlier-data-version history (same names, sizes and time stamps, other contents). Round 12: earlier-revision histories (one elementary edit - insert / delete / swap / retype at every position - of the option file, the subproject\'s option file or the statements of meson.build, then reconfigure, against a fresh configuration) and the dependency manifest under the mtime clause. Round 13: earlier-options histories (12 option vectors incl. 6 orders / subsets / duplicates of two dependency search-path directories that provide one package with different flags; brought to the present vector by setup --reconfigure -D or meson configure + regeneration, against a fresh configuration) and the list of further project() languages in the earlier-revision family.',
    'C07': 'A yielding option against a parent option of every other kind. Part R: 49 re-declarations of an option (integer bounds, combo / array choices, type) with a stored value, get_option and configure -D afterwards. The prefix decoy with every source of the top-level prefix. Part P: 48 command histories pinning a subproject value (also equal to the inherited one) before the parent value changes. Rounds 8-9: the spelling of a command-line entry (-Dname=value, --name=value, --name value, bare switch) as a dimension of the top-level, subproject, per-machine, prefix, invalid-value and buildtype families, for meson setup and meson configure. Rounds 10-11: spellings of a prefix value (trailing slashes, /., doubled slash) for every source and meson configure; malformed array values; backend options; the declared default as a dimension (absent, and every falsy explicit value) for top-level / subproject-only / shadowing / yielding options; part K (a buildtype equal to the one in effect); subproject-addressed prefix. Round 12: the machine-file source given as 2 (thorough 3) layers - every placement of every pair of 8 options over the layers, composition rule from Machine-files.md, through parse_machine_files and repeated --native-file / --cross-file. Round 13: late booleans whose documented default is true (b_staticpic, b_lundef) and empty / wrongly typed values for every late option (base, compiler, backend). Round 14: setup --wipe family in the end-to-end tier (9 options x given / not given at the first setup x wipe with the same option / nothing / another option / twice).',
    'C08': 'Commands that make an override equal to the value it overrides; an integer option whose bounds are edited; the empty string as a value; setup --wipe together with -D. Rounds 8-9: a second root (setup -Dsub2:o=p1) and a subproject that an option switches on (use2): values given before a subproject is first configured. Rounds 10-11: edits of the subproject option file (9 variants incl. deletion), own values of the yielding combo (-Dsub:c / -Usub:c), a third root giving the own value at the first setup. Round 13: composite option-file edits (rename, swap for another type, remove one + add two; top-level and subproject file; first seen by reconfigure or by a meson configure of another option) between 6 pre and 6 (thorough 11) post steps.',
    'C09': 'A history whose values come from a native file; after every recovery the next commands (configure -D, reconfigure, thorough: wipe) must work and keep the values. Rounds 8-9: the language-less project also with the ninja backend (quick: the commands that write the manifest); after the recovery build.ninja must be a valid manifest for the reference reader. Rounds 10-11: a build directory whose name holds glob characters; a machine file that arrives through a pipe, as history and in setup --wipe --native-file <pipe>. Round 12: a Fortran project with the ninja backend (the backend\'s per-target scan data) for first setup and reconfigure.',
    'C10': 'Injected I/O answers during the overlay copy (n-th copy fails) and for the patch program (cannot start); the following run without fault must prepare the subproject completely. Part (d): two wraps of one configuration naming the same archive file, which matches only the first wrap\'s hash. History part: the decision table again after the build directory was first configured under another (wrap_mode, force_fallback_for). Round 12: the already-configured-subproject cells specified from the candidate order (no longer skipped) and split by how the subproject was configured (subproject() / fallback of another lookup) and named (fallback: / wrap provide). Round 13: lookups with 2 (thorough 3) names - every name absent / on the system (low or high version) / provided by the wrap / overridden - x constraint x subproject version x required x allow_fallback x wrap_mode x force_fallback_for, each followed by an optional lookup of every single name (same dependency); 4 spellings of the name (capitals, punctuation) x {wrap provide, fallback: [s, var], fallback: \'s\'}.',
    'C11': 'install_emptydir with sticky / setuid modes; an explicit install_mode without owner write bit; source versions 0.3 s apart. Rounds 8-9: family A, installs that cannot complete (4 kinds of obstacle at every entry of the reference model): the log names what the stopped run created, uninstall restores the previous tree, a repaired re-install equals a clean install. Rounds 10-11: family G (6 rule kinds without explicit tag x ~270 destinations x every documented tag), L (install_subdir over a link to a directory), N (9 shapes of the subdir name x strip_directory x excludes), Y (install_data of a symlink source), D (install_dir with ..). Round 14: family M - an emptydir rule with a declared mode sharing its directory with every other rule kind (destination, ancestor, tree top; both orders) from three DESTDIR pre-states (absent, declared directories pre-existing with default mode, tree of an earlier revision without install_mode); a declared directory mode is required also of pre-existing and shared directories.',
    'C12': '--slice over every subset of 8 tests, 3 of them non-parallel; fractional --timeout-multiplier values. Rounds 8-9: family M, 255..257 (thorough ..512) bad results in one run through --repeat; the exit status is judged as the one byte the parent process sees. Round 12: selection by name - a build with non-unique test names, all argument sequences <= 2 (thorough 3) over 48 documented spellings through the real selection and 32 through the real command line; family R, the rust protocol under every exit status. Round 14: tests without a limit (timeout: <= 0 in the build definition; --timeout-multiplier <= 0) as configurations of the schedule exploration.',
    'C13': 'An absolute library path through append_direct/extend_direct, alone and in two-element batches with every other argument; bare options with a separate operand (-isystem DIR, -D FOO). Rounds 8-9: two-object histories (10 binary operations whose operand is another argument-list object in every state, followed by one more operation) and sequence-protocol reads (reversed, indexing, slices) with pending queues. Rounds 10-11: the argument-list class (C-like, base, D) as a dimension of every part, kinds read from the class tables. Round 12: the name shape of a library file as a dimension (6 locations x 11 names incl. versioned shared libraries) and equality reads on pairs of histories. Round 14: tail part - the value of an override option ends like a library file (6 tails) in variant alphabets of the C-like and D classes, explicit-state search to depth 3.',
    'C14': '30 fragments (non-ASCII names, #cmakedefine with a ${} tail); the file slice renders each data set over the output of the previous one, and in three more encodings. Rounds 8-9: form feed and U+2028 as fragments (characters str.splitlines() breaks at). Rounds 10-11: nested cmake references (names built from ${..} / @..@) specified from CMake\'s documentation, names family; directive spellings (blanks around # and the keyword) compared on (kind, name, value); reference calibrated against the installed cmake. Round 12: the value-names family (sequences <= 4 over 11 fragments x 45 data sets whose values name bound, unbound and self names), words that merely begin with a directive, and hang detection by CPU time with confirmation.',
    'C15': 'The same comparisons after setup --reconfigure (twice); an install project with every installable kind x 8 spellings of the install directory; yielding options given their own value; files read through fs / keyval before and after a subproject, compared with the REGENERATE_BUILD dependencies. Rounds 8-9: intro-tests/benchmarks depends (and programs in the build directory) against what meson-test-prereq / meson-benchmark-prereq build; every target kind with build_subdir: at root / in a subdir under both layouts; optional subprojects that fail (error, missing dependency, in a subdir, syntax error) in the reads family. Rounds 10-11: configured sources, LLVM IR sources, custom targets consuming files / whole targets / indexed outputs: the sources introspection lists against the inputs of the statements. Round 12: unity builds are no longer exempt from the sources comparison; a unity family (1 / 4 / 5 / 9 sources, two languages, a generated source; unity_size default and 2; per-subproject unity; flat layout). Round 13: an install-names project - every install function with every documented keyword that changes the name under which a file is installed (install_man locale:, rename:, preserve_path:, strip_directory:, name_prefix / name_suffix / version / soversion, per-output install_dir). Round 14: a plan entry of an installed subdirectory must locate every file of the source directory at <destination>/<relative path>.',
    'C16': 'indent_by = \'\'; end_of_line taken from .editorconfig in the CLI part; several files in one invocation (list and --recursive). Rounds 8-9: @, quote, backslash and newline in 7 spellings (literal, one-letter, octal, x, u, U, N{}) x 4 string kinds with bodies <= 3, the same literals in 6 contexts, 274 characters in comments, continuation before the end of the file. Rounds 10-11: options part - every documented formatter option as a dimension of a family whose inputs can trigger it, with a counter of cases where the option changes the output.',
    'C19': 'version_check_to_range must leave its start argument unchanged. Rounds 8-9: white space before the operator and after the version of a constraint. Round 12: the featurerange part - every if / elif / else chain of <= 2 (thorough 3) clauses over constants and 6 shapes of version condition x declared ranges through the real meson setup: a block that some version of the declared range older than the feature runs must get the FeatureNew warning. Round 14: feature-sites family - every sequence of <= 2 (thorough 3) feature use sites over 5 guards x 2 features of different age x declared ranges (last site in the same file or a subdir() file); every site that a too-old version of the declared range runs must be named by its own FeatureNew warning.',
    'C17': 'Layer-B project line with entries that merely contain an addressed name; two source arrays on one line; info / edit / info in one run. Rounds 8-9: layer C - two targets, 11 name classes (only in the other list, in both lists, in the other target, nowhere ...) x 30 ways of writing sources / extra_files x the 4 list operations with single names and pairs, observed per list. Rounds 10-11: layer D (target and its lists spread over root / parent / sibling build files, files named from the source root, named files must exist on disk) and layer E (the target call in 11 syntactic positions). Round 14: add_target for target names over the documented character set (dot, plus, at, leading digit, dash and space).',
    'C18': 'Rounds 8-9: digit runs up to 10000 digits in every place where the parser converts a number. Rounds 10-11: numbers of any size must entail the error events their value implies. Round 12: the unicode part - 16 line templates with a hole at every position a character class decides x 3939 code points (thorough: all 0x110000); digits and case folding of the reference are ASCII-only.',
    'C20': 'Rounds 8-9: the token-gap dimension for cfg() (7 fillers incl. tab / newline / CR LF, deviation bound 2), every concatenation of <= 5 pieces incl. a lone quote, and string values containing separators, against a reference lexer written from the tokenizer of cargo-platform. Rounds 10-11: histories over the real Dependency object (accepts_version / api / update_version) and Cargo.lock resolution through _resolve_package / _dep_package; x / X wildcard spellings; bare keywords in every position. Round 12: pre-release identifiers over SemVer\'s alphabet (48, thorough 88: upper / mixed case, digit-leading, hyphens, x / X) x 8 operators x 60 versions, and 4608 ranges.',
}


def main():
    props = [json.loads(l) for l in open(os.path.join(VERIF, 'properties.jsonl'))]
    checks = []
    na = []
    for p in props:
        pid = p['id']
        c = CHECKS.get(pid)
        if not c or not os.path.exists(os.path.join(VERIF, 'checks', pid.lower() + '.py')):
            na.append({'property_id': pid, 'reason': NOT_YET.get(pid, 'check not built yet in this session (planned in DESIGN.md §4 %s); not claimed until it runs silently on the unchanged tree' % pid)})
            continue
        checks.append({
            'property_id': pid,
            'quick_cmd': './check %s --tier quick' % pid,
            'thorough_cmd': './check %s --tier thorough' % pid,
            'evidence_file': 'evidence/%s.json' % pid,
            'replay_cmd_template': './check %s --replay {path}' % pid,
            'engine': c.get('engine', 'verif-py'),
            'level_claimed': {'category': c['category'], 'text': c['text'] + (' Added later: ' + ADDED[pid] if pid in ADDED else ''), 'design_ref': c['design_ref']},
            'level_note': c['note'],
            'technique': c['technique'],
        })
    man = {
        'version': 1,
        'setup_cmd': './setup.sh',
        'hooks': {
            'guard': 'MESON_VERIF',
            'enable': 'no source hooks: checks import /repo directly and drive it through seams outside mesonbuild (env vars, stub ninja, LD_PRELOAD shim, asyncio policy); MESON_VERIF=1 is exported by ./check but nothing in /repo reads it',
            'baseline_off_cmd': 'cd /repo && /venv/bin/python -m pytest -ra -q -p no:cacheprovider --timeout=900 --continue-on-collection-errors',
            'source_commits': [],
            'add_only': True,
        },
        'engines': [
            {'name': 'verif-py', 'path': 'lib/verif', 'serves_properties': [c['property_id'] for c in checks],
             'kind_free_text': 'hand-written bounded-exhaustive explorers in Python driving the real mesonbuild code from /repo'},
        ],
        'checks': checks,
        'not_applicable': na,
        'notes': 'All checks are bounded exhaustive explorations of the real code (see DESIGN.md). known_findings.json lists genuine defects.',
    }
    with open(os.path.join(VERIF, 'MANIFEST.json'), 'w') as f:
        json.dump(man, f, indent=1)
        f.write('\n')
    vt = '/usr/local/bin/python3-vt'
    if os.path.exists(vt):
        r = subprocess.run([vt, '-c', 'import json,jsonschema,sys;jsonschema.Draft202012Validator(json.load(open("/root/.vp/MANIFEST.schema.json"))).validate(json.load(open(sys.argv[1])));print("manifest valid")', os.path.join(VERIF, 'MANIFEST.json')])
        sys.exit(r.returncode)


if __name__ == '__main__':
    main()
