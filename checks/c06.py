# C06 - configuration is deterministic and does not disturb unchanged outputs.
# Per project the FULL cross product PYTHONHASHSEED x os.environ insertion order x directory-listing order of fresh
# `meson setup` runs (same absolute paths) must give byte-identical generated text; a build dir configured under
# one seed and reconfigured under another must equal the fresh result; a no-op reconfigure must keep build.ninja's
# content and must not touch configure-time outputs whose content is unchanged.
import glob, hashlib, itertools, json, os, shutil, sys
from verif.core import Check, pmap, run_main, scratch_root, REPO, NCPU
from verif import projgen as pg

ENV_ORDERS = ['asis', 'reversed', 'sorted']
DIR_ORDERS = ['native', 'reversed', 'sorted']

from verif.projects import RICH, NOLANG


def fingerprint(bdir):
    """{relative path: sha1} of the generated text this property is about"""
    out = {}
    for base, dirs, files in os.walk(bdir):
        relb = os.path.relpath(base, bdir)
        top = relb.split(os.sep)[0]
        if top in ('meson-logs',):
            dirs[:] = []
            continue
        for fn in files:
            p = os.path.join(base, fn)
            rel = os.path.normpath(os.path.join(relb, fn))
            if top == 'meson-private':
                if not (fn.endswith('.pc') or fn == 'depmf.json'):
                    continue
            if top == 'meson-info' and fn == 'meson-info.json':
                pass
            if os.path.islink(p):
                out[rel] = 'link:' + os.readlink(p)
                continue
            with open(p, 'rb') as f:
                data = f.read()
            # small text files are kept verbatim so that a difference can be classified
            out[rel] = data if len(data) < 400000 else hashlib.sha1(data).hexdigest()
    return out


def anon_dep_only(a, b):
    """True if two file contents differ only in names of the form dep<uuid4 as int> (unnamed Dependency objects)"""
    import re
    if not isinstance(a, bytes) or not isinstance(b, bytes):
        return False
    rx = re.compile(rb'dep[0-9]{25,45}')
    return rx.search(a) is not None and rx.sub(b'dep#', a) == rx.sub(b'dep#', b)


def fclass(rel):
    if rel == 'build.ninja':
        return 'build.ninja'
    if rel.startswith('meson-info/'):
        return os.path.basename(rel).replace('.json', '')
    if rel.endswith('.pc'):
        return 'pkgconfig'
    if rel.endswith('depmf.json'):
        return 'depmf'
    if rel == 'compile_commands.json':
        return 'compile_commands'
    return 'configure-output'


def stat_sig(bdir):
    out = {}
    for base, dirs, files in os.walk(bdir):
        for fn in files:
            p = os.path.join(base, fn)
            st = os.lstat(p)
            out[os.path.relpath(p, bdir)] = (st.st_mtime_ns, st.st_ino, st.st_size)
    return out


def order_env(env, mode):
    items = list(env.items())
    if mode == 'reversed':
        items.reverse()
    elif mode == 'sorted':
        items.sort()
    return dict(items)


def explore(job):
    from verif import mesonproc as mp
    idx, name, files, srcdir, seeds, setup_args, full = job
    res = {'name': name, 'setups': 0, 'viol': [], 'files': 0, 'skip': None, 'compared': 0, 'orders_seen': 0}
    root = os.path.join(scratch_root(), 'c06.%d' % os.getpid())
    shutil.rmtree(root, ignore_errors=True)
    if files is not None:
        mp.write_tree(os.path.join(root, 'src'), files)
    else:
        shutil.copytree(srcdir, os.path.join(root, 'src'), symlinks=True)
    src, bdir = os.path.join(root, 'src'), os.path.join(root, 'b')
    base_env = mp.base_env(home=os.path.join(root, 'home'), CFLAGS='-DENV_CF', LDFLAGS='-Wl,-O1', CPPFLAGS='-DENV_CPP',
                           PKG_CONFIG_PATH=os.path.join(root, 'pc1') + ':' + os.path.join(root, 'pc0'), ZZZ_UNUSED='1', AAA_UNUSED='2')
    servers = {}

    def server(seed):
        if seed not in servers:
            servers[seed] = mp.Server(hashseed=seed)
        return servers[seed]

    def setup(seed, eo, do, extra=(), fresh=True):
        if fresh:
            shutil.rmtree(bdir, ignore_errors=True)
        res['setups'] += 1
        return server(seed).run(['setup', bdir, src] + list(setup_args) + list(extra), root, env=order_env(base_env, eo),
                                pre=('verif.hooks', 'dirlist_order', (do,)), timeout=120)
    try:
        r0 = setup(seeds[0], 'asis', 'native')
        if r0.rc != 0:
            res['skip'] = 'does not configure here'
            return res
        F0 = fingerprint(bdir)
        res['files'] = len(F0)

        def compare(F, what, dim):
            res['compared'] += 1
            for rel in sorted(set(F0) | set(F)):
                if F0.get(rel) != F.get(rel):
                    if anon_dep_only(F0.get(rel), F.get(rel)):
                        res['viol'].append(('C06:differs:%s:anonymous-dependency-uuid' % fclass(rel), '%s: %s differs only in the random name dep<uuid> of an unnamed dependency (%s)' % (name, rel, what),
                                            {'project': name, 'file': rel, 'config': what, 'files': files, 'srcdir': srcdir, 'setup_args': list(setup_args)}))
                        continue
                    res['viol'].append(('C06:differs:%s:%s' % (fclass(rel), dim), '%s: %s differs from the baseline run under %s' % (name, rel, what),
                                        {'project': name, 'file': rel, 'config': what, 'files': files, 'srcdir': srcdir, 'setup_args': list(setup_args)}))
        # full cross product of fresh configurations
        for seed, eo, do in itertools.product(seeds, ENV_ORDERS, DIR_ORDERS):
            if (seed, eo, do) == (seeds[0], 'asis', 'native'):
                continue
            if not full and sum([seed != seeds[0], eo != 'asis', do != 'native']) > 1:
                continue     # reduced matrix: one dimension at a time
            r = setup(seed, eo, do)
            if r.rc != 0:
                res['viol'].append(('C06:setup-fails-under-variation', '%s: setup fails under seed=%s env=%s dir=%s: %s' % (name, seed, eo, do, r.out[-300:]),
                                    {'project': name, 'config': [seed, eo, do], 'files': files, 'srcdir': srcdir}))
                continue
            dim = 'hashseed' if (eo, do) == ('asis', 'native') else ('environ-order' if (seed, do) == (seeds[0], 'native') else ('dirlist-order' if (seed, eo) == (seeds[0], 'asis') else 'combined'))
            compare(fingerprint(bdir), 'PYTHONHASHSEED=%s environ=%s dirlist=%s' % (seed, eo, do), dim)
        # histories: configured under one seed, reconfigured under another
        for s1, s2 in [(seeds[-1], seeds[0]), (seeds[0], seeds[-1])]:
            r = setup(s1, 'reversed', 'reversed')
            r = setup(s2, 'asis', 'native', extra=['--reconfigure'], fresh=False)
            if r.rc != 0:
                res['viol'].append(('C06:reconfigure-fails', '%s: reconfigure fails: %s' % (name, r.out[-300:]), {'project': name, 'files': files, 'srcdir': srcdir}))
                continue
            compare(fingerprint(bdir), 'history: configured with seed %s, reconfigured with seed %s' % (s1, s2), 'history')
            # no-op reconfigure
            before_f, before_s = fingerprint(bdir), stat_sig(bdir)
            r = setup(s2, 'asis', 'native', extra=['--reconfigure'], fresh=False)
            after_f, after_s = fingerprint(bdir), stat_sig(bdir)
            if before_f.get('build.ninja') != after_f.get('build.ninja'):
                res['viol'].append(('C06:noop-reconfigure-changes:build.ninja', '%s: build.ninja content changed by a no-op reconfigure' % name, {'project': name, 'files': files, 'srcdir': srcdir}))
            for rel, h in before_f.items():
                cls = fclass(rel)
                if after_f.get(rel) != h and anon_dep_only(h, after_f.get(rel)):
                    res['viol'].append(('C06:differs:%s:anonymous-dependency-uuid' % cls, '%s: %s changed by a no-op reconfigure only in the random name of an unnamed dependency' % (name, rel),
                                        {'project': name, 'file': rel, 'files': files, 'srcdir': srcdir}))
                elif after_f.get(rel) != h:
                    res['viol'].append(('C06:noop-reconfigure-changes:%s' % cls, '%s: %s content changed by a no-op reconfigure' % (name, rel), {'project': name, 'file': rel, 'files': files, 'srcdir': srcdir}))
                elif cls in ('configure-output', 'pkgconfig') and before_s.get(rel) != after_s.get(rel) and files is not None:
                    # (corpus projects may run their own configure-time commands that rewrite files: only generated
                    # projects, whose every configure-time output is meson's own, are held to the mtime clause)
                    res['viol'].append(('C06:noop-reconfigure-touches:%s' % cls, '%s: %s was rewritten (mtime/inode changed) although its content is unchanged' % (name, rel),
                                        {'project': name, 'file': rel, 'files': files, 'srcdir': srcdir, 'before': before_s.get(rel), 'after': after_s.get(rel)}))
                res['compared'] += 1
    finally:
        for s in servers.values():
            s.close()
        shutil.rmtree(root, ignore_errors=True)
    return res


def seed_orders(seeds):
    """how many distinct iteration orders of a probe set of strings the seeds realise (coverage of the order space)"""
    import subprocess
    orders = set()
    for s in seeds:
        out = subprocess.run(['/venv/bin/python', '-c', "print(list({'b_lto','b_pch','b_ndebug','b_staticpic','b_pie','b_asneeded','b_colorout','b_sanitize'}))"],
                             env={'PYTHONHASHSEED': str(s)}, capture_output=True, text=True).stdout
        orders.add(out)
    return len(orders)


def main():
    ck = Check('C06', 'exploration')
    from verif import mesonproc as mp
    seeds = list(range(4)) if not ck.thorough else list(range(16))
    seeds = [(s + ck.seed * 16) for s in seeds]
    if ck.args.replay:
        d = json.load(open(ck.args.replay))
        r = explore((0, d['project'], d.get('files'), d.get('srcdir'), seeds[:4], tuple(d.get('setup_args', [])), True))
        for k, w, _ in r['viol']:
            print(k, w)
        sys.exit(1 if r['viol'] else 0)
    jobs = []
    idx = 0
    jobs.append((idx, 'rich', RICH, None, seeds, (), ck.thorough)); idx += 1
    jobs.append((idx, 'rich-unity-flat', RICH, None, seeds, ('--unity=on', '--layout=flat'), ck.thorough)); idx += 1
    jobs.append((idx, 'nolang', NOLANG, None, seeds, (), True)); idx += 1
    specs = list(pg.enumerate_specs(3))
    pick = [s for i, s in enumerate(specs) if len(s) == 3 and i % (97 if not ck.thorough else 29) == ck.seed % 29]
    for spec in pick:
        r = pg.render(spec, 'sub' if pg.placement_ok(spec, 'sub') else 'root', install=True)
        jobs.append((idx, 'gen:' + r.desc, r.files, None, seeds, (), ck.thorough)); idx += 1
    corpus = []
    for d in sorted(glob.glob(os.path.join(REPO, 'test cases', 'common', '*'))):
        if os.path.isfile(os.path.join(d, 'meson.build')):
            corpus.append(d)
    step = 25 if not ck.thorough else 8
    for i, d in enumerate(corpus):
        if i % step == ck.seed % step:
            jobs.append((idx, 'corpus:' + os.path.basename(d), None, d, seeds, (), ck.thorough)); idx += 1
    tot = {'projects': 0, 'skipped': 0, 'setups': 0, 'files': 0, 'comparisons': 0}
    classes = set()
    for res in pmap(explore, jobs, jobs=min(NCPU, 16 if not ck.thorough else 8), chunksize=1):
        if res['skip']:
            tot['skipped'] += 1
            continue
        tot['projects'] += 1
        tot['setups'] += res['setups']
        tot['files'] += res['files']
        tot['comparisons'] += res['compared']
        classes.add((res['name'].split(':')[0], min(res['files'] // 5, 8)))
        ck.sample({'project': res['name'], 'generated_files_compared': res['files'], 'setups': res['setups']}, cap=6)
        for key, what, rep in res['viol']:
            ck.violation(key, what, rep)
    ck.part('matrix', seeds=len(seeds), distinct_set_orders_realised=seed_orders(seeds), env_orders=len(ENV_ORDERS), dir_orders=len(DIR_ORDERS), **tot)
    ck.require(tot['projects'] >= 5 and tot['comparisons'] > 100, 'too few projects')
    ck.assume('hash-seed independence is decided for the listed seeds only (the seed space cannot be enumerated)')
    ck.assume('mtime/inode stability is required of configure_file outputs and generated .pc files; build.ninja and meson-info/* are only required to keep their content')
    ck.finish(evaluations=tot['setups'], distinct_nontrivial=len(classes),
              rule='per project the full product of %d hash seeds x 3 environ orders x 3 directory-listing orders of fresh setups at identical paths (quick tier: full product for the language-less project, one dimension at a time for the others), plus cross-seed reconfigure and no-op reconfigure histories; '
                   'projects: two hand-written rich projects (pkgconfig, configure_file, install rules, tests, subprojects, options), a language-less one, projgen shapes and corpus projects. '
                   'distinct_nontrivial = distinct (project family, number-of-generated-files bucket)' % len(seeds),
              exhaustive=True)


run_main(main)
