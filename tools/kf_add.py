#!/usr/bin/env python3
"""Append (or update) one entry of known_findings.json atomically (flock), so concurrent editors do not clash.
   tools/kf_add.py <property> <key> <what...>              -> status known
   tools/kf_add.py --fixed <commit> <property> <key> <what...>
   tools/kf_add.py --remove <property> <key>
"""
import fcntl, json, os, sys
P = os.path.join(os.path.dirname(os.path.dirname(os.path.abspath(__file__))), 'known_findings.json')
a = sys.argv[1:]
status, commit, remove = 'known', None, False
if a[0] == '--fixed':
    status, commit, a = 'fixed', a[1], a[2:]
elif a[0] == '--remove':
    remove, a = True, a[1:]
prop, key, what = a[0], a[1], ' '.join(a[2:])
with open(P, 'r+') as f:
    fcntl.flock(f, fcntl.LOCK_EX)
    d = json.load(f)
    d['findings'] = [e for e in d['findings'] if not (e['property'] == prop and e['key'] == key)]
    if not remove:
        e = {'property': prop, 'key': key, 'what': what, 'status': status}
        if commit:
            e['commit'] = commit
        d['findings'].append(e)
    d['findings'].sort(key=lambda e: (e['property'], e['key']))
    f.seek(0); f.truncate()
    json.dump(d, f, indent=1); f.write('\n')
print('ok', status, prop, key)
