# C04 - the generated Ninja manifest is well-formed and closed.
# Every generated project shape (projgen, <= 3 targets) x layout/default_library/unity settings, a negative space
# of colliding target pairs, and the configurable part of the repository's test corpus are configured with the
# real `meson setup`; build.ninja is read by the independent reference reader (refninja) and the invariants of
# the property are evaluated on the parsed graph and on meson-info/intro-*.json.
import glob, itertools, json, os, re, shutil, sys
from verif.core import Check, pmap, run_main, scratch_root, REPO
from verif import projgen as pg, refninja as rn

OPTION_COMBOS = [(l, d, u) for l in ('mirror', 'flat') for d in ('shared', 'static', 'both') for u in ('off', 'on', 'subprojects')]


def check_builddir(bdir):
    """-> (list of (key, what)), stats"""
    v = []
    st = {'edges': 0, 'statements': 0}
    try:
        mf = rn.parse_file(os.path.join(bdir, 'build.ninja'))
    except rn.NinjaError as e:
        return [('C04:not-a-valid-manifest', str(e))], st
    except OSError as e:
        return [('C04:no-manifest', str(e))], st
    st['edges'] = len(mf.edges)
    st['statements'] = mf.statements
    for e in mf.validate(bdir):
        if 'multiple rules generate' in e or 'listed twice' in e:
            v.append(('C04:duplicate-output', e))
        elif 'unknown build rule' in e:
            v.append(('C04:undefined-rule', e))
        elif 'cycle' in e:
            v.append(('C04:cycle', e))
        elif 'missing and no known rule' in e:
            v.append(('C04:dangling-input', e))
        else:
            v.append(('C04:manifest-error', e))
    # reachability
    try:
        targets = json.load(open(os.path.join(bdir, 'meson-info', 'intro-targets.json')))
        tests = json.load(open(os.path.join(bdir, 'meson-info', 'intro-tests.json')))
        tests += json.load(open(os.path.join(bdir, 'meson-info', 'intro-benchmarks.json')))
    except (OSError, ValueError) as e:
        v.append(('C04:no-introspection', str(e)))
        return v, st
    reach_all = mf.reachable_from(['all'])
    reach_test = mf.reachable_from(['meson-test-prereq', 'meson-benchmark-prereq'])
    by_id = {t['id']: t for t in targets}

    def rel(p):
        return rn.canon_path(os.path.relpath(p, bdir)) if os.path.isabs(p) else rn.canon_path(p)
    st['bbd_targets'] = 0
    for t in targets:
        if t.get('type') in ('run', 'alias', 'jar'):
            continue
        outs = [rel(f) for f in t.get('filename', [])]
        # (whether the file names reported by introspection are the ones build.ninja produces is property C15's
        # business; names no statement produces are only counted here)
        st['intro_names_without_statement'] = st.get('intro_names_without_statement', 0) + sum(1 for o in outs if o not in mf.producer)
        if t.get('build_by_default'):
            st['bbd_targets'] += 1
            for o in outs:
                if o in mf.producer and o not in reach_all:
                    v.append(('C04:default-target-not-in-all', 'build_by_default target %s: %s is not reachable from all' % (t['id'], o)))
    st['tests'] = len(tests)
    for t in tests:
        for dep in t.get('depends', []):
            dt = by_id.get(dep)
            if not dt:
                continue
            for f in dt.get('filename', []):
                o = rel(f)
                if o in mf.producer and o not in reach_test:
                    v.append(('C04:test-dependency-not-in-prereq', 'test %s depends on %s (%s), not reachable from meson-test-prereq' % (t['name'], dep, o)))
        cmd0 = t.get('cmd', [None])[0]
        if cmd0 and os.path.isabs(cmd0) and cmd0.startswith(bdir + '/'):
            o = rel(cmd0)
            if o in mf.producer and o not in reach_test:
                v.append(('C04:test-exe-not-in-prereq', 'test %s runs %s, not reachable from meson-test-prereq' % (t['name'], o)))
    return v, st


def judge_setup(res, bdir):
    """uniform oracle: setup either fails with a MesonException or leaves a valid, closed manifest"""
    if res.unhandled or res.rc not in (0, 1):
        return 'crash', [('C04:setup-crashes', 'meson setup died (rc %d): %s' % (res.rc, res.out[-400:]))], {}
    if res.rc == 1:
        return 'rejected', [], {}
    v, st = check_builddir(bdir)
    return 'configured', v, st


def run_generated(job):
    from verif import mesonproc as mp
    idx, spec, placement, odd, combo = job
    root = os.path.join(scratch_root(), 'c04.%d' % os.getpid())
    shutil.rmtree(root, ignore_errors=True)
    r = pg.render(spec, placement, odd_names=odd)
    mp.write_tree(root, r.files)
    args = ['--layout=' + combo[0], '--default-library=' + combo[1], '--unity=' + combo[2]]
    res = mp.run_meson(['setup', 'b'] + args, root)
    outcome, v, st = judge_setup(res, os.path.join(root, 'b'))
    if outcome == 'rejected':
        v = [('C04:INTERNAL-generated-project-rejected', res.out[-300:])]
    shutil.rmtree(root, ignore_errors=True)
    return ('gen', r.desc + ' @' + placement + (' odd' if odd else '') + ' ' + ' '.join(args), outcome, v, st, {'files': r.files, 'args': args})


# ---- negative space: pairs of declarations whose outputs may collide ---------------------------------------
def collision_cases():
    src = {'a.c': 'int main(void){return 0;}\n', 'l.c': 'int f(void){return 1;}\n', 'in.txt': 'x\n', 'sub/b.c': 'int main(void){return 0;}\n', 'sub/l.c': 'int g(void){return 1;}\n'}
    ct = "custom_target('%s', input: 'in.txt', output: '%s', command: ['cp', '@INPUT@', '@OUTPUT@'])"
    decls = {
        'exe_x': "executable('x', 'a.c')",
        'exe_x_again': "executable('x', 'a.c', c_args: '-DY')",
        'exe_sub_x': None,   # placed in sub/
        'ct_out_x': ct % ('ctx', 'x'),
        'ct_named_x_out_y': ct % ('x', 'y.txt'),
        'ct2_out_x': ct % ('ctx2', 'x'),
        'ct_out_libfoo_a': ct % ('cta', 'libfoo.a'),
        'ct_out_libfoo_so': ct % ('ctso', 'libfoo.so'),
        'ct_out_libfoo_so_1': ct % ('ctso1', 'libfoo.so.1'),
        'ct_out_libfoo_so_123': ct % ('ctso123', 'libfoo.so.1.2.3'),
        'static_foo': "static_library('foo', 'l.c')",
        'shared_foo': "shared_library('foo', 'l.c')",
        'shared_foo_versioned': "shared_library('foo', 'l.c', version: '1.2.3', soversion: '1')",
        'both_foo': "both_libraries('foo', 'l.c')",
        'run_x': "run_target('x', command: ['true'])",
        'alias_x': "alias_target('x', custom_target('dep_for_alias', input: 'in.txt', output: 'dfa.txt', command: ['cp', '@INPUT@', '@OUTPUT@']))",
        'ct_two_outputs_same': "custom_target('two', input: 'in.txt', output: ['o.txt', 'o.txt'], command: ['cp', '@INPUT@', '@OUTPUT0@'])",
        # the colliding name in each position of a statement with several outputs
        'ct_multi_x_first': "custom_target('m1', input: 'in.txt', output: ['x', 'm1b.txt', 'm1c.txt'], command: ['cp', '@INPUT@', '@OUTPUT0@'])",
        'ct_multi_x_mid': "custom_target('m2', input: 'in.txt', output: ['m2a.txt', 'x', 'm2c.txt'], command: ['cp', '@INPUT@', '@OUTPUT0@'])",
        'ct_multi_x_last': "custom_target('m3', input: 'in.txt', output: ['m3a.txt', 'm3b.txt', 'x'], command: ['cp', '@INPUT@', '@OUTPUT0@'])",
        'cfg_out_x': "configure_file(input: 'in.txt', output: 'x', copy: true)",
        # a custom target that reads a configured file and writes to the same path / a custom target whose output is its own input
        'ct_rewrites_cfg_x': "custom_target('rw', input: configure_file(input: 'in.txt', output: 'x', copy: true), output: 'x', command: ['cp', '@INPUT@', '@OUTPUT@'])",
        'ct_out_is_own_source_input': "custom_target('self', input: 'in.txt', output: 'in.txt', command: ['cp', '@INPUT@', '@OUTPUT@'])",
        'ct_chain_cycle': "c1 = custom_target('c1', input: 'in.txt', output: 'c1.txt', command: ['cp', '@INPUT@', '@OUTPUT@'])\n"
                          "custom_target('c2', input: c1, output: 'c1.txt', command: ['cp', '@INPUT@', '@OUTPUT@'])",
        'ct_out_x_p': ct % ('ctxp', 'x.p'),
        'ct_out_build_ninja': ct % ('ctbn', 'build.ninja'),
        'ct_out_meson_private': ct % ('ctmp', 'meson-private'),
    }
    for fn in ['all', 'test', 'benchmark', 'install', 'uninstall', 'clean', 'dist', 'reconfigure', 'meson-test-prereq', 'PHONY', 'build.ninja', 'scan-build', 'coverage', 'clean-ctlist']:
        decls['exe_named_' + fn] = "executable('%s', 'a.c')" % fn
        decls['ct_named_' + fn] = ct % (fn, 'o_%s.txt' % fn.replace('-', '_').replace('.', '_'))
        decls['ct_out_' + fn] = ct % ('ct_' + fn.replace('-', '_').replace('.', '_'), fn)
        decls['run_named_' + fn] = "run_target('%s', command: ['true'])" % fn
    names = sorted(decls)
    cases = []
    for n in names:
        if decls[n] is not None:
            cases.append((n, [decls[n]], [], 'mirror'))
    pairs = [('exe_x', 'exe_x_again'), ('exe_x', 'ct_out_x'), ('exe_x', 'ct_named_x_out_y'), ('ct_out_x', 'ct2_out_x'), ('static_foo', 'ct_out_libfoo_a'),
             ('shared_foo', 'ct_out_libfoo_so'), ('shared_foo_versioned', 'ct_out_libfoo_so_1'), ('shared_foo_versioned', 'ct_out_libfoo_so_123'),
             ('shared_foo_versioned', 'ct_out_libfoo_so'), ('static_foo', 'shared_foo'), ('both_foo', 'static_foo'), ('both_foo', 'shared_foo'),
             ('both_foo', 'ct_out_libfoo_a'), ('exe_x', 'run_x'), ('exe_x', 'alias_x'), ('run_x', 'ct_out_x'), ('run_x', 'alias_x'), ('exe_x', 'cfg_out_x'),
             ('ct_out_x', 'cfg_out_x'), ('exe_x', 'ct_out_x_p'),
             ('ct_out_x', 'ct_multi_x_first'), ('ct_out_x', 'ct_multi_x_mid'), ('ct_out_x', 'ct_multi_x_last'),
             ('exe_x', 'ct_multi_x_first'), ('exe_x', 'ct_multi_x_mid'), ('exe_x', 'ct_multi_x_last'),
             ('ct_multi_x_first', 'ct_multi_x_mid'), ('ct_multi_x_mid', 'ct_multi_x_last'), ('ct_multi_x_first', 'ct_multi_x_last'), ('run_x', 'ct_named_x_out_y'), ('alias_x', 'ct_named_x_out_y'), ('alias_x', 'ct_out_x')]
    for a, b in pairs:
        for x, y in ((a, b), (b, a)):
            cases.append(('%s+%s' % (x, y), [decls[x], decls[y]], [], 'mirror'))
    # same output name in root and in sub/, mirror (fine) and flat (collides)
    for layout in ('mirror', 'flat'):
        cases.append(('exe_x+exe_sub_x/' + layout, ["executable('x', 'a.c')", "subdir('sub')"], ["executable('x', 'b.c')"], layout))
        cases.append(('exe_x+ct_sub_out_x/' + layout, ["executable('x', 'a.c')", "subdir('sub')"], [ct.replace("'in.txt'", "'../in.txt'") % ('ctsub', 'x')], layout))
        cases.append(('static_foo+sub_static_foo/' + layout, ["static_library('foo', 'l.c')", "subdir('sub')"], ["static_library('foo', 'l.c')"], layout))
        cases.append(('ct_out+sub_ct_out/' + layout, [ct % ('c1', 'o.txt'), "subdir('sub')"], [ct.replace("'in.txt'", "'../in.txt'") % ('c2', 'o.txt')], layout))
        cases.append(('exe_sub_slash/' + layout, ["subdir('sub')", ct % ('c3', 'sub_x')], ["executable('x', 'b.c')"], layout))
    return src, cases


def run_collision(job):
    from verif import mesonproc as mp
    idx, name, rootdecls, subdecls, layout, src = job
    root = os.path.join(scratch_root(), 'c04n.%d' % os.getpid())
    shutil.rmtree(root, ignore_errors=True)
    files = dict(src)
    files['meson.build'] = "project('neg', 'c')\n" + '\n'.join(rootdecls) + '\n'
    files['sub/meson.build'] = '\n'.join(subdecls) + '\n'
    mp.write_tree(root, files)
    res = mp.run_meson(['setup', 'b', '--layout=' + layout], root)
    outcome, v, st = judge_setup(res, os.path.join(root, 'b'))
    shutil.rmtree(root, ignore_errors=True)
    return ('neg', name, outcome, v, st, {'files': files, 'args': ['--layout=' + layout]})


# ---- corpus -----------------------------------------------------------------------------------------------------
def corpus_dirs():
    out = []
    for grp in ('common', 'unit', 'native', 'linuxlike'):
        for d in sorted(glob.glob(os.path.join(REPO, 'test cases', grp, '*'))):
            if os.path.isfile(os.path.join(d, 'meson.build')):
                out.append(d)
    return out


def run_corpus(job):
    from verif import mesonproc as mp
    idx, d = job
    root = os.path.join(scratch_root(), 'c04c.%d' % os.getpid())
    shutil.rmtree(root, ignore_errors=True)
    shutil.copytree(d, os.path.join(root, 'src'), symlinks=True)
    args = []
    tj = os.path.join(d, 'test.json')
    res = mp.run_meson(['setup', os.path.join(root, 'b'), os.path.join(root, 'src')] + args, root, timeout=60)
    if res.rc == 124 or res.signaled:
        outcome, v, st = 'timeout', [], {}
    else:
        outcome, v, st = judge_setup(res, os.path.join(root, 'b'))
        if outcome == 'crash' and ('MESON_SKIP_TEST' in res.out):
            outcome, v = 'rejected', []
    shutil.rmtree(root, ignore_errors=True)
    return ('corpus', os.path.relpath(d, REPO), outcome, v, st, {'dir': d})


# ---- unity builds: number of sources x unity_size x ways in which another target consumes the objects -------------
def unity_cases():
    """(number of C sources, unity_size, how the objects are consumed, with an assembly source): assembly is a source a C target may
    list but that cannot be #included into a unity file"""
    out = []
    for n in range(1, 10):
        for usize in (2, 4):
            for how in ('both', 'extract_all', 'extract_one', 'whole'):
                out.append((n, usize, how, False))
    for n in (0, 1, 2, 5):
        for usize in (2, 4):
            for how in ('both', 'extract_all', 'extract_one', 'whole'):
                out.append((n, usize, how, True))
    return out


def run_unity(job):
    from verif import mesonproc as mp
    idx, n, usize, how, asm = job
    root = os.path.join(scratch_root(), 'c04u.%d' % os.getpid())
    shutil.rmtree(root, ignore_errors=True)
    files = {'main.c': 'int f0(void); int main(void) { return f0(); }\n' if n else 'int main(void) { return 0; }\n'}
    for i in range(n):
        files['s%d.c' % i] = 'int f%d(void) { return %d; }\n' % (i, i)
    names = ['s%d.c' % i for i in range(n)]
    if asm:
        files['a.S'] = '\t.text\n\t.globl fa\nfa:\n\tret\n'
        names.insert(n // 2, 'a.S')
    srcs = ', '.join("'%s'" % x for x in names)
    L = ["project('u', 'c')"]
    if how == 'both':
        L.append("lib = both_libraries('foo', %s)" % srcs)
        L.append("executable('app', 'main.c', link_with: lib)")
    elif how == 'extract_all':
        L.append("lib = static_library('foo', %s)" % srcs)
        L.append("executable('app', 'main.c', objects: lib.extract_all_objects(recursive: false))")
    elif how == 'extract_one':
        L.append("lib = static_library('foo', %s)" % srcs)
        L.append("executable('app', 'main.c', objects: lib.extract_objects(%s))" % srcs)
    else:
        L.append("lib = static_library('foo', %s)" % srcs)
        L.append("shared_library('bar', 'main.c', link_whole: lib)")
    files['meson.build'] = '\n'.join(L) + '\n'
    mp.write_tree(root, files)
    args = ['-Dunity=on', '-Dunity_size=%d' % usize]
    res = mp.run_meson(['setup', 'b'] + args, root)
    outcome, v, st = judge_setup(res, os.path.join(root, 'b'))
    shutil.rmtree(root, ignore_errors=True)
    if asm:
        # name the input class: a unity build of a target that has an assembly source
        v = [(k + ':unity:assembly-source:' + how if k == 'C04:dangling-input' else k, w) for k, w in v]
        st['unity_asm'] = 1
        st['unity_asm_configured'] = int(outcome == 'configured')
    return ('unity', 'n=%d%s unity_size=%d %s' % (n, '+a.S' if asm else '', usize, how), outcome, v, st, {'files': files, 'args': args})


# ---- tests: every way a test can reach something that must be built, in every position ---------------------------------
TEST_FORMS = ['exe', 'custom', 'index', 'found', 'found-sub', 'both']
TEST_POSITIONS = ['program', 'args', 'depends', 'args-nested']


def tests_project(kind='test'):
    """One test per (form, position): the referenced target is used by that test only and is not built by default, so
    nothing else puts it into meson-test-prereq.  forms: an executable, a custom target, an indexed custom target,
    an executable found again through find_program() after meson.override_find_program() (same project / exported
    by a subproject), a both_libraries() object."""
    L = ["project('tp', 'c')", "sh = find_program('sh')", "subproject('tools')"]
    files = {'main.c': 'int main(void) { return 0; }\n', 'lib.c': 'int tp_f(void) { return 1; }\n',
             'subprojects/tools/main.c': 'int main(void) { return 0; }\n'}
    S = ["project('tools', 'c')"]
    n = 0
    for form in TEST_FORMS:
        for pos in TEST_POSITIONS:
            if form in ('custom', 'index', 'both') and pos == 'program':
                continue            # a test program is an executable (custom targets are accepted too, but must be runnable)
            t = 'r%d' % n
            n += 1
            if form == 'exe':
                L.append("%s = executable('%s', 'main.c', build_by_default: false)" % (t, t))
                ref = t
            elif form == 'custom':
                L.append("%s = custom_target('%s', output: '%s.txt', command: [sh, '-c', 'echo x > \"$0\"', '@OUTPUT@'], build_by_default: false)" % (t, t, t))
                ref = t
            elif form == 'index':
                L.append("%s = custom_target('%s', output: ['%s_a.txt', '%s_b.txt'], command: [sh, '-c', 'echo x > \"$0\"; echo y > \"$1\"', '@OUTPUT0@', '@OUTPUT1@'], build_by_default: false)" % (t, t, t, t))
                ref = t + '[1]'
            elif form == 'found':
                L.append("%s_e = executable('%s', 'main.c', build_by_default: false)" % (t, t))
                L.append("meson.override_find_program('%s-tool', %s_e)" % (t, t))
                L.append("%s = find_program('%s-tool')" % (t, t))
                ref = t
            elif form == 'found-sub':
                S.append("%s_e = executable('%s', 'main.c', build_by_default: false)" % (t, t))
                S.append("meson.override_find_program('%s-tool', %s_e)" % (t, t))
                L.append("%s = find_program('%s-tool')" % (t, t))
                ref = t
            else:
                L.append("%s = both_libraries('%s', 'lib.c', build_by_default: false)" % (t, t))
                ref = t
            runner = "executable('run_%s', 'main.c')" % t
            call = 'benchmark' if kind == 'benchmark' else 'test'
            if pos == 'program':
                L.append("%s('t_%s', %s)" % (call, t, ref))
            elif pos == 'args':
                L.append("%s('t_%s', %s, args: ['--x', %s])" % (call, t, runner, ref))
            elif pos == 'args-nested':
                L.append("%s('t_%s', %s, args: [['--x', [%s]], 'tail'])" % (call, t, runner, ref))
            else:
                if form in ('found', 'found-sub'):
                    ref_dep = ref
                else:
                    ref_dep = ref
                L.append("%s('t_%s', %s, depends: [%s])" % (call, t, runner, ref_dep))
    files['meson.build'] = '\n'.join(L) + '\n'
    files['subprojects/tools/meson.build'] = '\n'.join(S) + '\n'
    return files


def run_tests_family(job):
    from verif import mesonproc as mp
    idx, kind = job
    root = os.path.join(scratch_root(), 'c04t.%d' % os.getpid())
    shutil.rmtree(root, ignore_errors=True)
    files = tests_project(kind)
    mp.write_tree(root, files)
    res = mp.run_meson(['setup', 'b'], root)
    outcome, v, st = judge_setup(res, os.path.join(root, 'b'))
    if outcome == 'configured':
        # the family is only meaningful if introspection names the dependencies of (nearly) every test
        tests = json.load(open(os.path.join(root, 'b', 'meson-info', 'intro-%ss.json' % kind)))
        st['tests_with_depends'] = sum(1 for t in tests if t.get('depends'))
    shutil.rmtree(root, ignore_errors=True)
    return ('tests', kind, outcome, v, st, {'files': files, 'args': []})


# ---- one generator.process() result, several consumers --------------------------------------------------------------------
GEN_CONSUMERS = ['exe', 'lib', 'ct-input', 'ct-arg']


def genshare_cases():
    out = []
    for n in (2, 3):
        for seq in itertools.product(GEN_CONSUMERS, repeat=n):
            out.append(seq)
    return out


def run_genshare(job):
    """The rules of a generated list live in the private directory of each consumer: every consumer, in every order, must get its own
    producing statements (oracle: the manifest is closed - every input exists or is produced)."""
    from verif import mesonproc as mp
    idx, seq = job
    root = os.path.join(scratch_root(), 'c04g.%d' % os.getpid())
    shutil.rmtree(root, ignore_errors=True)
    L = ["project('gs', 'c')", "cp = find_program('cp')",
         "gen = generator(cp, output: '@BASENAME@.c', arguments: ['@INPUT@', '@OUTPUT@'])",
         "g = gen.process('tables.in', 'more.in')"]
    files = {'tables.in': 'int tables(void) { return 1; }\n', 'more.in': 'int more(void) { return 2; }\n',
             'main.c': 'int main(void) { return 0; }\n', 'lib.c': 'int libf(void) { return 3; }\n'}
    for i, kind in enumerate(seq):
        if kind == 'exe':
            L.append("executable('e%d', 'main.c', g)" % i)
        elif kind == 'lib':
            L.append("static_library('l%d', 'lib.c', g)" % i)
        elif kind == 'ct-input':
            L.append("custom_target('c%d', input: g, output: 'c%d.txt', command: [cp, '@INPUT0@', '@OUTPUT@'])" % (i, i))
        else:
            L.append("custom_target('c%d', output: 'c%d.txt', command: [cp, g, '@OUTPUT@'])" % (i, i))
    files['meson.build'] = '\n'.join(L) + '\n'
    mp.write_tree(root, files)
    res = mp.run_meson(['setup', 'b'], root)
    outcome, v, st = judge_setup(res, os.path.join(root, 'b'))
    shutil.rmtree(root, ignore_errors=True)
    return ('genshare', ' -> '.join(seq), outcome, v, st, {'files': files, 'args': []})


# ---- statements above and below the response-file threshold on the same rules --------------------------------------------
def run_rspmix(job):
    """One long and one short statement for each of the compile, link and static-link rules: both rule variants (NAME and
    NAME_RSP) must be defined."""
    from verif import mesonproc as mp
    idx, = job
    root = os.path.join(scratch_root(), 'c04r.%d' % os.getpid())
    shutil.rmtree(root, ignore_errors=True)
    files = {'main.c': 'int main(void) { return 0; }\n', 'small.c': 'int small(void) { return 1; }\n'}
    nsrc = 700
    for i in range(nsrc):
        files['big/s%d.c' % i] = 'int big_%d(void) { return %d; }\n' % (i, i)
    big = ', '.join("'-DBIG%d=%s'" % (i, 'x' * 60) for i in range(400))
    bigl = ', '.join("'-Wl,--defsym=big%d=%d'" % (i, i) for i in range(1500))
    L = ["project('rm', 'c')",
         "biglib = static_library('biglib', %s)" % ', '.join("'big/s%d.c'" % i for i in range(nsrc)),
         "smalllib = static_library('smalllib', 'small.c')",
         "executable('bigargs', 'main.c', c_args: [%s], link_args: [%s])" % (big, bigl),
         "executable('smallexe', 'main.c', link_with: smalllib)",
         "shared_library('bigshared', 'small.c', link_whole: biglib)"]
    files['meson.build'] = '\n'.join(L) + '\n'
    mp.write_tree(root, files)
    res = mp.run_meson(['setup', 'b'], root, timeout=600)
    outcome, v, st = judge_setup(res, os.path.join(root, 'b'))
    if outcome == 'configured':
        txt = open(os.path.join(root, 'b', 'build.ninja')).read()
        st['rsp_rules'] = len(re.findall(r'^rule \w+_RSP$', txt, re.M))
        if st['rsp_rules'] < 3:
            v.append(('C04:INTERNAL', 'rspmix project did not reach the response-file threshold for 3 rules (%d)' % st['rsp_rules']))
    shutil.rmtree(root, ignore_errors=True)
    files = {k: v_ for k, v_ in files.items() if not k.startswith('big/')}
    return ('rspmix', 'rspmix', outcome, v, st, {'files': files, 'args': []})


# ---- an optional subproject that fails after it declared things -----------------------------------------------------------
# "subproject(required: false)" that fails is as if it had never been called: nothing it declared before the failure may be
# left in the manifest or in the introspection data (a test without its executable leaves a dangling input behind).
FAILSUB_THINGS = {
    'exe+test': "e = executable('opt_selftest', 'o.c')\ntest('opt-selftest', e)",
    'exe+benchmark': "eb = executable('opt_bench', 'o.c')\nbenchmark('opt-bench', eb)",
    'ct': "custom_target('opt_ct', output: 'opt_ct.txt', command: [cp, files('o.c'), '@OUTPUT@'], build_by_default: true)",
    'ct+test-depends': "c2 = custom_target('opt_ct2', output: 'opt_ct2.txt', command: [cp, files('o.c'), '@OUTPUT@'])\ntest('opt-uses-ct', cp, args: ['--version'], depends: c2)",
    'lib-installed': "static_library('opt_lib', 'o.c', install: true)",
    'install-data': "install_data('o.c', install_dir: 'share/opt')",
    'run-target': "run_target('opt_run', command: [cp, '--version'])",
    'alias': "ea = executable('opt_aliased', 'o.c', build_by_default: false)\nalias_target('opt_alias', ea)",
    'install-script': "meson.add_install_script(cp, '--version')",
    'generator': "g = generator(cp, output: '@BASENAME@.gen.c', arguments: ['@INPUT@', '@OUTPUT@'])\nexecutable('opt_gen', g.process('o.c'))",
}
FAILSUB_FAIL = {'error': "error('giving up')", 'missing-dependency': "dependency('verif-no-such-dependency')",
                'failing-nested-subproject': "subproject('nosuchsub')"}


def failsub_cases(thorough):
    names = list(FAILSUB_THINGS)
    cases = [((a,), f) for a in names for f in FAILSUB_FAIL]
    if thorough:
        cases += [((a, b), f) for a in names for b in names if a != b for f in ('error', 'missing-dependency')]
    else:
        cases += [((a, names[(i + 3) % len(names)]), 'missing-dependency') for i, a in enumerate(names)]
    return cases


def run_failsub(job):
    from verif import mesonproc as mp
    idx, things, fail = job
    root = os.path.join(scratch_root(), 'c04f.%d' % os.getpid())
    shutil.rmtree(root, ignore_errors=True)
    sub = ["project('opt', 'c')", "cp = find_program('cp')"] + [FAILSUB_THINGS[t] for t in things] + [FAILSUB_FAIL[fail], "executable('opt_late', 'o.c')"]
    files = {'meson.build': "project('main', 'c')\no = subproject('opt', required: false)\nassert(not o.found())\n"
                            "app = executable('app', 'main.c')\ntest('app-runs', app)\nbenchmark('app-bench', app)\n",
             'main.c': 'int main(void) { return 0; }\n',
             'subprojects/opt/meson.build': '\n'.join(sub) + '\n', 'subprojects/opt/o.c': 'int main(void) { return 0; }\n'}
    mp.write_tree(root, files)
    res = mp.run_meson(['setup', 'b'], root)
    bdir = os.path.join(root, 'b')
    outcome, v, st = judge_setup(res, bdir)
    if outcome == 'rejected':
        v.append(('C04:failsub:setup-fails', 'the failing subproject is optional, yet meson setup fails: ' + res.out[-300:]))
    elif outcome == 'configured':
        txt = open(os.path.join(bdir, 'build.ninja')).read()
        left = sorted(set(re.findall(r'[^\s:|]*(?:subprojects/opt|opt_)[^\s:|]*', txt)))
        # the build-definition files the manifest regenerates on are existing source files: which of them are listed is C15's
        # business (a failed subproject's meson.build HAS been read); a leftover is a name that only building could create
        left = [x for x in left if not os.path.isfile(os.path.normpath(os.path.join(bdir, x.replace('$ ', ' '))))]
        if left:
            v.append(('C04:failsub:left-in-manifest', 'build.ninja still names %s of the subproject that failed' % left[:6]))
        for f in ('intro-targets.json', 'intro-tests.json', 'intro-benchmarks.json', 'intro-installed.json', 'intro-install_plan.json'):
            try:
                blob = open(os.path.join(bdir, 'meson-info', f)).read()
            except OSError:
                continue
            if 'opt_' in blob or 'opt-' in blob or 'subprojects/opt' in blob:
                v.append(('C04:failsub:left-in-introspection:' + f, '%s still names something of the subproject that failed' % f))
    shutil.rmtree(root, ignore_errors=True)
    return ('failsub', '%s then %s' % ('+'.join(things), fail), outcome, v, st, {'files': files, 'args': [], 'failsub': [list(things), fail]})


# ---- every linkable target kind linked into every consuming kind, through every link relation ----------------------------
LINK_PROVIDERS = ['static_library', 'shared_library', 'both_libraries', 'library', 'shared_module']
LINK_CONSUMERS = ['executable', 'shared_library', 'static_library', 'shared_module', 'both_libraries']
LINK_RELATIONS = ['link_with', 'link_whole', 'dependency', 'dependency-whole', 'objects', 'transitive']


LINK_LANGS = [(a, b, c) for a in 'cf' for b in 'cf' for c in 'cf']       # language of (provider, middle library, consumer): C / Fortran


def linkkinds_cases(thorough):
    combos = [(l, d) for l in ('mirror', 'flat') for d in ('shared', 'static', 'both')]
    out = []
    for pi, p in enumerate(LINK_PROVIDERS):
        for qi, q in enumerate(LINK_CONSUMERS):
            for ri, r in enumerate(LINK_RELATIONS):
                for ci, c in enumerate(combos):
                    if thorough or (pi + qi + ri) % len(combos) == ci:
                        # languages: all-C always; thorough every assignment, quick one more (rotating) - Fortran targets bring the
                        # dependency-scanner statements (depscan / depaccumulate) whose inputs come from the linked targets
                        langs = LINK_LANGS if thorough else [LINK_LANGS[0], LINK_LANGS[1 + (pi * 7 + qi * 3 + ri) % 7]]
                        for lg in langs:
                            if r != 'transitive' and lg[1] == 'f':
                                continue                      # no middle library in this relation
                            out.append((p, q, r, c, lg))
    return out


def run_linkkinds(job):
    """A consumer's link statement names files of the provider (the library, its symbol file, its import names): each of them must be
    produced by a statement whatever the two kinds are.  meson may refuse a combination (link_whole of a shared library): that is a
    rejection, not a violation."""
    from verif import mesonproc as mp
    idx, p, q, r, (layout, deflib), lg = job
    root = os.path.join(scratch_root(), 'c04k.%d' % os.getpid())
    shutil.rmtree(root, ignore_errors=True)
    files = {'p.c': 'int pf(void) { return 1; }\n', 'mid.c': 'int pf(void); int mid(void) { return pf(); }\n',
             'q.c': 'int pf(void); int main(void) { return pf() - 1; }\n',
             'p.f90': 'function pf() result(r)\n  integer :: r\n  r = 1\nend function pf\n',
             'mid.f90': 'function mid() result(r)\n  integer :: r\n  r = 2\nend function mid\n',
             'q.f90': 'program q\n  print *, 1\nend program q\n'}
    ext = {'c': '.c', 'f': '.f90'}
    L = ["project('lk', 'c'%s)" % (", 'fortran'" if 'f' in lg else ''), "subdir('prov')"]
    P = ["p = %s('prov lib', '../p%s')" % (p, ext[lg[0]])]
    how = {'link_with': 'link_with: p', 'link_whole': 'link_whole: p', 'dependency': 'dependencies: declare_dependency(link_with: p)',
           'dependency-whole': 'dependencies: declare_dependency(link_whole: p)', 'objects': 'objects: p.extract_all_objects(recursive: true)',
           'transitive': 'link_with: mid'}[r]
    if r == 'transitive':
        P.append("mid = static_library('mid', '../mid%s', link_with: p)" % ext[lg[1]])
    L.append("c = %s('cons', 'q%s', %s)" % (q, ext[lg[2]], how))
    L.append("test('runs', c)" if q == 'executable' else "executable('user', 'q%s', link_with: c)" % ext[lg[2]])
    files['meson.build'] = '\n'.join(L) + '\n'
    files['prov/meson.build'] = '\n'.join(P) + '\n'
    mp.write_tree(root, files)
    args = ['--layout=' + layout, '-Ddefault_library=' + deflib]
    res = mp.run_meson(['setup', 'b'] + args, root)
    outcome, v, st = judge_setup(res, os.path.join(root, 'b'))
    shutil.rmtree(root, ignore_errors=True)
    return ('linkkinds', '%s <-%s- %s [%s %s, languages %s]' % (q, r, p, layout, deflib, '/'.join(lg)), outcome, v, st, {'files': files, 'args': args})


# ---- things placed with build_subdir:, consumed in every position ----------------------------------------------------------
BSUB_PROVIDERS = {
    'configure_file': "x = configure_file(output: 'x.h', configuration: {'A': 1}, build_subdir: 'bs')",
    'executable': "x = executable('xprog', @MAIN@, build_subdir: 'bs')",
    'static_library': "x = static_library('xl', @LIB@, build_subdir: 'bs')",
    'shared_library': "x = shared_library('xs', @LIB@, build_subdir: 'bs')",
    'custom_target': "x = custom_target('xc', output: 'xc.txt', command: [cp, @LIB@, '@OUTPUT@'], build_subdir: 'bs')",
    'custom_target-2': "x = custom_target('xd', output: ['xd1.txt', 'xd2.txt'], command: [cp, @LIB@, @MAIN@, '@OUTDIR@'], build_subdir: 'bs')[1]",
}
# the same custom targets without build_subdir: (the flat layout moves them as well)
BSUB_PROVIDERS['custom_target-plain'] = BSUB_PROVIDERS['custom_target'].replace(", build_subdir: 'bs'", '')
BSUB_PROVIDERS['custom_target-2-plain'] = BSUB_PROVIDERS['custom_target-2'].replace(", build_subdir: 'bs'", '')
BSUB_CONSUMERS = {
    'ct-input': "custom_target('u', input: x, output: 'u.txt', command: [cp, '@INPUT@', '@OUTPUT@'], build_by_default: true)",
    'ct-arg': "custom_target('u', output: 'u.txt', command: [cp, x, '@OUTPUT@'], build_by_default: true)",
    'ct-depends': "custom_target('u', output: 'u.txt', command: [cp, @LIB@, '@OUTPUT@'], depends: x, build_by_default: true)",
    'ct-depend_files': "custom_target('u', output: 'u.txt', command: [cp, @LIB@, '@OUTPUT@'], depend_files: x, build_by_default: true)",
    'test-program': "test('t', x)",
    'test-arg': "test('t', cp, args: ['--version', x])",
    'link_with': "executable('u', @MAIN@, link_with: x)",
    'source': "executable('u', @MAIN@, x)",
    'run_target': "run_target('r', command: [cp, x, 'copy'])",
    'generator': "executable('u', @MAIN@, generator(cp, output: '@BASENAME@.gen.h', arguments: ['@INPUT@', '@OUTPUT@']).process(x))",
    'alias': "alias_target('al', x)",
    'preprocess-depends': "meson.get_compiler('c').preprocess(@MAIN@, depends: x, output: '@PLAINNAME@.i')",
}
BSUB_OK = {   # which consumer positions accept which provider (the others are type errors of the build definition)
    'configure_file': ['ct-input', 'ct-arg', 'ct-depend_files', 'test-arg', 'source', 'run_target', 'generator'],
    'executable': ['ct-input', 'ct-arg', 'ct-depends', 'test-program', 'test-arg', 'run_target', 'alias'],
    'static_library': ['ct-input', 'ct-arg', 'ct-depends', 'test-arg', 'link_with', 'run_target', 'alias'],
    'shared_library': ['ct-input', 'ct-arg', 'ct-depends', 'test-arg', 'link_with', 'run_target', 'alias'],
    'custom_target': ['ct-input', 'ct-arg', 'ct-depends', 'test-arg', 'run_target', 'generator', 'alias', 'preprocess-depends'],
    'custom_target-2': ['ct-input', 'ct-arg', 'test-arg', 'run_target', 'generator'],
    'custom_target-plain': ['ct-input', 'ct-arg', 'ct-depends', 'test-arg', 'run_target', 'generator', 'alias', 'preprocess-depends'],
    'custom_target-2-plain': ['ct-input', 'ct-arg', 'test-arg', 'run_target', 'generator'],
}


def bsub_cases(thorough):
    out = []
    i = 0
    for p, cons in BSUB_OK.items():
        for c in cons:
            for li, layout in enumerate(('mirror', 'flat')):
                for pi, place in enumerate(('root', 'subdir', 'split')):
                    i += 1
                    if thorough or (i % 3 == 0):
                        out.append((p, c, layout, place))
    return out


def run_bsub(job):
    """build_subdir: moves an output into a sub-directory of the build directory; every statement that consumes the thing must name
    the file where its producing statement (or configuration) puts it."""
    from verif import mesonproc as mp
    idx, p, c, layout, place = job
    root = os.path.join(scratch_root(), 'c04b.%d' % os.getpid())
    shutil.rmtree(root, ignore_errors=True)
    files = {'main.c': 'int main(void) { return 0; }\n', 'lib.c': 'int libf(void) { return 3; }\n'}
    head = ["project('bs', 'c')", "cp = find_program('cp')"]
    def at(text, up):
        return text.replace('@LIB@', "files('%slib.c')" % up).replace('@MAIN@', "files('%smain.c')" % up)
    prov = at(BSUB_PROVIDERS[p], '' if place == 'root' else '../')
    cons = at(BSUB_CONSUMERS[c], '../' if place == 'subdir' else '')
    if place == 'root':
        files['meson.build'] = '\n'.join(head + [prov, cons]) + '\n'
    elif place == 'subdir':
        files['meson.build'] = '\n'.join(head + ["subdir('d')"]) + '\n'
        files['d/meson.build'] = '\n'.join([prov, cons]) + '\n'
    else:
        files['meson.build'] = '\n'.join(head + ["subdir('d')", cons]) + '\n'
        files['d/meson.build'] = prov + '\n'
    mp.write_tree(root, files)
    args = ['--layout=' + layout]
    res = mp.run_meson(['setup', 'b'] + args, root)
    outcome, v, st = judge_setup(res, os.path.join(root, 'b'))
    if outcome != 'configured' and not v:
        v.append(('C04:INTERNAL', 'build_subdir project rejected: ' + res.out[-300:]))
    if layout == 'flat' and p.startswith('custom_target'):
        # name the input class: under --layout=flat a custom target's output handed to <position> is looked for where the mirror
        # layout would put it
        v = [((k + ':flat-layout:custom-target-output-as-' + c) if k == 'C04:dangling-input' else k, w) for k, w in v]
    shutil.rmtree(root, ignore_errors=True)
    return ('bsubdir', '%s consumed as %s [%s, %s]' % (p, c, layout, place), outcome, v, st, {'files': files, 'args': args})


# ---- alias targets over run targets, aliases and custom targets, at the top level and inside (nested) subprojects ------------
ALIAS_DEPS = {'run': 'r', 'alias': 'a0', 'custom': 'c', 'alias-of-run': 'a1'}
ALIAS_PLACES = ['top', 'subproject', 'nested-subproject', 'subdir-of-subproject']


def aliasrun_cases():
    out = []
    names = sorted(ALIAS_DEPS)
    for n in (1, 2, 3):
        for deps in itertools.combinations(names, n):
            for place in ALIAS_PLACES:
                out.append((deps, place))
    return out


def run_aliasrun(job):
    """A phony statement's inputs are names of other statements: the name an alias uses for a run target (or another alias) must be the
    name that target's own statement has - which carries the subproject's name as a prefix."""
    from verif import mesonproc as mp
    idx, deps, place = job
    root = os.path.join(scratch_root(), 'c04a.%d' % os.getpid())
    shutil.rmtree(root, ignore_errors=True)
    body = ["c = custom_target('c_out', output: 'c_out.txt', command: ['touch', '@OUTPUT@'])",
            "r = run_target('runme', command: ['true'])", "a0 = alias_target('a_zero', c)", "a1 = alias_target('a_one', r)",
            "alias_target('the_alias', %s)" % ', '.join(ALIAS_DEPS[d] for d in deps)]
    files = {}
    if place == 'top':
        files['meson.build'] = '\n'.join(["project('ar')"] + body) + '\n'
    elif place == 'subproject':
        files['meson.build'] = "project('ar')\nsubproject('sp')\n"
        files['subprojects/sp/meson.build'] = '\n'.join(["project('sp')"] + body) + '\n'
    elif place == 'nested-subproject':
        files['meson.build'] = "project('ar')\nsubproject('outer')\n"
        files['subprojects/outer/meson.build'] = "project('outer')\nsubproject('sp')\n"
        files['subprojects/sp/meson.build'] = '\n'.join(["project('sp')"] + body) + '\n'
    else:
        files['meson.build'] = "project('ar')\nsubproject('sp')\n"
        files['subprojects/sp/meson.build'] = "project('sp')\nsubdir('d')\n"
        files['subprojects/sp/d/meson.build'] = '\n'.join(body) + '\n'
    mp.write_tree(root, files)
    res = mp.run_meson(['setup', 'b'], root)
    outcome, v, st = judge_setup(res, os.path.join(root, 'b'))
    if outcome != 'configured' and not v:
        v.append(('C04:INTERNAL', 'alias project rejected: ' + res.out[-300:]))
    shutil.rmtree(root, ignore_errors=True)
    return ('aliasrun', 'alias_target(%s) @%s' % (', '.join(deps), place), outcome, v, st, {'files': files, 'args': []})


# ---- a custom target whose output is the path of something it reads ("rewritten in place") -------------------------------------
# The output name of a custom target may be spelled literally or through the documented substitutions of `output:` (@PLAINNAME@,
# @BASENAME@, and their indexed forms), and a custom target reads files through input:, through its command line and through
# depend_files:/depends:.  Whenever the produced path is the path of a file the same statement reads, the statement depends on itself:
# such a project has to be rejected at configure time.  Every (what is read) x (where it is read) x (how the output is spelled) x
# (where both live) x layout is configured; each provider/position/place also has control spellings that resolve to another name and
# must configure.
INPLACE_PROVIDERS = {
    'configure_file': "x = configure_file(output: 'data.txt', configuration: {'A': 1}@BS@)",
    'configure_file-copy': "x = configure_file(input: 'in.txt', output: 'data.txt', copy: true@BS@)",
    'custom_target': "x = custom_target('prov', output: 'data.txt', command: [cp, files('in.txt'), '@OUTPUT@']@BS@)",
}
INPLACE_POSITIONS = ['input', 'input-2nd', 'command-arg', 'depend']
# spelling -> (output: text with @N@ for the index of the input, resolves to the provider's name?)
INPLACE_SPELLINGS = {'literal': ('data.txt', True), 'plainname': ('@PLAINNAME@N@@', True), 'basename': ('@BASENAME@N@@.txt', True),
                     'other-literal': ('other.txt', False), 'other-template': ('@BASENAME@N@@.out', False)}
INPLACE_PLACES = ['root', 'subdir', 'build_subdir']


def inplace_cases(thorough):
    out = []
    i = 0
    for prov in INPLACE_PROVIDERS:
        for pos in INPLACE_POSITIONS:
            for sp in INPLACE_SPELLINGS:
                if pos in ('command-arg', 'depend') and '@' in INPLACE_SPELLINGS[sp][0]:
                    continue                  # the substitutions of output: take the name of an input: file
                for place in INPLACE_PLACES:
                    for layout in ('mirror', 'flat'):
                        i += 1
                        if thorough or layout == 'mirror' or i % 3 == 0:
                            out.append((prov, pos, sp, place, layout))
    return out


def run_inplace(job):
    from verif import mesonproc as mp
    idx, prov, pos, sp, place, layout = job
    root = os.path.join(scratch_root(), 'c04i.%d' % os.getpid())
    shutil.rmtree(root, ignore_errors=True)
    bs = ", build_subdir: 'bs'" if place == 'build_subdir' else ''
    out, same = INPLACE_SPELLINGS[sp]
    out = out.replace('@N@', '1' if pos == 'input-2nd' else '')
    reads = {'input': "input: x, command: [cp, '@INPUT@', '@OUTPUT@']", 'input-2nd': "input: [files('in.txt'), x], command: [cp, '@INPUT1@', '@OUTPUT@']",
             'command-arg': "command: [cp, x, '@OUTPUT@']",
             'depend': "command: [cp, files('in.txt'), '@OUTPUT@'], %s: x" % ('depends' if prov == 'custom_target' else 'depend_files')}[pos]
    posname = pos if pos != 'depend' else ('depends' if prov == 'custom_target' else 'depend_files')
    body = [INPLACE_PROVIDERS[prov].replace('@BS@', bs), "custom_target('rewrite', output: '%s', %s%s, build_by_default: true)" % (out, reads, bs)]
    head = ["project('ip')", "cp = find_program('cp')"]
    files = {'in.txt': 'A = @A@\n', 'd/in.txt': 'A = @A@\n'}
    if place == 'subdir':
        files['meson.build'] = '\n'.join(head + ["subdir('d')"]) + '\n'
        files['d/meson.build'] = '\n'.join(body) + '\n'
    else:
        files['meson.build'] = '\n'.join(head + body) + '\n'
    mp.write_tree(root, files)
    args = ['--layout=' + layout]
    res = mp.run_meson(['setup', 'b'] + args, root)
    outcome, v, st = judge_setup(res, os.path.join(root, 'b'))
    if not same and outcome != 'configured' and not v:
        v.append(('C04:INTERNAL', 'control project of the in-place family rejected: ' + res.out[-300:]))
    st['inplace_same_name'] = int(same)
    st['inplace_same_name_rejected'] = int(same and outcome == 'rejected')
    st['inplace_control_configured'] = int(not same and outcome == 'configured')
    # name the input class: what the statement reads, and through which keyword
    v = [(k if k.startswith('C04:INTERNAL') else '%s:in-place:%s-as-%s' % (k, prov.split('-')[0], posname), w) for k, w in v]
    shutil.rmtree(root, ignore_errors=True)
    return ('inplace', "custom_target(output: '%s') reading a %s through %s [%s, %s]" % (out, prov, posname, place, layout), outcome, v, st, {'files': files, 'args': args})


def dispatch(job):
    kind = job[0]
    if kind == 'inplace':
        return run_inplace(job[1:])
    if kind == 'aliasrun':
        return run_aliasrun(job[1:])
    if kind == 'bsubdir':
        return run_bsub(job[1:])
    if kind == 'linkkinds':
        return run_linkkinds(job[1:])
    if kind == 'unity':
        return run_unity(job[1:])
    if kind == 'gen':
        return run_generated(job[1:])
    if kind == 'neg':
        return run_collision(job[1:])
    if kind == 'tests':
        return run_tests_family(job[1:])
    if kind == 'genshare':
        return run_genshare(job[1:])
    if kind == 'rspmix':
        return run_rspmix(job[1:])
    if kind == 'failsub':
        return run_failsub(job[1:])
    return run_corpus(job[1:])


def main():
    ck = Check('C04', 'exploration')
    from verif import mesonproc as mp
    if ck.args.replay:
        d = json.load(open(ck.args.replay))
        root = os.path.join(scratch_root(), 'replay')
        if 'failsub' in d:
            kind, name, outcome, v, st, rep = run_failsub((0, tuple(d['failsub'][0]), d['failsub'][1]))
            print('outcome', outcome)
            for k, w in v:
                print(k, w)
            sys.exit(1 if v else 0)
        if 'files' in d:
            mp.write_tree(root, d['files'])
            res = mp.run_meson(['setup', 'b'] + d.get('args', []), root)
        else:
            shutil.copytree(d['dir'], os.path.join(root, 'src'), symlinks=True)
            res = mp.run_meson(['setup', os.path.join(root, 'b'), os.path.join(root, 'src')], root)
        outcome, v, st = judge_setup(res, os.path.join(root, 'b'))
        print('outcome', outcome)
        for k, w in v:
            print(k, w)
        sys.exit(1 if v else 0)
    mp.preimport()
    jobs = []
    idx = 0
    if ck.want('gen'):
        specs = list(pg.enumerate_specs(3))
        for si, spec in enumerate(specs):
            for pi, pl in enumerate(('root', 'sub', 'allsub')):
                if not pg.placement_ok(spec, pl):
                    continue
                if not ck.thorough and len(spec) == 3 and (si + ck.seed) % 3 != pi:
                    continue     # quick: 3-target shapes in one placement each (rotated); smaller shapes in all placements
                if ck.thorough:
                    combos = OPTION_COMBOS
                else:
                    # quick: every shape x placement under 1 of the 18 combos, rotated so that all combos are used equally
                    combos = [OPTION_COMBOS[(si * 3 + pi + ck.seed) % len(OPTION_COMBOS)]]
                    if len(spec) <= 2:
                        combos = OPTION_COMBOS[::3] if pl == 'root' else combos
                for combo in combos:
                    if combo[0] == 'flat' and pl == 'sub':
                        continue
                    odd = {0: True, 1: 'colon'}.get((si + pi) % 5, False)
                    jobs.append(('gen', idx, spec, pl, odd, combo))
                    idx += 1
    if ck.want('gen'):
        # shapes beyond the exhaustive 3-node bound that C05 was given over the rounds (generator()-made headers reached through
        # link chains, partial dependencies, generated lists shared with custom targets, precompiled headers, generators with depends:)
        extra = pg.chain_specs() + pg.partialdep_specs() + pg.genct_specs() + pg.pch_specs() + pg.gendep_specs()
        for xi, spec in enumerate(extra):
            for pi, pl in enumerate(('root', 'allsub')):
                if not pg.placement_ok(spec, pl) or (not ck.thorough and (xi + ck.seed) % 2 != pi):
                    continue
                combos = OPTION_COMBOS if ck.thorough else [OPTION_COMBOS[(xi * 5 + ck.seed) % len(OPTION_COMBOS)]]
                for combo in combos:
                    jobs.append(('gen', idx, spec, pl, False, combo))
                    idx += 1
    if ck.want('gen'):
        # targets without a single source in the source tree (their own C file is a custom-target / generator() output)
        for xi, spec in enumerate(pg.allgen_specs() + pg.pch_specs()[:6]):
            for oi, own in enumerate(('own_ct', 'own_gen')):
                for pi, pl in enumerate(('root', 'allsub')):
                    if not ck.thorough and (xi + oi + ck.seed) % 2 != pi:
                        continue
                    combos = OPTION_COMBOS[::3] if ck.thorough else [OPTION_COMBOS[(xi * 5 + oi + ck.seed) % len(OPTION_COMBOS)]]
                    for combo in combos:
                        jobs.append(('gen', idx, spec, pl + '+' + own, False, combo))
                        idx += 1
    if ck.want('neg'):
        src, cases = collision_cases()
        for name, rd, sd, layout in cases:
            jobs.append(('neg', idx, name, rd, sd, layout, src))
            idx += 1
    if ck.want('unity'):
        for n, usize, how, asm in unity_cases():
            jobs.append(('unity', idx, n, usize, how, asm))
            idx += 1
    if ck.want('tests'):
        for kind in ('test', 'benchmark'):
            jobs.append(('tests', idx, kind))
            idx += 1
    if ck.want('rspmix'):
        jobs.append(('rspmix', idx))
        idx += 1
    if ck.want('failsub'):
        for things, fail in failsub_cases(ck.thorough):
            jobs.append(('failsub', idx, things, fail))
            idx += 1
    if ck.want('aliasrun'):
        for deps, place in aliasrun_cases():
            jobs.append(('aliasrun', idx, deps, place))
            idx += 1
    if ck.want('bsubdir'):
        for p, c, layout, place in bsub_cases(ck.thorough):
            jobs.append(('bsubdir', idx, p, c, layout, place))
            idx += 1
    if ck.want('linkkinds'):
        for p, q, r, c, lg in linkkinds_cases(ck.thorough):
            jobs.append(('linkkinds', idx, p, q, r, c, lg))
            idx += 1
    if ck.want('inplace'):
        for c in inplace_cases(ck.thorough):
            jobs.append(('inplace', idx) + c)
            idx += 1
    if ck.want('genshare'):
        for seq in genshare_cases():
            jobs.append(('genshare', idx, seq))
            idx += 1
    if ck.want('corpus'):
        dirs = corpus_dirs()
        if not ck.thorough:
            dirs = [d for i, d in enumerate(dirs) if i % 4 == ck.seed % 4]
        for d in dirs:
            jobs.append(('corpus', idx, d))
            idx += 1
    tot = {}
    classes = set()
    neg_outcomes = {}
    for kind, name, outcome, v, st, rep in pmap(dispatch, jobs, chunksize=1):
        t = tot.setdefault(kind, {'n': 0, 'configured': 0, 'rejected': 0, 'crash': 0, 'timeout': 0, 'edges': 0, 'bbd_targets': 0, 'tests': 0})
        t['n'] += 1
        t[outcome] += 1
        for k in ('edges', 'bbd_targets', 'tests', 'intro_names_without_statement'):
            t[k] = t.get(k, 0) + st.get(k, 0)
        for k in st:
            if k.startswith(('inplace_', 'unity_asm')):
                t[k] = t.get(k, 0) + st[k]
        classes.add((kind, outcome, min(st.get('edges', 0) // 5, 6)))
        if kind == 'neg':
            ck.sample({'collision_case': name, 'outcome': outcome}, cap=6)
            neg_outcomes[name] = outcome
        for key, what in v:
            if key.startswith('C04:INTERNAL'):
                ck.internal('generated project was rejected by meson setup: %s: %s' % (name, what))
            rep2 = dict(rep)
            rep2['case'] = name
            ck.violation(key if kind != 'neg' else key + ':' + name.split('/')[0], '%s %s: %s' % (kind, name, what), rep2)
    for k, t in tot.items():
        ck.part(k, **t)
    if 'gen' in tot:
        ck.require(tot['gen']['configured'] == tot['gen']['n'], 'not all generated projects configured')
    if 'linkkinds' in tot:
        ck.require(tot['linkkinds']['configured'] >= 0.6 * tot['linkkinds']['n'] and tot['linkkinds']['rejected'] > 0,
                   'link-kind family: %r' % (tot['linkkinds'],))
    if 'inplace' in tot:
        t = tot['inplace']
        ck.require(t['inplace_same_name_rejected'] >= 10 and t['inplace_control_configured'] == t['n'] - t['inplace_same_name'] > 10 and t['crash'] == 0,
                   'in-place family: %r' % (t,))
    if 'unity' in tot:
        ck.require(tot['unity'].get('unity_asm_configured', 0) == tot['unity'].get('unity_asm', 0) > 0, 'unity family: projects with an assembly source: %r' % (tot['unity'],))
    if 'neg' in tot:
        ck.require(tot['neg']['rejected'] > 10 and tot['neg']['configured'] > 10, 'negative space does not exercise both outcomes')
    if 'corpus' in tot:
        ck.require(tot['corpus']['configured'] > 20, 'too few corpus projects configure here')
    n = sum(t['n'] for t in tot.values())
    ck.assume('ninja grammar and scoping rules come from lib/verif/refninja.py (ninja is not installed)')
    ck.assume('corpus projects that do not configure in this sandbox (missing compilers/dependencies) are outside the quantifier and only counted')
    ck.finish(evaluations=n, distinct_nontrivial=len(classes),
              rule='all projgen shapes of <= 3 targets x placements x %s layout/default_library/unity combos; unity builds with 1..9 C sources (and 0/1/2/5 C sources plus one assembly source) x unity_size {2,4} x 4 ways of consuming the objects; in-place family: a custom target reading {configure_file, configure_file(copy), custom target output} through {input:, 2nd input:, command line, depend_files:/depends:} with output: spelled {literally, @PLAINNAME[i]@, @BASENAME[i]@.ext, two control spellings of another name} x {root, subdir, build_subdir:} x layout (the same path must be rejected or acyclic, controls must configure); %d collision cases (single declarations with forbidden/reserved names and ordered pairs '
                   'with colliding outputs, mirror and flat layout); %s of the test corpus under test cases/{common,unit,native,linuxlike}. Oracle: setup fails with a MesonException, or build.ninja '
                   'parses, has no duplicate outputs / unknown rules / cycles / dangling inputs and default/test targets are reachable. distinct_nontrivial = distinct (kind, outcome, size bucket).'
                   % ('all 18' if ck.thorough else '1 of 18 (rotated)', len(collision_cases()[1]), 'all' if ck.thorough else 'a quarter (rotated by VERIF_SEED)'),
              exhaustive=True, collision_outcomes=neg_outcomes)


run_main(main)
