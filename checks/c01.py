# C01 - build definitions evaluate exactly as the language reference prescribes.
# Tier A: bounded-exhaustive program families (X1 operator ladders, X2 expression trees, X3 method table,
# X4 literals, X5 statement sequences) run on the real Interpreter in-process and on the reference evaluator
# (verif.reflang, written from the docs).  Tier B: the same kind of programs end-to-end through `meson setup`.
import re
import itertools, json, os, sys, time
from verif.core import Check, pmap, run_main, scratch_root, NCPU
from verif import reflang
from verif.reflang import Fail, Unspecified, canon

# ------------------------------------------------------------------------------------------------------------
# generators: each yields (cls, program_text); cls is the narrow class used in violation keys


def lit(v):
    if isinstance(v, bool):
        return 'true' if v else 'false'
    if isinstance(v, int):
        return str(v)
    if isinstance(v, str):
        return "'" + v.replace('\\', '\\\\').replace("'", "\\'").replace('\n', '\\n') + "'"
    if isinstance(v, list):
        return '[' + ', '.join(lit(x) for x in v) + ']'
    if isinstance(v, dict):
        return '{' + ', '.join(lit(k) + ': ' + lit(x) for k, x in v.items()) + '}'
    raise AssertionError(v)


OPS = ['or', 'and', '==', '!=', '<', '<=', '>', '>=', 'in', 'not in', '+', '-', '*', '/', '%']
UNS = ['', 'not ', '-']
BOOM = '(1 / 0 == 0)'     # boolean-typed operand whose evaluation fails: observes short-circuiting


def gen_x1(thorough):
    pool = [lit(x) for x in ([0, 2, 7, True, False, 'a', '', ['a'], [2], {'a': 2}] if thorough else [2, True, 'a'])]
    pool.append(BOOM)
    for op1 in OPS:
        for op2 in OPS:
            for u1 in UNS:
                for u2 in UNS:
                    for u3 in UNS:
                        cls = 'X1:%s%s,%s%s,%s' % (u1.strip(), op1, u2.strip(), op2, u3.strip())
                        for a in pool:
                            for b in pool:
                                for c in pool:
                                    yield cls, 'x = %s%s %s %s%s %s %s%s\n' % (u1, a, op1, u2, b, op2, u3, c)


def gen_x1_short(thorough):
    """two-operand forms with every operator and unary prefix over the large pool (cheap, always complete)."""
    pool = [lit(x) for x in [0, 1, 2, 7, -3, True, False, 'a', 'b', '', 'ab', ['a'], [2], [], [[2]], {'a': 2}, {}, {'b': 'a'}]]
    pool.append(BOOM)
    for op in OPS:
        for u1 in UNS:
            for u2 in UNS:
                for a in pool:
                    for b in pool:
                        yield 'X1s:%s%s,%s' % (u1.strip(), op, u2.strip()), 'x = %s%s %s %s%s\n' % (u1, a, op, u2, b)


def gen_x2(thorough):
    atoms = ['1', '2', 'true', 'false', "'a'", "['a', 'b']", "{'a': 1}", 'v']
    pre = "v = [1, 2, 3]\n"
    d1 = []
    for a in atoms[:6]:
        d1.append(a)
        d1.append('not ' + a)
        d1.append('-' + a)
    for op in ['+', '*', '-', '==', '<', 'and', 'or', 'in']:
        for a in atoms[:5]:
            for b in atoms[:6]:
                d1.append('%s %s %s' % (a, op, b))
    # parenthesised combinations
    sub = d1 if thorough else d1[::3]
    for op in ['+', '*', '-', '/', '%', '==', '!=', '<', 'and', 'or', 'in', 'not in']:
        for l in sub:
            for r in sub[::5]:
                yield 'X2:paren:' + op, pre + 'x = (%s) %s (%s)\n' % (l, op, r)
                yield 'X2:lparen:' + op, pre + 'x = (%s) %s %s\n' % (l, op, r)
                yield 'X2:rparen:' + op, pre + 'x = %s %s (%s)\n' % (l, op, r)
    # unary applied to parenthesised / stacked
    for u in ['not ', '-', 'not not ', '- -', 'not -', '- not ']:
        for e in sub:
            yield 'X2:unary:' + u.strip(), pre + 'x = %s(%s)\n' % (u, e)
            yield 'X2:unary-bare:' + u.strip(), pre + 'x = %s%s\n' % (u, e)
    # ternary, incl. nested in every position and parenthesised
    conds = ['true', 'false', '1', "'a'", '1 == 1', 'not true', 'true and false', '[]', 'true or ' + BOOM]
    vals = ['1', "'s'", '[1]', BOOM]
    for c in conds:
        for a in vals:
            for b in vals:
                yield 'X2:ternary', 'x = %s ? %s : %s\n' % (c, a, b)
                yield 'X2:ternary-in-arith', 'x = 1 + (%s ? %s : %s)\n' % (c, a, b)
                yield 'X2:ternary-bare-arith', 'x = 1 + %s ? %s : %s\n' % (c, a, b)
                for c2 in conds[:3]:
                    yield 'X2:ternary-nested-true', 'x = %s ? %s ? %s : %s : %s\n' % (c, c2, a, b, b)
                    yield 'X2:ternary-nested-false', 'x = %s ? %s : %s ? %s : %s\n' % (c, a, c2, a, b)
                    yield 'X2:ternary-nested-paren-true', 'x = %s ? (%s ? %s : %s) : %s\n' % (c, c2, a, b, b)
                    yield 'X2:ternary-nested-paren-false', 'x = %s ? %s : (%s ? %s : %s)\n' % (c, a, c2, a, b)
                    yield 'X2:ternary-nested-array', 'x = %s ? [%s ? %s : %s] : %s\n' % (c, c2, a, b, b)
    # indexing
    objs = ['[1, 2, 3]', "'abc'", "{'a': 1, 'b': 2}", 'range(2, 8, 2)', '7', 'true', '[]', "''", '[[1, 2], [3]]', 'v']
    idxs = ['0', '1', '2', '3', '-1', '-3', '-4', "'a'", "'z'", 'true', '[0]', '1 + 1', '-0']
    for o in objs:
        for i in idxs:
            yield 'X2:index', pre + 'x = %s[%s]\n' % (o, i)
            yield 'X2:index2', pre + 'x = %s[%s][0]\n' % (o, i)
    # method calls on expressions and precedence of postfix vs unary/binary
    for e in ["('a' + 'b').to_upper()", "'a' + 'b'.to_upper()", '(1 + 2).to_string()', '1 + 2.to_string()', '-1.to_string()',
              '(-1).to_string()', 'not true.to_string()', "[1, 2].length() + 1", "-[1, 2].length()", "(v + [4]).length()",
              "v.length() * 2", "v[0].to_string() + 'x'", "'a,b'.split(',')[1]", "'a,b'.split(',').length()",
              "{'a': 1}.keys()[0]", "{'a': [1, 2]}['a'][1]", "not [1].contains(1)", "not [1].contains(2) and true",
              "1 == 1 and 2 == 2", "1 == 1 == true", "(1 == 1) == true", "1 < 2 < 3", "1 < 2 == true", "(1 < 2) == true",
              "1 + 2 == 3", "1 + 2 * 3", "(1 + 2) * 3", "7 - 2 - 1", "7 - (2 - 1)", "8 / 2 / 2", "8 / (2 / 2)", "7 % 4 % 2", "2 * 3 % 4",
              "2 + 3 % 4", "-2 * 3", "-(2 * 3)", "- 2 - 3", "1 - -1", "1 - - 1", "1--1", "1 + -1", "not true or true", "not (true or true)",
              "not true and false", "true or false and false", "(true or false) and false", "true and false or true",
              "1 in [1] and true", "1 in [1] == true", "1 not in [1] or true", "not 1 in [1]", "not (1 in [1])", "'a' in 'abc' + 'd'",
              "1 + 1 in [2]", "[1] + [2] == [1, 2]", "[1] + 2 == [1, 2]", "1 + [2]", "{'a': 1} + {'a': 2}", "{'a': 1} + {'b': 2} == {'b': 2, 'a': 1}",
              "'a' / 'b'", "'a' / 'b' / 'c'", "'a' / '/b'", "'a' + 'b' / 'c'", "'x' * 2", "'a' < 'b'", "'a' < 'B'", "[1] < [2]", "true < false",
              "true == true", "true != false", "1 != 2", "'a' == 'a'", "'a' == 1", "[1] == 1", "[] == []", "{} == {}", "[] == {}", "1 == '1'"]:
        yield 'X2:expr', pre + 'x = %s\n' % e


def gen_x3(thorough):
    # integers: every boundary of the receivers' lengths (0..3): -n-1, -n, -1, 0, n-1, n
    # strings that look like the placeholders of the receivers ('@0@-@1@'): an argument's text is never template text
    argpool = ["''", "'a'", "','", "' '", '0', '1', '-1', '5', 'true', "['a', 'b']", "{'a': 1}", '2', '3', '-2', '-3', '-4', "'@1@'", "'@0@'"]
    tuples = [()] + [(a,) for a in argpool] + [(a, b) for a in argpool for b in argpool]
    recv = {
        'str': ["''", "'a'", "'a b'", "'Ab1_-é'", "' x\\n'", "'12'", "'-7'", "'0x1F'", "'a,b,,c'", "'l1\\nl2\\r\\nl3\\n'", "'@0@-@1@'", "'aXbXa'", "'0b101'", "'0o17'", "'1.5'", "'abc'"],
        'list': ['[]', '[1, 2, 3]', "['a', ['b']]", "[1, 'a', true]", "[[1, [2]], 3]", "['z']"],
        'dict': ['{}', "{'b': 1, 'a': 'x'}", "{'k': [1], 'j': {'a': 1}}"],
        'int': ['0', '7', '(-7)', '255'],
        'bool': ['true', 'false'],
    }
    meths = {
        'str': ['format', 'replace', 'strip', 'to_upper', 'to_lower', 'to_int', 'contains', 'startswith', 'endswith', 'substring',
                'split', 'splitlines', 'join', 'underscorify', 'length', 'bogus'],
        'list': ['contains', 'get', 'length', 'flatten', 'slice', 'bogus', 'keys'],
        'dict': ['has_key', 'get', 'keys', 'values', 'length', 'contains'],
        'int': ['is_even', 'is_odd', 'to_string', 'to_int', 'abs'],
        'bool': ['to_int', 'to_string', 'is_even'],
    }
    three = {'substring', 'replace', 'slice', 'format', 'get'}
    for ty in recv:
        for r in recv[ty]:
            for m in meths[ty]:
                tl = tuples
                if m in three and thorough:
                    tl = tuples + [(a, b, c) for a in argpool[3:8] for b in argpool[3:8] for c in argpool[:8]]
                elif m in three:
                    tl = tuples + [(a, b, c) for a in argpool[4:7] for b in argpool[4:7] for c in argpool[4:7]]
                for tp in tl:
                    yield 'X3:%s.%s/%d' % (ty, m, len(tp)), 'x = %s.%s(%s)\n' % (r, m, ', '.join(tp))
    # keyword arguments
    for r in recv['int']:
        for kw in ['fill: true', 'fill: false', 'fill: 0', 'fill: 3', 'fill: 5', 'fill: -1', "fill: 'a'", "format: 'hex'", "format: 'oct'", "format: 'bin'", "format: 'dec'",
                   "format: 'x'", 'format: 1', "fill: 4, format: 'dec'", 'bogus: 1', 'fill: 3, fill: 4']:
            yield 'X3:int.to_string/kw', 'x = %s.to_string(%s)\n' % (r, kw)
    for r in recv['list']:
        for pos in ['', '0, 2', '1, -1', '-2, 5', '2, 0', '0']:
            for st in ['', 'step: 1', 'step: 2', 'step: -1', 'step: 0', "step: 'a'"]:
                args = ', '.join(x for x in (pos, st) if x)
                yield 'X3:list.slice/kw', 'x = %s.slice(%s)\n' % (r, args)
    for r in recv['str']:
        yield 'X3:str.kwargs', 'x = %s.strip(chars: %s)\n' % (r, "'a'")


def gen_x4(thorough):
    alpha = ['a', '7', '\\', "'", 'n', 't', 'x', 'u', '0', '@', '{', '}', '\n', ' ']
    n = 4 if thorough else 3
    for k in range(0, n + 1):
        for tup in itertools.product(alpha, repeat=k):
            body = ''.join(tup)
            yield 'X4:single', "a = 'v'\nx = '%s'\n" % body
            yield 'X4:multi', "a = 'v'\nx = '''%s'''\n" % body
            if '@' in body or k <= 2:
                yield 'X4:fsingle', "a = 'v'\nx = f'%s'\n" % body
                yield 'X4:fmulti', "a = 'v'\nx = f'''%s'''\n" % body
    for esc in ['\\\\', "\\'", '\\a', '\\b', '\\f', '\\n', '\\r', '\\t', '\\v', '\\0', '\\7', '\\18', '\\101', '\\1011', '\\777', '\\8', '\\x41', '\\x4', '\\xZZ',
                '\\u00e9', '\\u00', '\\U0001F600', '\\U0001F60', '\\q', '\\ ', '\\"', '\\@', '\\N{BULLET}']:
        for pre, post in [('', ''), ('a', 'b'), ('\\\\', ''), ('', '\\\\')]:
            yield 'X4:escape', "x = '%s%s%s'\n" % (pre, esc, post)
            yield 'X4:escape-multi', "x = '''%s%s%s'''\n" % (pre, esc, post)
    for num in ['0', '00', '007', '7', '12', '012', '0x1F', '0X1f', '0x', '0xG', '0o17', '0O17', '0o8', '0b101', '0B11', '0b2', '1_000', '1e3', '1.5', '1.',
                '.5', '0x1F.to_string()', '1a', '9999999999999999999999', '0b', '0o', '-0', '- 7', '+7']:
        yield 'X4:number', 'x = %s\n' % num
    for ident in ['_a', 'a1', 'A_b', '1a', 'a-b', 'if', 'true1', 'endif', 'in', 'é', 'a.b']:
        yield 'X4:ident', '%s = 1\n' % ident
    for fs in ["f'@a@'", "f'@a@@b@'", "f'@a'", "f'a@'", "f'@@a@@'", "f'@c@'", "f'@1@'", "f'@a b@'", "f'@ a@'", "f'@a@' + 'x'", "f'@l@'", "f'@n@ @t@'", "f'''@a@\n@n@'''", "f'@_u@'"]:
        yield 'X4:fstring', "a = 'v'\nb = 'w'\nn = 7\nt = true\nl = [1]\n_u = 'u'\nx = %s\n" % fs
    for fm in ["'@0@'.format(1)", "'@0@ @1@'.format('a', true)", "'@1@ @0@'.format('a', 'b')", "'@0@'.format()", "'@2@'.format(1, 2)", "'@0@ @0@'.format(7)",
               "'@a@'.format(1)", "'@-1@'.format(1)", "'@0'.format(1)", "'0@'.format(1)", "'@@0@@'.format('x')", "'@0@'.format('@1@', 'z')", "'@00@'.format(5)",
               "'@01@'.format(5, 6)", "'x'.format(1, 2)", "'@0@'.format([1])", "'@ 0@'.format(1)", "'''@0@\n'''.format('m')"]:
        yield 'X4:format', 'x = %s\n' % fm


X5_TEMPLATES = [
    "a = 1", "a = 'x'", "a = [1]", "a = [1, [2]]", "a = {'k': 1}", "a = true", "b = a", "a = b", "b = [a]", "b = {'k': a}", "b = [a, a]",
    "a += 1", "a += 'y'", "a += [2]", "a += {'j': 2}", "b += a", "b += [a]", "a += b", "a += [[3]]",
    "if a == 1\n  b = 2\nendif", "if b\n  a = 3\nelse\n  a = 4\nendif", "if a == 1\n  a = 5\nelif a == 5\n  a = 6\nelse\n  a = 7\nendif",
    "if is_variable('b')\n  b += [9]\nendif",
    "foreach i : a\n  b += i\nendforeach", "foreach i : [1, 2, 3]\n  if i == 2\n    continue\n  endif\n  a += i\nendforeach",
    "foreach i : [1, 2, 3]\n  if i == 2\n    break\n  endif\n  b += [i]\nendforeach", "foreach k, v : a\n  b += v\nendforeach",
    "foreach i : range(3)\n  a += i\nendforeach", "foreach i : a\n  a += [0]\nendforeach", "foreach i : a\n  foreach j : a\n    b += [j]\n  endforeach\nendforeach",
    "foreach i : a\n  a = 1\nendforeach", "foreach k, v : {'p': 1, 'q': 2}\n  a += {k + 'x': v}\nendforeach",
    "set_variable('a', b)", "b = get_variable('a')", "b = get_variable('zz', 9)", "b = is_variable('a')", "unset_variable('a')",
    "set_variable('b', [get_variable('a')])", "b = get_variable('a', a)",
    "break", "b = undefined_var", "a = a", "b = a.length()", "b = a[0]",
    "a = range(3)", "foreach i : a\n  b += [i]\nendforeach", "foreach i : a\n  if i == 1\n    break\n  endif\nendforeach",
]


def gen_x5(thorough):
    n = 4 if thorough else 3
    tl = X5_TEMPLATES
    for k in range(1, n + 1):
        sub = tl if k <= 3 else tl[:40:1]
        for tup in itertools.product(range(len(sub)), repeat=k):
            if k == 4 and (tup[0] > 11 or tup[3] < 6):
                # depth 4 is restricted to sequences that start with an assignment and end with a non-trivial statement
                continue
            yield 'X5:' + ','.join(str(i) for i in tup), '\n'.join(sub[i] for i in tup) + '\n'


# X6: the same statement executed several times with different values of the variables it mentions (a loop body, a nested
# loop, a loop inside a conditional): every evaluation must use the values of *that* iteration.
X6_INT_BODIES = [
    "r += [i]", "r += [[i, 9]]", "r += [{'k': i}]", "r += [f'v@i@']", "r += ['v@0@'.format(i)]", "r += [i + 1]", "r += [[i][0]]",
    "r += [i == 2 ? 'two' : 'other']", "r += [i.to_string()]", "r += [i.is_even()]", "r += [[i, i * 2].contains(2)]",
    "foreach j : [i, 7]\n    r += [j]\n  endforeach", "foreach j : [[i]]\n    r += j\n  endforeach",
    "foreach k, v : {'a': i}\n    r += [v]\n  endforeach", "foreach j : range(i)\n    r += [j]\n  endforeach",
    "if i == 2\n    r += ['t']\n  else\n    r += [i]\n  endif", "if [i] == [2]\n    continue\n  endif\n  r += [i]",
    "x = [i]\n  r += x", "x = i\n  x += 1\n  r += [x]", "set_variable('y', i)\n  r += [get_variable('y')]",
    "r += [i in [2, 3]]", "r += [not (i == 1)]", "r += [-i]", "r += [i % 2]", "r += [[i, 5][1 - (i % 2)]]",
    # fails in a later iteration only
    "r += [[7, 8, 9][i * 2 - 2]]", "r += [6 / (i - 2)]", "r += [i + (i == 3 ? 'x' : 1)]",
]
X6_STR_BODIES = [
    "r += [s]", "r += [[s, 'k']]", "r += [{s: 1}]", "r += [f'<@s@>']", "r += ['<@0@>'.format(s)]", "r += [s + 'q']", "r += [s.to_upper()]",
    "r += [s == 'y' ? 1 : 2]", "r += [s / 'd']", "r += [s in ['x', 'z']]", "r += ['a-@0@-b'.format(s).split('-')]",
    "foreach t : [s, 'k']\n    r += [s + t]\n  endforeach", "foreach t : [[s, s]]\n    r += t\n  endforeach",
    "foreach k, v : {s: s}\n    r += [k + v]\n  endforeach", "r += [s.startswith('x')]", "r += [[s][0].strip()]",
    "d = {'k': s}\n  r += [d['k']]", "r += [', '.join([s, s])]",
]


def gen_x6(thorough):
    n = 0
    for it, bodies in (('[1, 2, 3]', X6_INT_BODIES), ('[3, 1, 2, 2]', X6_INT_BODIES), ("['x', 'y', 'z']", X6_STR_BODIES), ("['z', 'z', 'x']", X6_STR_BODIES)):
        var = 'i' if bodies is X6_INT_BODIES else 's'
        for b in bodies:
            n += 1
            yield 'X6:loop:%d' % n, 'r = []\nforeach %s : %s\n  %s\nendforeach\n' % (var, it, b)
            # the same loop run twice (second time over another sequence), and nested in an outer loop
            it2 = it.replace('[', '[' + ("5, " if var == 'i' else "'w', "), 1)
            yield 'X6:twice:%d' % n, 'r = []\nforeach %s : %s\n  %s\nendforeach\nforeach %s : %s\n  %s\nendforeach\n' % (var, it, b, var, it2, b)
            inner = '\n'.join('  ' + l for l in ('foreach %s : %s\n  %s\nendforeach' % (var, it, b)).split('\n'))
            yield 'X6:nested:%d' % n, 'r = []\nforeach o : [1, 2]\n%s\nendforeach\n' % inner


X5_PRESTATES = [
    # values that were themselves produced by += / + / method calls (most aliasing defects need a non-initial state)
    "a = [1]\na += [0]\nb = [2]\nb += [0]\n",
    "a = {'k': 1}\na += {'j': 2}\nb = 'x'\nb += 'y'\n",
]


def gen_x5s(thorough):
    tl = X5_TEMPLATES
    for pi, pre in enumerate(X5_PRESTATES):
        for k in range(1, 4):
            for tup in itertools.product(range(len(tl)), repeat=k):
                if k == 3 and pi == 1 and not thorough:
                    continue
                yield 'X5s%d:' % pi + ','.join(str(i) for i in tup), pre + '\n'.join(tl[i] for i in tup) + '\n'


# X7: operands that are *identifiers* whose spelling starts or ends with a keyword of the language ('installed', 'notx', 'order',
# 'android', 'ifx', 'truex', ...), at every operand position of every operator and unary prefix, with one and with several
# blanks / tabs between 'not' and its operand.  The keywords are words: an identifier merely containing one is an identifier.
X7_KEYWORDS = ['in', 'not', 'and', 'or', 'if', 'else', 'elif', 'endif', 'foreach', 'endforeach', 'true', 'false', 'break', 'continue']
X7_GAPS = [' ', '  ', '\t']


def x7_names():
    names = []
    for kw in X7_KEYWORDS:
        names += [kw + 'x', kw + '_', kw + '1', 'x' + kw, '_' + kw]
    names += ['installed', 'inner', 'index', 'notin', 'not_in', 'innot', 'android', 'orin', 'inor']
    return names


def gen_x7(thorough):
    vals = [('true', 'false'), ('2', '3'), ("['a']", "'a'")] if thorough else [('true', 'false'), ('2', "[2]")]
    names = x7_names()
    for n in names:
        other = 'zz'
        for va, vb in vals:
            pre = '%s = %s\n%s = %s\n' % (n, va, other, vb)
            for op in OPS:
                for u1 in UNS:
                    for u2 in UNS:
                        yield 'X7:%s%s,%s' % (u1.strip(), op, u2.strip()), pre + 'x = %s%s %s %s%s\n' % (u1, n, op, u2, other)
                        yield 'X7r:%s%s,%s' % (u1.strip(), op, u2.strip()), pre + 'x = %s%s %s %s%s\n' % (u1, other, op, u2, n)
            for g in X7_GAPS:
                yield 'X7:not-gap', pre + 'x = not%s%s\n' % (g, n)
                yield 'X7:not-gap-paren', pre + 'x = not%s(%s)\n' % (g, n)
                yield 'X7:notin-gap', pre + 'x = %s not%sin [%s]\n' % (n, g, other)
                yield 'X7:in-gap', pre + 'x = %s%sin%s[%s]\n' % (n, g, g, n)
                yield 'X7:ternary', pre + 'x = %s ?%s%s : %s\n' % (va if va in ('true', 'false') else 'true', g, n, other)
                yield 'X7:if', pre + 'x = 0\nif not%s%s\n  x = 1\nelif %s\n  x = 2\nendif\n' % (g, n, n)
                yield 'X7:foreach', pre + 'x = []\nforeach %s : [%s]\n  x += [%s]\nendforeach\n' % (n, vb, n)


# X8: every kind of value, the "empty" ones first (0, false, '', [], {}), stored in a container / variable and read back through
# every read path, with and without a fallback; and dictionary keys that are also names meson itself uses (kwargs, args, ...)
X8_VALUES = ['0', 'false', "''", '[]', '{}', '1', 'true', "'a'", '[0]', "{'a': 0}", '-1', "[[]]"]
X8_FALLBACKS = [None, '0', '7', "'fb'", 'true', 'false', '[]', "['x']", '{}']
X8_KEYS = ['kwargs', 'args', 'required', 'native', 'if', 'true', '', ' ', '0', 'a b', 'KWARGS', 'kwarg']


def gen_x8(thorough):
    keys = 'abcdefghijkl'
    d = '{%s}' % ', '.join("'%s': %s" % (k, v) for k, v in zip(keys, X8_VALUES))
    a = '[%s]' % ', '.join(X8_VALUES)
    n = len(X8_VALUES)
    pre = 'd = %s\na = %s\n' % (d, a)
    for i, k in enumerate(list(keys[:n]) + ['z']):
        for fb in X8_FALLBACKS:
            yield 'X8:dict.get', pre + "x = d.get('%s'%s)\n" % (k, '' if fb is None else ', ' + fb)
        yield 'X8:dict.index', pre + "x = d['%s']\n" % k
        yield 'X8:dict.has_key', pre + "x = d.has_key('%s')\ny = '%s' in d\nw = '%s' not in d\n" % (k, k, k)
    for i in list(range(-n - 1, n + 1)):
        for fb in X8_FALLBACKS:
            yield 'X8:list.get', pre + 'x = a.get(%d%s)\n' % (i, '' if fb is None else ', ' + fb)
        yield 'X8:list.index', pre + 'x = a[%d]\n' % i
    for v in X8_VALUES:
        yield 'X8:contains', pre + 'x = a.contains(%s)\ny = %s in a\nw = %s not in a\n' % (v, v, v)
        yield 'X8:single', 'x = [%s]\ny = x.get(0)\nw = x.get(0, 5)\nu = x[0]\nv = x.length()\n' % v
        yield 'X8:dictsingle', "x = {'k': %s}\ny = x.get('k')\nw = x.get('k', 5)\nu = x['k']\nv = x.values()\n" % v
        for fb in X8_FALLBACKS:
            yield 'X8:get_variable', 'v = %s\nx = get_variable(\'v\'%s)\ny = is_variable(\'v\')\n' % (v, '' if fb is None else ', ' + fb)
            yield 'X8:get_variable-unset', 'x = get_variable(\'v\'%s)\n' % ('' if fb is None else ', ' + fb)
        yield 'X8:set_variable', "set_variable('v', %s)\nx = v\ny = get_variable('v', 9)\n" % v
        yield 'X8:plusassign', 'x = [%s]\nx += [%s]\ny = x.length()\n' % (v, v)
        yield 'X8:foreach', pre + 'x = []\nforeach e : [%s, %s]\n  x += [e]\nendforeach\n' % (v, v)
        yield 'X8:foreach-dict', "x = []\nforeach k, e : {'p': %s, 'q': %s}\n  x += [k, e]\nendforeach\n" % (v, v)
        yield 'X8:ternary-value', 'x = true ? %s : 9\ny = false ? 9 : %s\n' % (v, v)
        yield 'X8:cond', 'x = 0\nif %s\n  x = 1\nendif\n' % v
        yield 'X8:eq', 'x = %s == %s\ny = [%s] == [%s]\nw = %s != %s\n' % (v, v, v, v, v, v)
    yield 'X8:values', pre + 'x = d.values()\ny = d.keys()\nw = d.length()\nv = a.length()\n'
    yield 'X8:foreach-all', pre + 'x = []\nforeach e : a\n  x += [e]\nendforeach\ny = []\nforeach k, e : d\n  y += [[k, e]]\nendforeach\n'
    # keys
    for k in X8_KEYS:
        for v in X8_VALUES[:8] + ["{'a': 1}", "{'kwargs': 1}"]:
            yield 'X8:key-literal', "x = {'%s': %s}\ny = x.keys()\nw = x.length()\n" % (k, v)
            yield 'X8:key-variable', "k = '%s'\nx = {k: %s, 'zz': 1}\ny = x.keys()\nw = x.get(k, 'absent')\n" % (k, v)
            yield 'X8:key-second', "x = {'aa': 1, '%s': %s}\ny = x.keys()\nw = x['%s']\n" % (k, v, k)
        yield 'X8:key-plus', "x = {'a': 1} + {'%s': {'b': 2}}\ny = x.keys()\n" % k
        yield 'X8:key-plusassign', "x = {'a': 1}\nx += {'%s': {'b': 2}}\ny = x.keys()\n" % k
        yield 'X8:key-twice', "x = {'%s': 1, '%s': 2}\n" % (k, k)
        yield 'X8:key-nested', "x = {'o': {'%s': {'%s': 1}}}\ny = x['o']['%s'].keys()\n" % (k, k, k)
        yield 'X8:key-in-array', "x = [{'%s': [1]}]\ny = x[0].keys()\n" % k



FAMILIES = {'x1': gen_x1, 'x1s': gen_x1_short, 'x2': gen_x2, 'x3': gen_x3, 'x4': gen_x4, 'x5': gen_x5, 'x5s': gen_x5s, 'x6': gen_x6,
            'x7': gen_x7, 'x8': gen_x8}

# ------------------------------------------------------------------------------------------------------------
_pool = None


def _get_pool():
    global _pool
    if _pool is None:
        from verif import interp
        import resource
        # a defect that makes a tiny program grow without bound must end as MemoryError in this worker, not take the machine down
        soft, hard = resource.getrlimit(resource.RLIMIT_AS)
        cap = 8 << 30
        if soft == resource.RLIM_INFINITY or soft > cap:
            resource.setrlimit(resource.RLIMIT_AS, (cap, hard))
        _pool = interp.Pool()
    return _pool


def real_canon(vars_):
    from verif.interp import Opaque
    out = {}
    for k, v in vars_.items():
        out[k] = _rc(v)
    return out


def _rc(v):
    from verif.interp import Opaque
    if isinstance(v, Opaque):
        if v.kind == 'range':
            return ('r', tuple(v.data))
        return ('opaque', v.kind)
    if isinstance(v, bool):
        return ('b', v)
    if isinstance(v, int):
        return ('i', v)
    if isinstance(v, str):
        return ('s', v)
    if isinstance(v, list):
        return ('l', tuple(_rc(x) for x in v))
    if isinstance(v, dict):
        return ('d', tuple((k, _rc(x)) for k, x in v.items()))
    return ('opaque', type(v).__name__)


def judge(text, pool=None):
    """-> (verdict, detail) verdict in ok|unspec|value|rejects-valid|accepts-invalid|internal"""
    pool = pool or _get_pool()
    try:
        ref = ('ok', {k: canon(v) for k, v in reflang.run_program(text).items()})
    except Unspecified as e:
        # what the program should evaluate to is not specified - that it must not end in a Python traceback is
        try:
            real = pool.run(text)
        except RecursionError:
            return 'unspec', str(e)
        if real[0] == 'internal':
            return 'internal', real[1]
        return 'unspec', str(e)
    except Fail as e:
        ref = ('fail', str(e))
    try:
        real = pool.run(text)
    except RecursionError:
        return 'value', 'the program built a self-referential value (only possible when an operation mutates a shared object in place)'
    if real[0] == 'internal':
        return 'internal', real[1]
    if ref[0] == 'ok' and real[0] == 'ok':
        try:
            rc = real_canon(real[1])
        except RecursionError:
            return 'value', 'the program built a self-referential value (only possible when an operation mutates a shared object in place)'
        if rc == ref[1]:
            return 'ok', 'value'
        return 'value', 'reference %r, meson %r' % (ref[1], rc)
    if ref[0] == 'fail' and real[0] == 'fail':
        return 'ok', 'fail'
    if ref[0] == 'ok':
        return 'rejects-valid', 'reference gives %r, meson fails: %s: %s' % (ref[1], real[1], real[2][:200])
    return 'accepts-invalid', 'reference rejects (%s), meson gives %r' % (ref[1], real_canon(real[1]))


def _walk(node, seen=None):
    from mesonbuild import mparser
    seen = seen if seen is not None else set()
    if id(node) in seen:
        return
    seen.add(id(node))
    yield node
    for v in vars(node).values():
        if isinstance(v, mparser.BaseNode):
            yield from _walk(v, seen)
        elif isinstance(v, (list, tuple)):
            for x in v:
                if isinstance(x, mparser.BaseNode):
                    yield from _walk(x, seen)
        elif isinstance(v, dict):
            for k, x in v.items():
                for y in (k, x):
                    if isinstance(y, mparser.BaseNode):
                        yield from _walk(y, seen)


def real_has_empty_operand(text):
    """True if the real parser accepted the text with an EmptyNode as operand of a unary/binary operator."""
    from mesonbuild import mparser
    try:
        ast = mparser.Parser(text, 'f').parse()
    except Exception:
        return False
    for n in _walk(ast):
        if isinstance(n, mparser.UnaryOperatorNode) and isinstance(n.value, mparser.EmptyNode):
            return True
        if isinstance(n, mparser.BinaryOperatorNode) and (isinstance(n.left, mparser.EmptyNode) or isinstance(n.right, mparser.EmptyNode)):
            return True
    return False


def classify(cls, text, verdict, detail):
    """narrow keys for defect classes known to exist; otherwise family-level key"""
    if verdict == 'accepts-invalid' and real_has_empty_operand(text):
        # an operator whose operand is missing is accepted by the parser and only fails if it is evaluated;
        # under short-circuit / an untaken branch the malformed program configures successfully
        return 'C01:accepts-invalid:operator-with-missing-operand-not-evaluated'
    return 'C01:%s:%s' % (verdict, cls)


def _fail_reason(text):
    try:
        reflang.run_program(text)
    except Fail as e:
        import re as _re
        return _re.sub(r'[0-9]+', 'N', str(e))[:40]
    except Unspecified:
        pass
    return '?'


def work(job):
    fam, shard, nshards, thorough = job
    gen = FAMILIES[fam](thorough)
    pool = _get_pool()
    from verif import interp
    stats = {'n': 0, 'ok_value': 0, 'ok_fail': 0, 'unspec': 0, 'bad': 0, 'fresh_checked': 0}
    bad = []
    classes = set()
    sample = None
    succ = []          # programs on which both sides computed values (go through Tier B)
    failreps = {}      # one representative per (class, reference failure reason)
    for i, (cls, text) in enumerate(gen):
        if i % nshards != shard:
            continue
        stats['n'] += 1
        v, d = judge(text, pool)
        if v == 'ok':
            stats['ok_' + d] += 1
            classes.add((cls.split(':')[0], d))
            if d == 'value':
                if sample is None:
                    sample = text
                if fam != 'x5s' or ',' not in cls:
                    succ.append(text)     # (of the non-initial-state family only the one-statement programs go end-to-end)
            else:
                failreps.setdefault((cls if not fam.startswith('x5') else fam.upper(), _fail_reason(text)), text)
        elif v == 'unspec':
            stats['unspec'] += 1
            r = 'unspec:' + d.split('(')[0].strip()[:60]
            stats[r] = stats.get(r, 0) + 1
        else:
            # re-confirm on a brand-new interpreter before reporting (guards against state leaked by earlier failures)
            fresh = interp.Pool()
            v2, d2 = judge(text, fresh)
            fresh.close()
            if v2 != v:
                bad.append(('nondet', cls, text, '%s vs fresh %s [family %s shard %d/%d tier %s]' % (v, v2, fam, shard, nshards, 'thorough' if thorough else 'quick')))
            else:
                stats['bad'] += 1
                if len(bad) < 200:
                    bad.append((v, cls, text, d))
                if v == 'internal' and d.startswith('no result after'):
                    # every such program costs two full budgets; three of them decide the matter for this shard
                    stats['timeouts'] = stats.get('timeouts', 0) + 1
                    if stats['timeouts'] >= 3:
                        stats['aborted_after_timeouts'] = 1
                        break
        if stats['n'] % 997 == 0:
            # periodic cross-check of the reused interpreter against a fresh one
            fresh = interp.Pool()
            v2, d2 = judge(text, fresh)
            fresh.close()
            stats['fresh_checked'] += 1
            if (v2, d2) != (v, d):
                bad.append(('nondet', cls, text, 'reused interpreter %r vs fresh %r [family %s shard %d/%d tier %s]' % ((v, d), (v2, d2), fam, shard, nshards, 'thorough' if thorough else 'quick')))
    return fam, stats, bad, sorted(classes), sample, succ, list(failreps.values())


# ------------------------------------------------------------------------------------------------------------
# Tier B: the same programs end-to-end through `meson setup --backend=none`.  Every program is its own subproject
# of a generated super-project; the parent reads the variables back with get_variable() and prints them with
# message() (wrapped in an array so that strings are quoted and true/1 are distinguishable).  The parent defines
# variables of the same names before and checks them afterwards (subproject isolation).  Multi-statement programs
# are additionally split at every top-level statement boundary into meson.build + sub/meson.build (subdir()
# shares all variables).  Failing programs: the subproject must not be found (required: false) or abort setup.
def render(v, quote=False):
    t = reflang.tname(v)
    if t == 'str':
        return "'%s'" % v if quote else v
    if t == 'bool':
        return 'true' if v else 'false'
    if t == 'int':
        return str(v)
    if t == 'list':
        return '[%s]' % ', '.join(render(x, True) for x in v)
    if t == 'dict':
        return '{%s}' % ', '.join('%s : %s' % (render(k, True), render(x, True)) for k, x in v.items())
    raise AssertionError(t)


def split_points(text):
    """indices i such that text = head + tail where both are sequences of complete top-level statements"""
    lines = text.split('\n')
    pts = []
    depth = 0
    for i, l in enumerate(lines[:-1]):
        st = l.strip()
        if st.startswith(('if ', 'foreach ')):
            depth += 1
        if st in ('endif', 'endforeach'):
            depth -= 1
        if depth == 0 and 0 < i + 1 < len(lines) - 1:
            pts.append(i + 1)
    return pts


PARENT_VARS = ['a', 'b', 'x', 'i', 'v', 'k']


def tierb_batch(job):
    import re as _re
    from verif import mesonproc as mp
    bi, items = job     # items: list of (name, kind, files, expect) kind ok|fail
    root = os.path.join(scratch_root(), 'tb.%d.%d' % (os.getpid(), bi))
    files = {}
    top = ["project('super')"]
    for pv in PARENT_VARS:
        top.append("%s = 'PARENT_%s'" % (pv, pv))
    for name, kind, pfiles, expect in items:
        for rel, content in pfiles.items():
            files['subprojects/%s/%s' % (name, rel)] = content
        if kind == 'ok':
            top.append("sp = subproject('%s')" % name)
            for var in expect:
                top.append("message('VERIF|%s|%s|', [sp.get_variable('%s')], '|END')" % (name, var, var))
        else:
            top.append("sp = subproject('%s', required: false)" % name)
            top.append("message('VERIF-FOUND|%s|', sp.found(), '|END')" % name)
    for pv in PARENT_VARS:
        top.append("assert(%s == 'PARENT_%s', 'VERIF-LEAK %s')" % (pv, pv, pv))
    top.append("message('VERIF-DONE')")
    files['meson.build'] = '\n'.join(top) + '\n'
    mp.write_tree(root, files)
    r = mp.run_meson(['setup', 'bld', '--backend=none'], root, timeout=600)
    got = {}
    for m in _re.finditer(r'Message: VERIF\|(\w+)\|(\w+)\| (.*?) \|END', r.out, _re.S):
        got[(m.group(1), m.group(2))] = m.group(3)
    found = {m.group(1): m.group(2) for m in _re.finditer(r'Message: VERIF-FOUND\|(\w+)\| (\w+) \|END', r.out)}
    done = 'Message: VERIF-DONE' in r.out
    culprit = None
    if not done:
        m = _re.search(r'subprojects/(\w+)/(?:sub/)?meson\.build(?::\d+:\d+)?: ERROR', r.out)
        if m:
            culprit = m.group(1)
    import shutil
    shutil.rmtree(root, ignore_errors=True)
    return bi, r.rc, done, got, found, culprit, r.out[-1500:] if not done else '', r.unhandled


def tier_b(ck, succ_all, fail_all):
    from verif import mesonproc as mp
    mp.preimport()
    items = []
    n = 0
    for fam, text in succ_all:
        try:
            vals = reflang.run_program(text)
        except (Fail, Unspecified):
            continue
        expect = {k: render(v, False) if False else render([v]) for k, v in vals.items() if not isinstance(v, reflang.RangeV)}
        if any(isinstance(x, reflang.RangeV) for x in vals.values()) and not expect:
            continue
        n += 1
        name = 'p%d' % n
        items.append((name, 'ok', {'meson.build': "project('%s')\n%s" % (name, text)}, expect, text))
        if fam == 'x5' or (fam == 'x5s' and n % 7 == 0):
            for sp_i, pt in enumerate(split_points(text)):
                lines = text.split('\n')
                head, tail = '\n'.join(lines[:pt]) + '\n', '\n'.join(lines[pt:])
                n += 1
                nm = 'p%ds%d' % (n, sp_i)
                items.append((nm, 'ok', {'meson.build': "project('%s')\n%ssubdir('sub')\n" % (nm, head), 'sub/meson.build': tail}, expect, text))
                n += 1
                nm = 'p%dt%d' % (n, sp_i)
                items.append((nm, 'ok', {'meson.build': "project('%s')\nsubdir('sub')\n%s" % (nm, tail), 'sub/meson.build': head}, expect, text))
    nfail = 0
    cap = ck.q(600, 20000)
    # round-robin over families so that the cap (quick tier) keeps representatives of every family
    byfam = {}
    for fam, text in fail_all:
        byfam.setdefault(fam, []).append((fam, text))
    rr = []
    for tup in itertools.zip_longest(*[byfam[f] for f in sorted(byfam)]):
        rr.extend(x for x in tup if x is not None)
    for fam, text in rr[:cap]:
        n += 1
        nfail += 1
        name = 'f%d' % n
        items.append((name, 'fail', {'meson.build': "project('%s')\n%s" % (name, text)}, None, text))
    B, BF = 120, 6
    oks = [it for it in items if it[1] == 'ok']
    fls = [it for it in items if it[1] == 'fail']
    # programs expected to fail may abort the whole setup (InvalidCode is never contained by required: false), which
    # costs one more round for the rest of their batch: keep those batches small
    queue = [oks[i:i + B] for i in range(0, len(oks), B)] + [fls[i:i + BF] for i in range(0, len(fls), BF)]
    rounds = 0
    setups = 0
    checked_vals = 0
    checked_fail = 0
    abort_fail = 0
    while queue and rounds < 200:
        rounds += 1
        jobs = [(rounds * 100000 + bi, [(nm, kd, fl, ex) for nm, kd, fl, ex, tx in b]) for bi, b in enumerate(queue)]
        nxt = []
        for (bi, rc, done, got, found, culprit, tail, unhandled), b in zip(pmap(tierb_batch, jobs), queue):
            setups += 1
            names = [nm for nm, *_ in b]
            upto = len(b)
            if not done:
                if culprit in names and not unhandled:
                    upto = names.index(culprit)
                elif 'VERIF-LEAK' in tail and len(b) == 1:
                    ck.violation('C01:tierB:subproject-leaks-variable', 'a subproject changed a variable of its parent: ' + tail[-300:],
                                 {'program': b[0][4], 'files': b[0][2], 'tail': tail})
                    continue
                elif len(b) == 1:
                    nm, kd, fl, ex, tx = b[0]
                    if unhandled:
                        ck.violation('C01:tierB:unhandled-exception', 'meson setup died with a Python traceback on %r: %s' % (tx, tail[-300:]),
                                     {'program': tx, 'files': fl, 'tail': tail})
                    elif kd == 'ok':
                        ck.violation('C01:tierB:rejects-valid', 'valid program aborts meson setup: %r: %s' % (tx, tail[-300:]),
                                     {'program': tx, 'files': fl, 'tail': tail})
                    else:
                        checked_fail += 1
                        abort_fail += 1
                    continue
                else:
                    # no identifiable culprit: bisect
                    h = len(b) // 2
                    nxt.append(b[:h])
                    nxt.append(b[h:])
                    continue
            for nm, kd, fl, ex, tx in b[:upto]:
                if kd == 'ok':
                    for var, exp in ex.items():
                        checked_vals += 1
                        g = got.get((nm, var))
                        if g != exp:
                            ck.violation('C01:tierB:value', 'end-to-end value of %s differs: reference %r, meson setup %r, program %r' % (var, exp, g, tx),
                                         {'program': tx, 'files': fl, 'var': var, 'expected': exp, 'got': g})
                else:
                    checked_fail += 1
                    if found.get(nm) != 'false':
                        ck.violation('C01:tierB:accepts-invalid', 'erroneous program configured successfully end-to-end: %r' % tx,
                                     {'program': tx, 'files': fl})
            if upto < len(b):
                nm, kd, fl, ex, tx = b[upto]
                if kd == 'ok':
                    ck.violation('C01:tierB:rejects-valid', 'valid program aborts meson setup: %r: %s' % (tx, tail[-300:]),
                                 {'program': tx, 'files': fl, 'tail': tail})
                else:
                    checked_fail += 1
                    abort_fail += 1
                if b[upto + 1:]:
                    nxt.append(b[upto + 1:])
        queue = nxt
    pending = queue
    ck.part('tierB', subprojects=len(items), setups=setups, values_checked=checked_vals, failing_checked=checked_fail,
            failing_that_abort_setup=abort_fail, rounds=rounds)
    ck.require(checked_vals > 100 and checked_fail > 10, 'tier B compared too little')
    if pending:
        ck.internal('tier B did not converge')


def main():
    ck = Check('C01', 'exploration')
    if ck.args.replay:
        d = json.load(open(ck.args.replay))
        print('program:\n' + d['program'])
        m = re.search(r'\[family (\w+) shard (\d+)/(\d+) tier (\w+)\]', d.get('detail', ''))
        if d.get('verdict') == 'history-dependent' and m:
            # the verdict depends on what the same Interpreter evaluated before: replay the programs of that shard, in order,
            # on one Interpreter up to this one, then the program itself on a brand-new one
            fam, shard, nshards, tier = m.group(1), int(m.group(2)), int(m.group(3)), m.group(4)
            pool = _get_pool()
            n = 0
            for i, (cls, text) in enumerate(FAMILIES[fam](tier == 'thorough')):
                if i % nshards != shard:
                    continue
                n += 1
                v = judge(text, pool)
                if text == d['program']:
                    from verif import interp
                    fresh = interp.Pool()
                    v2 = judge(text, fresh)
                    print('after %d earlier programs of the shard: %r; on a brand-new Interpreter: %r' % (n - 1, v, v2))
                    print('expected: the same verdict both times')
                    sys.exit(0 if v == v2 else 1)
            print('program not found in its shard')
            sys.exit(2)
        v, det = judge(d['program'])
        print('verdict now:', v, det)
        sys.exit(0 if v in ('ok', 'unspec') else 1)
    fams = [f for f in FAMILIES if ck.want(f)]
    jobs = []
    nsh = {'x1': 4 * NCPU, 'x1s': NCPU, 'x2': NCPU, 'x3': NCPU, 'x4': NCPU, 'x5': 2 * NCPU, 'x5s': 2 * NCPU, 'x6': 4, 'x7': NCPU, 'x8': 4}
    for f in fams:
        for s in range(nsh[f]):
            jobs.append((f, s, nsh[f], ck.thorough))
    # interleave so that heavy families are spread
    jobs.sort(key=lambda j: (j[1], j[0]))
    tot = {}
    classes = set()
    nondet = 0
    succ_all = []
    fail_all = []
    for fam, stats, bad, cl, sample, succ, failreps in pmap(work, jobs):
        succ_all.extend((fam, t) for t in succ)
        fail_all.extend((fam, t) for t in failreps)
        t = tot.setdefault(fam, {})
        for k, v in stats.items():
            t[k] = t.get(k, 0) + v
        classes.update(tuple(c) for c in cl)
        if sample:
            ck.sample({'family': fam, 'program': sample}, cap=6)
        for v, cls, text, d in bad:
            if v == 'nondet':
                # One Interpreter evaluates the root build file and every subdir() file of a project; between two programs
                # only the variables (and the argument-depth counter an aborted call leaves behind) are reset here.  A
                # program whose result depends on what the same Interpreter evaluated before is therefore a violation
                # ("subdir() runs as if written in place").
                ck.violation('C01:depends-on-earlier-programs:%s' % cls.split(':')[0],
                             'the result of %r depends on what the same Interpreter evaluated before: %s (the worker ran it on the reused and on a brand-new Interpreter)'
                             % (text, d), {'program': text, 'verdict': 'history-dependent', 'detail': d})
                continue
            ck.violation(classify(cls, text, v, d), '%s on %r: %s' % (v, text, d[:300]), {'program': text, 'verdict': v, 'detail': d})
    if nondet:
        ck.internal('%d cases behaved differently on a fresh interpreter' % nondet)
    if ck.want('tierb'):
        tier_b(ck, succ_all, fail_all)
    n = sum(t['n'] for t in tot.values())
    aborted = sum(t.get('aborted_after_timeouts', 0) for t in tot.values())
    if aborted:
        # only reachable with violations already reported (each aborted shard recorded three programs without result)
        ck.require(ck.n_viol > 0, 'shards aborted after timeouts but no violation was recorded')
        ck.assume('%d shard(s) stopped after three programs that gave no result within the budget: the exploration below is NOT complete' % aborted)
    for f, t in tot.items():
        ck.part(f, **t)
        ck.require(t['ok_value'] > 0 and t['ok_fail'] > 0, 'family %s never produced both a value and a failure' % f)
    ck.assume('reference semantics = verif/reflang.py, written from Syntax.md and docs/yaml/elementary; cases the docs leave open raise Unspecified and are skipped (counted)')
    ck.assume('a reused Interpreter is reset (variables) between programs; every disagreement and 1 in 997 programs are re-run on a brand-new Interpreter')
    ck.finish(evaluations=n, distinct_nontrivial=len(classes), skipped_unspecified=sum(t['unspec'] for t in tot.values()),
              rule='all programs of families %s (operator ladders u a op u b op u c over a typed operand pool; expression trees with parentheses, '
                   'ternaries, indexing, methods on expressions; every documented method x argument tuples; all string bodies <= %d chars over a '
                   '14-char alphabet in 4 quote styles; all statement sequences <= %d over %d templates) run on the real interpreter and the '
                   'reference; distinct_nontrivial = distinct (family, outcome kind) classes on which both agreed'
                   % (fams, 4 if ck.thorough else 3, 4 if ck.thorough else 3, len(X5_TEMPLATES)),
              exhaustive=not aborted)


run_main(main)
