#!/venv/bin/python
"""Mutant driver.  mutants/*.json hold lists of {id, property, file, old, new, note}; seeded/<id>/patch.diff are
sub-agent supplied patches.  Each mutant is applied to a scratch copy of /repo on tmpfs, optionally the pinned
suite is run on it, then the named checks run against the copy (VERIF_REPO) and the verdict is recorded.

  tools/mutants.py list
  tools/mutants.py run <mutant-id>... [--tier quick] [--suite] [--checks C01,C02]
  tools/mutants.py all [--property C19] [--suite]
"""
import argparse, glob, json, os, shutil, subprocess, sys, time

VERIF = os.path.dirname(os.path.dirname(os.path.abspath(__file__)))
REPO = '/repo'
PINNED = ['unittests/cargotests.py', 'unittests/optiontests.py', 'unittests/taptests.py', 'unittests/versiontests.py']


def load():
    out = {}
    for f in sorted(glob.glob(os.path.join(VERIF, 'mutants', '*.json'))):
        for m in json.load(open(f)):
            out[m['id']] = m
    for d in sorted(glob.glob(os.path.join(VERIF, 'seeded', '*'))):
        meta = os.path.join(d, 'meta.json')
        if os.path.exists(meta) and os.path.exists(os.path.join(d, 'patch.diff')):
            m = json.load(open(meta))
            mid = 'seeded/' + os.path.basename(d)
            out[mid] = {'id': mid, 'property': m.get('property'), 'patch': os.path.join(d, 'patch.diff'), 'note': m.get('needs', '')}
    return out


def make_copy(m):
    dst = '/dev/shm/mutrepo.%d.%s' % (os.getpid(), m['id'].replace('/', '_'))
    shutil.rmtree(dst, ignore_errors=True)
    subprocess.check_call(['rsync', '-a', '--exclude', '.git', '--exclude', '__pycache__', REPO + '/', dst + '/'])
    if 'patch' in m:
        r = subprocess.run(['patch', '-p1', '-s', '-i', m['patch']], cwd=dst)
        if r.returncode:
            raise SystemExit('patch does not apply: ' + m['id'])
    else:
        edits = m.get('edits') or [m]
        for e in edits:
            p = os.path.join(dst, e['file'])
            s = open(p).read()
            if s.count(e['old']) != 1:
                raise SystemExit('%s: old text occurs %d times in %s' % (m['id'], s.count(e['old']), e['file']))
            open(p, 'w').write(s.replace(e['old'], e['new']))
    return dst


def run_suite(dst):
    r = subprocess.run(['/venv/bin/python', '-m', 'pytest', '-q', '-p', 'no:cacheprovider', '-x'] + PINNED,
                       cwd=dst, capture_output=True, text=True, env=dict(os.environ, PYTHONPATH=dst, PYTHONDONTWRITEBYTECODE='1'))
    tail = r.stdout.strip().splitlines()[-1] if r.stdout.strip() else ''
    return r.returncode == 0, tail


def run_one(m, tier, suite, checks):
    dst = make_copy(m)
    res = {'id': m['id'], 'property': m.get('property')}
    try:
        if suite:
            ok, tail = run_suite(dst)
            res['suite_pass'] = ok
            res['suite_tail'] = tail
        for c in checks:
            t0 = time.time()
            r = subprocess.run([os.path.join(VERIF, 'check'), c, '--tier', tier, '--no-evidence'],
                               capture_output=True, text=True, env=dict(os.environ, VERIF_REPO=dst))
            viol = [l for l in r.stdout.splitlines() if l.startswith('VIOLATION')]
            keys = [l.strip() for l in r.stdout.splitlines() if l.startswith('  key=')]
            res[c] = {'exit': r.returncode, 'violations': len(viol), 'first': keys[:2], 'wall': round(time.time() - t0, 1)}
            if r.returncode not in (0, 1):
                res[c]['stderr'] = r.stderr[-600:]
    finally:
        shutil.rmtree(dst, ignore_errors=True)
    return res


def main():
    ap = argparse.ArgumentParser()
    ap.add_argument('cmd', choices=['list', 'run', 'all'])
    ap.add_argument('ids', nargs='*')
    ap.add_argument('--tier', default='quick')
    ap.add_argument('--suite', action='store_true')
    ap.add_argument('--checks', default=None)
    ap.add_argument('--property', default=None)
    ap.add_argument('--out', default=None)
    a = ap.parse_args()
    ms = load()
    if a.cmd == 'list':
        for k, m in ms.items():
            print(k, m.get('property'), m.get('note', ''))
        return
    ids = a.ids if a.cmd == 'run' else [k for k, m in ms.items() if not a.property or m.get('property') == a.property]
    results = []
    for i in ids:
        m = ms[i]
        checks = a.checks.split(',') if a.checks else [m['property']]
        r = run_one(m, a.tier, a.suite, checks)
        results.append(r)
        print(json.dumps(r), flush=True)
    if a.out:
        json.dump(results, open(a.out, 'w'), indent=1)


if __name__ == '__main__':
    main()
