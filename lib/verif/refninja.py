# E5: reference reader / evaluator / executor for Ninja manifests, written from the Ninja manual
# (https://ninja-build.org/manual.html: "Ninja file reference": lexical syntax, $-escapes, top-level variables,
# rule variables with lazy expansion in the scope of the build statement, build statements with explicit,
# implicit (|) and order-only (||) dependencies, implicit outputs, validations (|@), phony, default, pool,
# include / subninja, $in / $out / $in_newline with shell escaping, response files).
# It does not import mesonbuild and shares no code with the generator it is used to check.  ninja itself is not
# installed in this sandbox, so this reading of the manual is a trusted base of every check that uses it.
from __future__ import annotations
import os, re, subprocess
import typing as T


class NinjaError(Exception):
    pass


# ---- evaluation strings: list of ('lit', text) | ('var', name) -------------------------------------------------
class EvalString:
    __slots__ = ('parts',)

    def __init__(self, parts=None):
        self.parts: T.List[T.Tuple[str, str]] = parts or []

    def evaluate(self, env: 'Scope') -> str:
        out = []
        for k, v in self.parts:
            out.append(v if k == 'lit' else env.lookup(v))
        return ''.join(out)

    def __repr__(self):
        return 'EvalString(%r)' % (self.parts,)


_SIMPLE_VAR = re.compile(r'[a-zA-Z0-9_-]+')
_BRACE_VAR = re.compile(r'\{([a-zA-Z0-9_.-]+)\}')


class Scope:
    def __init__(self, parent: T.Optional['Scope'] = None):
        self.parent = parent
        self.vars: T.Dict[str, str] = {}
        self.rules: T.Dict[str, 'Rule'] = {}

    def lookup(self, name: str) -> str:
        s: T.Optional[Scope] = self
        while s is not None:
            if name in s.vars:
                return s.vars[name]
            s = s.parent
        return ''

    def lookup_rule(self, name: str) -> T.Optional['Rule']:
        s: T.Optional[Scope] = self
        while s is not None:
            if name in s.rules:
                return s.rules[name]
            s = s.parent
        return None


RULE_VARS = {'command', 'depfile', 'dyndep', 'description', 'deps', 'generator', 'pool', 'restat', 'rspfile',
             'rspfile_content', 'msvc_deps_prefix'}


class Rule:
    def __init__(self, name: str):
        self.name = name
        self.bindings: T.Dict[str, EvalString] = {}


class Edge:
    def __init__(self, rule: Rule, scope: Scope, lineno: int):
        self.rule = rule
        self.scope = scope           # edge bindings; parent = file scope at the point of the statement
        self.outs: T.List[str] = []
        self.implicit_outs: T.List[str] = []
        self.ins: T.List[str] = []
        self.implicit: T.List[str] = []
        self.order_only: T.List[str] = []
        self.validations: T.List[str] = []
        self.lineno = lineno
        self.pool = ''

    @property
    def is_phony(self) -> bool:
        return self.rule.name == 'phony'

    @property
    def all_outs(self) -> T.List[str]:
        return self.outs + self.implicit_outs

    @property
    def all_ins(self) -> T.List[str]:
        return self.ins + self.implicit + self.order_only

    def get(self, var: str) -> str:
        """Value of a rule variable for this edge (manual: "variable lookup order")."""
        return _EdgeEnv(self).lookup(var)

    def command(self) -> str:
        return self.get('command')

    def __repr__(self):
        return 'Edge(%s: %s <- %s)' % (self.rule.name, self.outs, self.ins)


def shell_escape(p: str) -> str:
    """POSIX shell escaping ninja applies to paths substituted for $in / $out."""
    if p and re.fullmatch(r'[A-Za-z0-9_+\-./]+', p):
        return p
    return "'" + p.replace("'", "'\\''") + "'"


class _EdgeEnv(Scope):
    """$in/$out, then the edge's bindings, then the rule's (expanded lazily in this env), then the file scope."""

    def __init__(self, edge: Edge):
        super().__init__(None)
        self.edge = edge
        self._stack: T.List[str] = []

    def lookup(self, name: str) -> str:
        e = self.edge
        if name == 'in':
            return ' '.join(shell_escape(p) for p in e.ins)
        if name == 'in_newline':
            return '\n'.join(shell_escape(p) for p in e.ins)
        if name == 'out':
            return ' '.join(shell_escape(p) for p in e.outs)
        if name in e.scope.vars:
            return e.scope.vars[name]
        if name in e.rule.bindings:
            if name in self._stack:
                raise NinjaError('cycle in rule variables: ' + ' -> '.join(self._stack + [name]))
            self._stack.append(name)
            try:
                return e.rule.bindings[name].evaluate(self)
            finally:
                self._stack.pop()
        return e.scope.parent.lookup(name) if e.scope.parent else ''


def canon_path(p: str) -> str:
    """ninja's CanonicalizePath: collapse //, ./ and x/.. components (textually)."""
    if not p:
        return p
    absolute = p.startswith('/')
    comps: T.List[str] = []
    for c in p.split('/'):
        if c == '' or c == '.':
            continue
        if c == '..':
            if comps and comps[-1] != '..':
                comps.pop()
                continue
            if absolute:
                continue
        comps.append(c)
    r = '/'.join(comps)
    if absolute:
        r = '/' + r
    return r or ('/' if absolute else '.')


# ---- parser ---------------------------------------------------------------------------------------------------
class Manifest:
    def __init__(self):
        self.root = Scope()
        self.root.rules['phony'] = Rule('phony')
        self.edges: T.List[Edge] = []
        self.defaults: T.List[str] = []
        self.pools: T.Dict[str, int] = {'console': 1}
        self.errors: T.List[str] = []
        self.producer: T.Dict[str, Edge] = {}
        self.statements = 0

    # -- graph queries --
    def edge_for(self, path: str) -> T.Optional[Edge]:
        return self.producer.get(canon_path(path))

    def non_phony_edges(self) -> T.List[Edge]:
        return [e for e in self.edges if not e.is_phony]

    def reachable_from(self, targets: T.Iterable[str]) -> T.Set[str]:
        """All paths (outputs and leaf inputs) reachable from the given targets over every dependency kind."""
        seen: T.Set[str] = set()
        stack = [canon_path(t) for t in targets]
        while stack:
            p = stack.pop()
            if p in seen:
                continue
            seen.add(p)
            e = self.producer.get(p)
            if e is not None:
                for q in e.all_outs:
                    seen.add(q)
                stack.extend(e.all_ins)
        return seen

    def validate(self, builddir: T.Optional[str] = None) -> T.List[str]:
        """Structural errors: (unknown rules and duplicate outputs are recorded at parse time), cycles, dangling inputs."""
        errs = list(self.errors)
        # cycles (iterative DFS over edges)
        WHITE, GREY, BLACK = 0, 1, 2
        color: T.Dict[int, int] = {}
        for start in self.edges:
            if color.get(id(start), WHITE) != WHITE:
                continue
            stack: T.List[T.Tuple[Edge, T.Iterator[str]]] = [(start, iter(start.all_ins + start.validations))]
            color[id(start)] = GREY
            while stack:
                e, it = stack[-1]
                nxt = None
                for p in it:
                    d = self.producer.get(p)
                    if d is None:
                        continue
                    c = color.get(id(d), WHITE)
                    if c == GREY and p not in e.validations:
                        errs.append('dependency cycle through %s' % p)
                        continue
                    if c == WHITE:
                        nxt = d
                        break
                if nxt is None:
                    color[id(e)] = BLACK
                    stack.pop()
                else:
                    color[id(nxt)] = GREY
                    stack.append((nxt, iter(nxt.all_ins + nxt.validations)))
        if builddir is not None:
            for e in self.edges:
                for p in e.all_ins:
                    if p in self.producer:
                        continue
                    if not os.path.lexists(os.path.join(builddir, p)):
                        errs.append("'%s', needed by '%s', missing and no known rule to make it" % (p, (e.all_outs or ['?'])[0]))
        for d in self.defaults:
            if d not in self.producer and (builddir is None or not os.path.lexists(os.path.join(builddir, d))):
                errs.append("unknown target '%s' in default" % d)
        return errs


class _Lexer:
    def __init__(self, text: str, fname: str):
        self.text = text
        self.pos = 0
        self.fname = fname

    def lineno(self) -> int:
        return self.text.count('\n', 0, self.pos) + 1

    def err(self, msg: str) -> NinjaError:
        return NinjaError('%s:%d: %s' % (self.fname, self.lineno(), msg))

    def at_eof(self) -> bool:
        return self.pos >= len(self.text)

    def skip_spaces(self) -> None:
        t = self.text
        while self.pos < len(t):
            if t[self.pos] == ' ':
                self.pos += 1
            elif t.startswith('$\n', self.pos):
                self.pos += 2
            elif t.startswith('$\r\n', self.pos):
                self.pos += 3
            else:
                break

    def read_ident(self) -> str:
        m = re.compile(r'[a-zA-Z0-9_.-]+').match(self.text, self.pos)
        if not m:
            raise self.err('expected identifier')
        self.pos = m.end()
        self.skip_spaces()
        return m.group(0)

    def read_eval(self, path: bool) -> EvalString:
        """path=True: stop at space, ':', '|', newline (not consumed except trailing spaces); False: to end of line."""
        t = self.text
        parts: T.List[T.Tuple[str, str]] = []
        buf: T.List[str] = []

        def flush():
            if buf:
                parts.append(('lit', ''.join(buf)))
                buf.clear()
        while True:
            if self.pos >= len(t):
                if path:
                    break
                raise self.err('unexpected EOF')
            c = t[self.pos]
            if c == '$':
                nx = t[self.pos + 1:self.pos + 2]
                if nx == '$':
                    buf.append('$')
                    self.pos += 2
                elif nx == ' ':
                    buf.append(' ')
                    self.pos += 2
                elif nx == ':':
                    buf.append(':')
                    self.pos += 2
                elif nx == '\n' or t.startswith('\r\n', self.pos + 1):
                    self.pos += 2 if nx == '\n' else 3
                    while self.pos < len(t) and t[self.pos] == ' ':
                        self.pos += 1
                elif nx == '{':
                    m = _BRACE_VAR.match(t, self.pos + 1)
                    if not m:
                        raise self.err('bad ${ } variable reference')
                    flush()
                    parts.append(('var', m.group(1)))
                    self.pos = m.end()
                else:
                    m = _SIMPLE_VAR.match(t, self.pos + 1)
                    if not m:
                        raise self.err("bad $-escape (literal $ must be written as $$)")
                    flush()
                    parts.append(('var', m.group(0)))
                    self.pos = m.end()
                continue
            if c == '\n' or (c == '\r' and t.startswith('\r\n', self.pos)):
                if path:
                    break
                self.pos += 1 if c == '\n' else 2
                break
            if path and c in ' :|':
                break
            buf.append(c)
            self.pos += 1
        flush()
        if path:
            self.skip_spaces()
        return EvalString(parts)

    def peek_newline(self) -> bool:
        return self.pos < len(self.text) and (self.text[self.pos] == '\n' or self.text.startswith('\r\n', self.pos))

    def expect_newline(self) -> None:
        if self.at_eof():
            return
        if self.text[self.pos] == '\n':
            self.pos += 1
        elif self.text.startswith('\r\n', self.pos):
            self.pos += 2
        else:
            raise self.err('expected newline, got %r' % self.text[self.pos:self.pos + 10])

    def skip_blank_and_comments(self) -> None:
        """At statement position: skip empty lines and comment lines."""
        t = self.text
        while self.pos < len(t):
            m = re.compile(r' *(#[^\n]*)?(\r?\n|$)').match(t, self.pos)
            if m and m.end() > self.pos:
                self.pos = m.end()
                if m.group(2) == '':
                    break
            else:
                break

    def indent(self) -> int:
        m = re.compile(r' *').match(self.text, self.pos)
        return len(m.group(0))


def parse_file(path: str, manifest: T.Optional[Manifest] = None, scope: T.Optional[Scope] = None) -> Manifest:
    with open(path, 'r', encoding='utf-8', errors='surrogateescape', newline='') as f:
        text = f.read()
    return parse_text(text, path, manifest, scope, os.path.dirname(path))


def parse_text(text: str, fname: str = 'build.ninja', manifest: T.Optional[Manifest] = None,
               scope: T.Optional[Scope] = None, basedir: str = '.') -> Manifest:
    mf = manifest or Manifest()
    scope = scope or mf.root
    lx = _Lexer(text, fname)
    if '\t' in re.sub(r'[^\n]*', lambda m: m.group(0)[:len(m.group(0)) - len(m.group(0).lstrip(' \t'))], text):
        # tabs as indentation are a lexing error in ninja
        mf.errors.append('%s: tabs are not allowed for indentation' % fname)

    def read_bindings(into: T.Callable[[str, EvalString], None]) -> None:
        while True:
            save = lx.pos
            lx.skip_blank_and_comments()
            if lx.at_eof() or lx.indent() == 0:
                # (blank/comment lines inside a block were skipped; a non-indented line ends the block)
                return
            lx.pos += lx.indent()
            name = lx.read_ident()
            if lx.text[lx.pos:lx.pos + 1] != '=':
                raise lx.err("expected '=' after variable name")
            lx.pos += 1
            lx.skip_spaces()
            into(name, lx.read_eval(False))

    while True:
        lx.skip_blank_and_comments()
        if lx.at_eof():
            break
        if lx.indent() != 0:
            raise lx.err('unexpected indent')
        mf.statements += 1
        m = re.compile(r'(rule|build|default|pool|include|subninja)(?= |\$\n)').match(lx.text, lx.pos)
        if not m:
            # top-level variable
            name = lx.read_ident()
            if lx.text[lx.pos:lx.pos + 1] != '=':
                raise lx.err("expected '=' in top-level binding of %s" % name)
            lx.pos += 1
            lx.skip_spaces()
            scope.vars[name] = lx.read_eval(False).evaluate(scope)
            continue
        kw = m.group(1)
        lx.pos = m.end()
        lx.skip_spaces()
        if kw == 'rule':
            name = lx.read_ident()
            lx.expect_newline()
            if name in scope.rules:
                mf.errors.append("%s:%d: duplicate rule '%s'" % (fname, lx.lineno(), name))
            rule = Rule(name)

            def add(k, v, rule=rule):
                if k not in RULE_VARS:
                    raise lx.err("unexpected variable '%s' in rule" % k)
                rule.bindings[k] = v
            read_bindings(add)
            if 'command' not in rule.bindings:
                mf.errors.append("%s: rule '%s' has no command" % (fname, name))
            if ('rspfile' in rule.bindings) != ('rspfile_content' in rule.bindings):
                mf.errors.append("%s: rule '%s': rspfile and rspfile_content need to be both specified" % (fname, name))
            scope.rules[name] = rule
        elif kw == 'build':
            lineno = lx.lineno()
            outs: T.List[EvalString] = []
            impl_outs: T.List[EvalString] = []
            cur = outs
            while True:
                if lx.text.startswith('|', lx.pos) and not lx.text.startswith('||', lx.pos):
                    lx.pos += 1
                    lx.skip_spaces()
                    cur = impl_outs
                    continue
                if lx.text.startswith(':', lx.pos):
                    lx.pos += 1
                    lx.skip_spaces()
                    break
                ev = lx.read_eval(True)
                if not ev.parts:
                    raise lx.err("expected path or ':' in build statement")
                cur.append(ev)
            rule_name = lx.read_ident()
            rule = scope.lookup_rule(rule_name)
            if rule is None:
                mf.errors.append("%s:%d: unknown build rule '%s'" % (fname, lineno, rule_name))
                rule = Rule(rule_name)
            ins: T.List[EvalString] = []
            impl: T.List[EvalString] = []
            oo: T.List[EvalString] = []
            val: T.List[EvalString] = []
            cur = ins
            while not lx.peek_newline() and not lx.at_eof():
                if lx.text.startswith('||', lx.pos):
                    lx.pos += 2
                    lx.skip_spaces()
                    cur = oo
                    continue
                if lx.text.startswith('|@', lx.pos):
                    lx.pos += 2
                    lx.skip_spaces()
                    cur = val
                    continue
                if lx.text.startswith('|', lx.pos):
                    lx.pos += 1
                    lx.skip_spaces()
                    cur = impl
                    continue
                ev = lx.read_eval(True)
                if not ev.parts:
                    raise lx.err('expected path in build statement, got %r' % lx.text[lx.pos:lx.pos + 10])
                cur.append(ev)
            lx.expect_newline()
            escope = Scope(scope)
            # ninja evaluates the bindings of a build block in the enclosing (file) scope
            read_bindings(lambda k, v: escope.vars.__setitem__(k, v.evaluate(scope)))
            edge = Edge(rule, escope, lineno)
            # manual: paths of the build line are expanded with the edge's bindings visible (ninja evaluates them in
            # the edge environment), falling back to the enclosing scope
            edge.outs = [canon_path(x.evaluate(escope)) for x in outs]
            edge.implicit_outs = [canon_path(x.evaluate(escope)) for x in impl_outs]
            edge.ins = [canon_path(x.evaluate(escope)) for x in ins]
            edge.implicit = [canon_path(x.evaluate(escope)) for x in impl]
            edge.order_only = [canon_path(x.evaluate(escope)) for x in oo]
            edge.validations = [canon_path(x.evaluate(escope)) for x in val]
            edge.pool = edge.get('pool')
            if edge.pool and edge.pool not in mf.pools:
                mf.errors.append("%s:%d: unknown pool name '%s'" % (fname, lineno, edge.pool))
            if not edge.outs and not edge.implicit_outs:
                mf.errors.append('%s:%d: build statement without outputs' % (fname, lineno))
            for o in edge.all_outs:
                if o in mf.producer:
                    mf.errors.append("%s:%d: multiple rules generate %s" % (fname, lineno, o))
                else:
                    mf.producer[o] = edge
            if len(set(edge.all_outs)) != len(edge.all_outs):
                mf.errors.append('%s:%d: output listed twice in one build statement' % (fname, lineno))
            mf.edges.append(edge)
        elif kw == 'default':
            while not lx.peek_newline() and not lx.at_eof():
                mf.defaults.append(canon_path(lx.read_eval(True).evaluate(scope)))
            lx.expect_newline()
        elif kw == 'pool':
            name = lx.read_ident()
            lx.expect_newline()
            depth: T.List[int] = []

            def addp(k, v):
                if k != 'depth':
                    raise lx.err("unexpected variable '%s' in pool" % k)
                depth.append(int(v.evaluate(scope)))
            read_bindings(addp)
            if not depth:
                mf.errors.append("%s: pool '%s' without depth" % (fname, name))
            if name in mf.pools:
                mf.errors.append("%s: duplicate pool '%s'" % (fname, name))
            mf.pools[name] = depth[0] if depth else 0
        else:
            p = lx.read_eval(True).evaluate(scope)
            lx.expect_newline()
            sub = os.path.join(basedir, p)
            parse_file(sub, mf, scope if kw == 'include' else Scope(scope))
    return mf


# ---- execution -----------------------------------------------------------------------------------------------
class RunResult(T.NamedTuple):
    rc: int
    output: str
    command: str


def run_edge(edge: Edge, builddir: str, env: T.Optional[T.Dict[str, str]] = None, timeout: float = 300.0) -> RunResult:
    """Run one edge the way ninja does on POSIX: create the directories of its outputs, write the response file,
    run `/bin/sh -c command` in the build directory, delete the response file on success."""
    if edge.is_phony:
        return RunResult(0, '', '')
    for o in edge.all_outs:
        d = os.path.dirname(os.path.join(builddir, o))
        if d:
            os.makedirs(d, exist_ok=True)
    cmd = edge.command()
    rsp = edge.get('rspfile')
    if rsp:
        rp = os.path.join(builddir, rsp)
        os.makedirs(os.path.dirname(rp) or '.', exist_ok=True)
        with open(rp, 'w', encoding='utf-8', errors='surrogateescape', newline='') as f:
            f.write(edge.get('rspfile_content'))
    try:
        r = subprocess.run(['/bin/sh', '-c', cmd], cwd=builddir, env=env, stdin=subprocess.DEVNULL,
                           stdout=subprocess.PIPE, stderr=subprocess.STDOUT, timeout=timeout)
        rc, out = r.returncode, r.stdout.decode('utf-8', 'replace')
    except subprocess.TimeoutExpired as e:
        rc, out = 124, (e.stdout or b'').decode('utf-8', 'replace') + '\n[timeout]'
    if rsp and rc == 0:
        try:
            os.unlink(os.path.join(builddir, rsp))
        except OSError:
            pass
    return RunResult(rc, out, cmd)


def topo_order(mf: Manifest, targets: T.Optional[T.Iterable[str]] = None) -> T.List[Edge]:
    """A dependency-respecting order (declaration order among ready edges) of the edges needed for `targets`
    (default: the manifest's default targets, or everything)."""
    if targets is None:
        targets = mf.defaults or [o for e in mf.edges for o in e.all_outs]
    need: T.List[Edge] = []
    seen: T.Set[int] = set()

    def visit(e: Edge):
        if id(e) in seen:
            return
        seen.add(id(e))
        for p in e.all_ins:
            d = mf.producer.get(p)
            if d is not None:
                visit(d)
        need.append(e)
    for t in targets:
        e = mf.producer.get(canon_path(t))
        if e is not None:
            visit(e)
    return need
