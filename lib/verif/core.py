# Common runner support: tiers, evidence, known findings, violation reporting, parallel map.
from __future__ import annotations
import argparse, atexit, hashlib, json, multiprocessing as mp, os, shutil, subprocess, sys, time, traceback
import typing as T

VERIF = os.path.dirname(os.path.dirname(os.path.dirname(os.path.abspath(__file__))))
REPO = os.environ.get('VERIF_REPO', '/repo')
EVIDENCE_SCHEMA = '/root/.vp/EVIDENCE.schema.json'
NCPU = int(os.environ.get('VERIF_JOBS', str(os.cpu_count() or 4)))

if REPO not in sys.path:
    sys.path.insert(0, REPO)


def own_environment() -> None:
    """Fix every ambient source of nondeterminism we can reach from the environment."""
    e = os.environ
    e['LC_ALL'] = 'C.UTF-8'
    e['LANG'] = 'C.UTF-8'
    e['TZ'] = 'UTC'
    e['MESON_VERIF'] = '1'
    for k in list(e):
        if k.startswith('MESON_') and k not in ('MESON_VERIF',):
            del e[k]
    for k in ('CC', 'CXX', 'CFLAGS', 'CXXFLAGS', 'LDFLAGS', 'CPPFLAGS', 'DESTDIR', 'NINJA', 'PKG_CONFIG_PATH',
              'PKG_CONFIG_LIBDIR', 'PKG_CONFIG', 'CC_LD', 'AR', 'STRIP', 'PYTHONPATH', 'PYTHONSTARTUP',
              'COLUMNS', 'LINES'):
        e.pop(k, None)
    os.umask(0o022)


_scratch: T.Optional[str] = None


def scratch_root() -> str:
    """Per-process scratch directory on tmpfs, removed at exit (only by the process that made it)."""
    global _scratch
    if _scratch is None:
        base = os.environ.get('VERIF_SCRATCH')
        if not base:
            base = '/dev/shm' if os.path.isdir('/dev/shm') and os.access('/dev/shm', os.W_OK) else '/var/tmp'
        _scratch = os.path.join(base, 'verif.%d' % os.getpid())
        os.makedirs(_scratch, exist_ok=True)
        owner = os.getpid()

        def _rm(p=_scratch, owner=owner):
            if os.getpid() == owner:
                shutil.rmtree(p, ignore_errors=True)
        atexit.register(_rm)
    return _scratch


def die_with_parent() -> None:
    """A worker must never outlive the check: an orphan that keeps the inherited stdout pipe open makes whoever captures the
    output of the check wait forever."""
    try:
        import ctypes, signal
        ctypes.CDLL(None, use_errno=True).prctl(1, signal.SIGKILL)      # PR_SET_PDEATHSIG
        if os.getppid() == 1:
            os._exit(1)
    except Exception:
        pass


def limit_worker_memory() -> None:
    """A change to the code under test that makes it eat memory must end in a MemoryError inside the worker (which the check
    reports), never in the kernel killing the worker: multiprocessing.Pool silently loses the task of a killed worker and the
    check would wait for it forever.  Headroom above what the worker inherited: VERIF_WORKER_MEM_GB (default 4)."""
    try:
        import resource
        gb = float(os.environ.get('VERIF_WORKER_MEM_GB', '4'))
        if gb <= 0:
            return
        with open('/proc/self/statm') as f:
            vsize = int(f.read().split()[0]) * os.sysconf('SC_PAGE_SIZE')
        lim = vsize + int(gb * (1 << 30))
        soft, hard = resource.getrlimit(resource.RLIMIT_AS)
        if hard != resource.RLIM_INFINITY:
            lim = min(lim, hard)
        if soft == resource.RLIM_INFINITY or soft > lim:
            resource.setrlimit(resource.RLIMIT_AS, (lim, hard))
    except Exception:
        pass


def _worker_init(init, initargs) -> None:
    die_with_parent()
    limit_worker_memory()
    if init:
        init(*initargs)


def _run_chunk(arg):
    fn, chunk = arg
    return [fn(x) for x in chunk]


def pmap(fn: T.Callable, items: T.Iterable, jobs: int = 0, chunksize: int = 1, init=None, initargs=()) -> T.Iterator:
    """Ordered parallel map over forked workers (workers inherit imported mesonbuild from REPO)."""
    jobs = jobs or NCPU
    items = list(items)
    if jobs <= 1 or len(items) <= 1:
        if init:
            init(*initargs)
        for it in items:
            yield fn(it)
        return
    ctx = mp.get_context('fork')
    pool = ctx.Pool(min(jobs, len(items)), initializer=_worker_init, initargs=(init, initargs))
    # No `with`: leaving a with-block through an exception calls Pool.terminate(), which can deadlock while workers are busy.
    pids = sorted(p.pid for p in pool._pool)
    try:
        chunksize = max(1, chunksize)
        it = pool.imap(_run_chunk, [(fn, items[i:i + chunksize]) for i in range(0, len(items), chunksize)])
        while True:
            try:
                rs = it.next(timeout=15)
            except StopIteration:
                break
            except mp.TimeoutError:
                # a worker that was killed (out of memory, a signal) takes its task with it and imap() would wait forever
                if sorted(p.pid for p in pool._pool) != pids:
                    raise InternalError('a worker process died (killed?); its task is lost')
                continue
            yield from rs
    except GeneratorExit:
        # the consumer stopped early (e.g. zip() with a shorter first argument): the workers are idle or finishing; terminate()
        # is safe here (never kill them by hand: an idle worker holds the queue's read lock, which terminate() then waits for)
        pool.terminate()
        raise
    except BaseException:
        # an exception raised in a worker (or while collecting): the check is broken, never a verdict
        traceback.print_exc()
        print('INTERNAL-ERROR exception in a worker process or while collecting its results', file=sys.stderr, flush=True)
        hard_exit(_internal_exit_code())
    else:
        pool.close()
        pool.join()


_active_check = None


def _internal_exit_code() -> int:
    """2 = the check is broken.  When violations not listed as known were already printed (each with its replay file) the run
    is a failed verdict all the same: the harness giving up afterwards (the tree under test exhausting memory, say) must not
    turn the reported violations into "no verdict"."""
    if _active_check is not None and getattr(_active_check, 'n_viol', 0) > 0:
        print('(violations were reported before the internal error: exit 1)', file=sys.stderr, flush=True)
        return 1
    return 2


def hard_exit(code: int) -> T.NoReturn:
    """Leave without unwinding (unwinding out of a `for ... in pmap(...)` loop finalises the generator, whose
    Pool.terminate() can deadlock with busy workers); scratch is removed by hand."""
    try:
        sys.stdout.flush()
        sys.stderr.flush()
    except Exception:
        pass
    if _scratch is not None:
        shutil.rmtree(_scratch, ignore_errors=True)
    try:
        for ch in mp.active_children():
            ch.kill()
    except Exception:
        pass
    os._exit(code)


class InternalError(Exception):
    """The check itself is broken (nondeterminism, vacuity, harness failure): exit 2, never a verdict."""


class Check:
    def __init__(self, pid: str, level: str, argv: T.Optional[T.List[str]] = None):
        ap = argparse.ArgumentParser(prog='check ' + pid)
        ap.add_argument('--tier', choices=['quick', 'thorough'], default=os.environ.get('VERIF_TIER') or 'quick')
        ap.add_argument('--replay', default=None)
        ap.add_argument('--seed', type=int, default=int(os.environ.get('VERIF_SEED') or 0))
        ap.add_argument('--only', default=None, help='comma list of sub-parts to run (debugging)')
        ap.add_argument('--no-evidence', action='store_true')
        self.args = ap.parse_args(argv)
        global _active_check
        _active_check = self
        self.pid = pid
        self.level = level
        self.tier = self.args.tier
        self.seed = self.args.seed
        self.thorough = self.tier == 'thorough'
        self.t0 = time.time()
        self.cov: T.Dict[str, T.Any] = {}
        self.assumptions: T.List[str] = []
        self.samples: T.List[T.Any] = []
        self.n_viol = 0
        self.n_known = 0
        self._seen_keys: T.Dict[str, int] = {}
        self._known_hit: T.Dict[str, int] = {}
        self.parts: T.Dict[str, T.Dict[str, T.Any]] = {}
        self.known = [k for k in load_known() if k['property'] == pid]
        own_environment()

    # -- sub-part selection ------------------------------------------------------------------
    def want(self, part: str) -> bool:
        return not self.args.only or part in self.args.only.split(',')

    def q(self, quick, thorough):
        return thorough if self.thorough else quick

    # -- counters ------------------------------------------------------------------------------
    def add(self, key: str, n: int = 1) -> None:
        self.cov[key] = self.cov.get(key, 0) + n

    def part(self, name: str, **kw) -> None:
        d = self.parts.setdefault(name, {})
        for k, v in kw.items():
            if isinstance(v, (int, float)) and not isinstance(v, bool) and isinstance(d.get(k), (int, float)):
                d[k] += v
            else:
                d[k] = v

    def sample(self, s: T.Any, cap: int = 8) -> None:
        if len(self.samples) < cap:
            self.samples.append(s)

    def assume(self, s: str) -> None:
        if s not in self.assumptions:
            self.assumptions.append(s)

    # -- violations -----------------------------------------------------------------------------
    def violation(self, key: str, what: str, replay: T.Dict[str, T.Any]) -> bool:
        """Report one violating case. key = narrow class of the failure. Returns True if it is new (not known)."""
        for k in self.known:
            if k.get('status') == 'known' and k['key'] == key:
                self._known_hit[key] = self._known_hit.get(key, 0) + 1
                if self._known_hit[key] == 1:
                    self.n_known += 1
                    print('KNOWN-FINDING: property=%s %s [%s]' % (self.pid, k['what'], key), flush=True)
                return False
        self._seen_keys[key] = self._seen_keys.get(key, 0) + 1
        self.n_viol += 1
        if self._seen_keys[key] <= 3 and len(self._seen_keys) <= 25:
            body = dict(replay)
            body.update({'property': self.pid, 'key': key, 'what': what})
            blob = json.dumps(body, sort_keys=True, default=repr)
            h = hashlib.sha1(blob.encode()).hexdigest()[:12]
            d = os.path.join(VERIF, 'replays')
            os.makedirs(d, exist_ok=True)
            path = os.path.join(d, '%s-%s.json' % (self.pid, h))
            with open(path, 'w') as f:
                f.write(json.dumps(body, indent=1, sort_keys=True, default=repr))
            print('VIOLATION property=%s replay=%s' % (self.pid, path), flush=True)
            print('  key=%s: %s' % (key, what[:400]), flush=True)
        return True

    # -- finish ------------------------------------------------------------------------------------
    def finish(self, **coverage) -> T.NoReturn:
        cov = dict(self.cov)
        cov.update(coverage)
        if self.parts:
            cov['parts'] = self.parts
        cov.setdefault('samples', self.samples or ['(none recorded)'])
        cov['known_findings_hit'] = {k: v for k, v in sorted(self._known_hit.items())}
        if self._seen_keys:
            cov['violation_keys'] = dict(sorted(self._seen_keys.items()))
        ev = {
            'property_id': self.pid, 'tier': self.tier, 'seed': self.seed, 'level': self.level,
            'coverage': cov, 'assumptions': self.assumptions, 'wall_s': round(time.time() - self.t0, 2),
            'violations': self.n_viol,
        }
        if not self.args.no_evidence and not self.args.replay and not self.args.only:
            path = os.path.join(VERIF, 'evidence', self.pid + '.json')
            os.makedirs(os.path.dirname(path), exist_ok=True)
            tmp = path + '.tmp%d' % os.getpid()
            with open(tmp, 'w') as f:
                json.dump(ev, f, indent=1, sort_keys=True, default=repr)
                f.write('\n')
            os.replace(tmp, path)
            err = validate_evidence(path)
            if err:
                print('INTERNAL: evidence does not validate: ' + err, file=sys.stderr)
                sys.exit(2)
        brief = {k: v for k, v in cov.items() if isinstance(v, (int, float, bool))}
        print('%s tier=%s seed=%d wall=%.1fs violations=%d known=%d %s' % (
            self.pid, self.tier, self.seed, time.time() - self.t0, self.n_viol, self.n_known,
            json.dumps(brief, sort_keys=True)), flush=True)
        sys.stdout.flush()
        sys.exit(1 if self.n_viol else 0)

    def internal(self, msg: str) -> T.NoReturn:
        print('INTERNAL-ERROR property=%s %s' % (self.pid, msg), file=sys.stderr, flush=True)
        hard_exit(_internal_exit_code())

    def require(self, cond: bool, msg: str) -> None:
        """Anti-vacuity assertion: failing it is an internal error of the check, not a verdict."""
        if not cond:
            if self.n_viol:
                # the run already has a verdict; lost coverage is then a consequence of the violation, not a harness fault
                print('note: self-check skipped after violations: ' + msg, file=sys.stderr)
                return
            self.internal('vacuity/self-check failed: ' + msg)


def load_known() -> T.List[T.Dict[str, T.Any]]:
    p = os.path.join(VERIF, 'known_findings.json')
    if not os.path.exists(p):
        return []
    with open(p) as f:
        return json.load(f)['findings']


_VALIDATOR = r'''
import json,sys,jsonschema
s=json.load(open(sys.argv[1])); d=json.load(open(sys.argv[2]))
v=jsonschema.Draft202012Validator(s)
errs=[e.message for e in v.iter_errors(d)]
print("; ".join(errs)[:2000]); sys.exit(1 if errs else 0)
'''


def validate_evidence(path: str) -> str:
    if not os.path.exists(EVIDENCE_SCHEMA):
        return ''
    vt = shutil.which('python3-vt') or '/opt/veriftools/pyvenv/bin/python'
    if not os.path.exists(vt) and not shutil.which(vt):
        return ''
    try:
        r = subprocess.run([vt, '-c', _VALIDATOR, EVIDENCE_SCHEMA, path], capture_output=True, text=True, timeout=120)
    except Exception as e:  # validator unavailable: do not block the verdict
        return ''
    return r.stdout.strip() if r.returncode else ''


def run_main(fn: T.Callable[[], None]) -> None:
    try:
        fn()
    except SystemExit:
        raise
    except InternalError as e:
        print('INTERNAL-ERROR ' + str(e), file=sys.stderr)
        hard_exit(2)
    except BaseException:
        traceback.print_exc()
        print('INTERNAL-ERROR unexpected exception in check', file=sys.stderr)
        hard_exit(2)
