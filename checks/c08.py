# C08 - option state persists faithfully across the build-directory lifecycle.
# Explicit-state BFS over command histories on ONE generated project (a top-level project and a subproject, each with
# an option file that the `edit ...` commands of the alphabet rewrite).  A transition runs a real meson CLI command
# (fork of a process with mesonbuild pre-imported, mesonmain.run) on a real build directory restored from the
# in-memory snapshot of its source state; every reached state is closed by an observer step (plain
# `setup --reconfigure` on a copy, whose build files message() every tracked get_option()) that never becomes part of
# the history.  Oracle: LifecycleModel (plain dicts, written from the docs and the property text) + the free
# differential oracle (two histories with the same model state must be observationally equal).
import copy, ctypes, json, os, pickle, re, resource, shutil, sys, time, zlib
from verif.core import Check, pmap, run_main, scratch_root, NCPU, hard_exit
from verif import mesonproc as mp

# ------------------------------------------------------------------------------------------------------------------
# The project.  Top-level option file variants (an `edit X` command writes variant X, then reconfigures).
# entry: name -> (type, default, choices | None)
BASE = {'s': ('string', 'sdef', None), 'c': ('combo', 'a', ['a', 'b', 'c']), 'boom': ('boolean', 'false', None),
        'late': ('boolean', 'false', None), 'r': ('string', 'rdef', None),
        'i': ('integer', '3', (0, 10)),          # integer: the third field is (min, max)
        'use2': ('boolean', 'false', None)}      # true: the build files configure a second subproject, sub2


def _variant(**chg):
    d = dict(BASE)
    for k, v in chg.items():
        if v is None:
            d.pop(k)
        else:
            d[k] = v
    return d


VARIANTS = {
    'base': _variant(),
    'add': _variant(n=('string', 'ndef', None)),                      # a new option
    'remove': _variant(r=None),                                       # an option removed
    'ab': _variant(c=('combo', 'a', ['a', 'b'])),                     # choices shrink: 'c' becomes invalid
    'bc': _variant(c=('combo', 'b', ['b', 'c'])),                     # choices shrink + new default: 'a' becomes invalid
    'newdef': _variant(s=('string', 'sdef2', None)),                  # a default changes
    'imax': _variant(i=('integer', '3', (0, 4))),                     # only the upper bound of an integer option moves
    'imin': _variant(i=('integer', '7', (5, 10))),                    # only the lower bound moves (and the default with it)
    # COMPOSITE edits: ONE edit of the file that removes an option and adds options at the same time (#added >= #removed
    # from `base`; after `edit add` the same variants remove two options and add fewer or as many)
    'rename': _variant(r=None, r2=('string', 'rdef', None)),          # an option renamed (same type, same default)
    'swap': _variant(r=None, q=('integer', '5', (0, 9))),             # an option replaced by one of another type
    'rm1add2': _variant(r=None, n=('string', 'ndef', None), n2=('boolean', 'true', None)),   # one removed, two added
}
# The subproject's option file has variants of its own (an `edit sub X` command writes variant X, then reconfigures).
# s, c and i are declared `yield: true` and have a top-level option of the same name and type in every top-level variant.
SUB_DECL = {'s': ('string', 'subsdef', None), 'c': ('combo', 'a', ['a', 'b', 'c']), 'o': ('string', 'odef', None),
            'i': ('integer', '2', (0, 10))}
SUB_YIELD = ('s', 'c', 'i')


def _subvariant(**chg):
    d = dict(SUB_DECL)
    for k, v in chg.items():
        if v is None:
            d.pop(k)
        else:
            d[k] = v
    return d


SUB_VARIANTS = {
    'base': _subvariant(),
    'ab': _subvariant(c=('combo', 'a', ['a', 'b'])),                  # yielding combo shrinks: an own 'b' stays valid, an own 'c' does not
    'ca': _subvariant(c=('combo', 'c', ['c', 'a'])),                  # shrinks + new default: an own 'b' becomes invalid
    'add': _subvariant(m=('string', 'mdef', None)),                   # a new option
    'remove': _subvariant(o=None),                                    # an option removed
    'newdef': _subvariant(o=('string', 'odef2', None)),               # a default changes
    'imax': _subvariant(i=('integer', '2', (0, 5))),                  # yielding integer: an own 7 becomes invalid
    'imin': _subvariant(i=('integer', '6', (5, 10))),                 # ... an own 7 stays valid (1 would not)
    'nofile': None,                                                   # the whole option file deleted: every option removed
    # COMPOSITE edits (see VARIANTS)
    'rename': _subvariant(o=None, o2=('string', 'odef', None)),
    'swap': _subvariant(o=None, q=('combo', 'x', ['x', 'y'])),
    'rm1add2': _subvariant(o=None, m=('string', 'mdef', None), m2=('integer', '4', (0, 9))),
}


def sub_decl(sv):
    return SUB_VARIANTS[sv] or {}


GLOBAL_BUILTINS = {'warning_level': ('1', ['0', '1', '2', '3', 'everything']),
                   'default_library': ('shared', ['shared', 'static', 'both'])}
SUB2_DECL = {'o': ('string', 'o2def', None)}   # sub2 is only configured while use2 is true ("late" subproject)
HIDDEN = ('boom', 'late')   # options whose `true` value makes configuration fail; `late` is not message()d


def options_text(decl, yielding=()):
    out = []
    for k, (ty, dv, ch) in decl.items():
        a = ["'%s'" % k, "type: '%s'" % ty]
        if ty == 'integer':
            a.append('min: %d, max: %d' % ch)
        elif ch is not None:
            a.append('choices: [%s]' % ', '.join("'%s'" % x for x in ch))
        a.append('value: %s' % (dv if ty in ('boolean', 'integer') else "'%s'" % dv))
        if k in yielding:
            a.append('yield: true')
        out.append('option(%s)\n' % ', '.join(a))
    return ''.join(out)


def top_build_text(decl):
    names = [k for k in decl if k != 'late'] + sorted(GLOBAL_BUILTINS)
    return ("project('top', meson_version: '>=1.1')\n"
            "foreach k : [%s]\n  message('OBS', 'top', k, get_option(k))\nendforeach\n"
            "if get_option('boom')\n  error('boom is set')\nendif\n"
            "subproject('sub')\n"
            "if get_option('use2')\n  subproject('sub2')\nendif\n"
            "if get_option('late')\n  meson.add_postconf_script('false')\nendif\n") % ', '.join("'%s'" % k for k in names)


def sub_build_text(decl):
    return ("project('sub', meson_version: '>=1.1')\n"
            "foreach k : [%s]\n  message('OBS', 'sub', k, get_option(k))\nendforeach\n"
            % ', '.join("'%s'" % k for k in list(decl) + sorted(GLOBAL_BUILTINS)))


SUB2_BUILD = "project('sub2', meson_version: '>=1.1')\nmessage('OBS', 'sub2', 'o', get_option('o'))\n"


SYNTAX_ERROR = "option('x', type: 'string' value 'oops'\n"


def source_tree(fv, broken=None):
    """fv = (top-level option-file variant, subproject option-file variant); broken = None | 'top' | 'sub'"""
    decl = VARIANTS[fv[0]]
    t = {'meson.build': top_build_text(decl), 'meson.options': options_text(decl) + (SYNTAX_ERROR if broken == 'top' else ''),
         'subprojects/sub/meson.build': sub_build_text(sub_decl(fv[1])),
         'subprojects/sub2/meson.build': SUB2_BUILD,
         'subprojects/sub2/meson.options': options_text(SUB2_DECL)}
    if SUB_VARIANTS[fv[1]] is not None or broken == 'sub':
        t['subprojects/sub/meson.options'] = options_text(sub_decl(fv[1]), SUB_YIELD) + (SYNTAX_ERROR if broken == 'sub' else '')
    return t


# ------------------------------------------------------------------------------------------------------------------
# The alphabet.  D = -D arguments in order, U = -U arguments.
FAILD = [('s', 'sX'), ('sub:warning_level', '0'), ('sub:o', 'oX')]     # values no other command ever gives


def C(name, kind, D=(), U=(), variant=None, subvariant=None, inject=None, tiers='qt'):
    return {'name': name, 'kind': kind, 'D': list(D), 'U': list(U), 'variant': variant, 'subvariant': subvariant,
            'inject': inject, 'tiers': tiers}


ALPHABET = [
    C('setup', 'setup'),
    C('configure -Ds=s1', 'configure', [('s', 's1')]),
    C('configure -Ds=s2', 'configure', [('s', 's2')], tiers='t'),
    C('configure -Ds=', 'configure', [('s', '')]),                 # the empty string is a value like any other
    C('configure -Dc=b', 'configure', [('c', 'b')]),               # (after `edit bc`: a -D equal to the current, unrecorded value)
    C('configure -Dc=c', 'configure', [('c', 'c')]),
    C('configure -Dr=r1', 'configure', [('r', 'r1')]),
    C('configure -Di=9', 'configure', [('i', '9')]),
    C('configure -Di=1', 'configure', [('i', '1')], tiers='t'),
    C('configure -Dwarning_level=2', 'configure', [('warning_level', '2')]),
    C('configure -Dsub:s=t1', 'configure', [('sub:s', 't1')]),
    C('configure -Dsub:o=o1', 'configure', [('sub:o', 'o1')]),
    # own values of yielding options that have a choice list / a range (the subproject's option file can then move it)
    C('configure -Dsub:c=b', 'configure', [('sub:c', 'b')]),
    C('configure -Dsub:c=c', 'configure', [('sub:c', 'c')], tiers='t'),
    C('configure -Dsub:i=7', 'configure', [('sub:i', '7')], tiers='t'),
    C('configure -Usub:c', 'configure', U=['sub:c']),
    C('configure -Dsub:warning_level=3', 'configure', [('sub:warning_level', '3')]),
    C('configure -Dsub:default_library=static', 'configure', [('sub:default_library', 'static')], tiers='t'),
    # colliding values: an override equal to the value it overrides (dropping it later changes nothing *now*)
    C('configure -Dsub:warning_level=3 -Dwarning_level=3', 'configure', [('sub:warning_level', '3'), ('warning_level', '3')]),
    C('configure -Dsub:s=t1 -Ds=t1', 'configure', [('sub:s', 't1'), ('s', 't1')], tiers='t'),
    # the late subproject: enabled by an option; its own option may have been given before it was ever configured
    C('configure -Duse2=true', 'configure', [('use2', 'true')]),
    C('configure -Duse2=false', 'configure', [('use2', 'false')], tiers='t'),
    C('setup --reconfigure -Duse2=true', 'reconfigure', [('use2', 'true')], tiers='t'),
    C('configure -Dsub2:o=p2', 'configure', [('sub2:o', 'p2')]),
    C('setup --reconfigure -Dsub2:o=p3', 'reconfigure', [('sub2:o', 'p3')], tiers='t'),
    C('configure -Usub:warning_level', 'configure', U=['sub:warning_level']),
    C('configure -Usub:s', 'configure', U=['sub:s'], tiers='t'),      # (quick: -Usub:c, the yielding option that also has a choice list)
    C('setup -Ds=s2', 'setup', [('s', 's2')], tiers='t'),
    C('setup --reconfigure', 'reconfigure'),
    C('setup --reconfigure -Dc=c', 'reconfigure', [('c', 'c')]),
    C('setup --reconfigure -Dsub:s=t2', 'reconfigure', [('sub:s', 't2')], tiers='t'),
    C('setup --reconfigure -Ds=', 'reconfigure', [('s', '')], tiers='t'),
    C('setup --wipe', 'wipe'),
    C('setup --wipe -Ds=s2', 'wipe', [('s', 's2')]),
    C('setup --wipe -Dc=c', 'wipe', [('c', 'c')], tiers='t'),
    C('edit add', 'edit', variant='add'),
    C('edit remove', 'edit', variant='remove'),
    C('edit ab', 'edit', variant='ab'),
    C('edit bc', 'edit', variant='bc'),
    C('edit newdef', 'edit', variant='newdef'),
    C('edit imax', 'edit', variant='imax'),
    C('edit imin', 'edit', variant='imin', tiers='t'),
    C('edit base', 'edit', variant='base'),
    # edits of the SUBPROJECT's option file
    C('edit sub ab', 'edit', subvariant='ab'),
    C('edit sub ca', 'edit', subvariant='ca'),
    C('edit sub add', 'edit', subvariant='add', tiers='t'),
    C('edit sub remove', 'edit', subvariant='remove', tiers='t'),
    C('edit sub newdef', 'edit', subvariant='newdef', tiers='t'),
    C('edit sub imax', 'edit', subvariant='imax', tiers='t'),
    C('edit sub imin', 'edit', subvariant='imin', tiers='t'),
    C('edit sub nofile', 'edit', subvariant='nofile'),
    C('edit sub base', 'edit', subvariant='base'),
    # an edit that is first seen by `meson configure` (which re-reads a changed option file itself) instead of a reconfigure;
    # the -D is for an option the edit does not touch
    C('edit ab + configure -Dr=r1', 'editconf', [('r', 'r1')], variant='ab', tiers='t'),
    C('edit sub ab + configure -Dr=r1', 'editconf', [('r', 'r1')], subvariant='ab', tiers='t'),
    C('edit sub ca + configure -Dr=r1', 'editconf', [('r', 'r1')], subvariant='ca', tiers='t'),
    # ---- the composite-edit family (tiers='': not part of the BFS alphabet, see composite_family) -----------------------
    C('edit rename', 'edit', variant='rename', tiers=''),
    C('edit swap', 'edit', variant='swap', tiers=''),
    C('edit rm1add2', 'edit', variant='rm1add2', tiers=''),
    C('edit sub rename', 'edit', subvariant='rename', tiers=''),
    C('edit sub swap', 'edit', subvariant='swap', tiers=''),
    C('edit sub rm1add2', 'edit', subvariant='rm1add2', tiers=''),
    C('edit rename + configure -Ds=s1', 'editconf', [('s', 's1')], variant='rename', tiers=''),
    C('edit swap + configure -Ds=s1', 'editconf', [('s', 's1')], variant='swap', tiers=''),
    C('edit rm1add2 + configure -Ds=s1', 'editconf', [('s', 's1')], variant='rm1add2', tiers=''),
    C('edit sub rename + configure -Ds=s1', 'editconf', [('s', 's1')], subvariant='rename', tiers=''),
    C('edit sub swap + configure -Ds=s1', 'editconf', [('s', 's1')], subvariant='swap', tiers=''),
    C('edit sub rm1add2 + configure -Ds=s1', 'editconf', [('s', 's1')], subvariant='rm1add2', tiers=''),
    C('edit sub nofile + configure -Ds=s1', 'editconf', [('s', 's1')], subvariant='nofile', tiers=''),
    C('edit base + configure -Ds=s2', 'editconf', [('s', 's2')], variant='base', tiers=''),
    C('edit sub base + configure -Ds=s2', 'editconf', [('s', 's2')], subvariant='base', tiers=''),
    C('configure -Dr2=x2', 'configure', [('r2', 'x2')], tiers=''),       # the option a rename creates (unknown anywhere else)
    C('configure -Dsub:o2=y2', 'configure', [('sub:o2', 'y2')], tiers=''),
    C('fail configure invalid', 'configure', FAILD + [('c', 'zzz')], inject='invalid-value'),
    C('fail reconfigure boom', 'reconfigure', FAILD + [('boom', 'true')], inject='error()'),
    C('fail reconfigure late', 'reconfigure', FAILD + [('late', 'true')], inject='postconf-script'),
    C('fail edit syntax', 'edit', inject='option-file-syntax'),
    C('fail edit sub syntax', 'edit', inject='sub-option-file-syntax', tiers='t'),
]
CMD = {c['name']: c for c in ALPHABET}
# Roots: the fresh `meson setup` every history starts from.  The second one gives a value to an option of the subproject
# that is not configured yet (meson accepts that only on the first setup: "options for subprojects that were not used").
# A root other than the plain one is written as the first element of a history.
# The third one gives a yielding option of the subproject a value of its own right at the first setup.
ROOTS = [C('ROOT setup', 'root'), C('ROOT setup -Dsub2:o=p1', 'root', [('sub2:o', 'p1')]),
         C('ROOT setup -Dsub:c=b', 'root', [('sub:c', 'b')])]
CMD.update({c['name']: c for c in ROOTS})


def argv_of(cmd):
    d = ['-D%s=%s' % kv for kv in cmd['D']] + ['-U%s' % k for k in cmd['U']]
    k = cmd['kind']
    if k == 'setup':
        return ['setup', 'b', 'src'] + d
    if k == 'configure' or k == 'editconf':
        return ['configure', 'b'] + d
    if k == 'reconfigure' or k == 'edit':
        return ['setup', '--reconfigure', 'b', 'src'] + d
    if k == 'wipe':
        return ['setup', '--wipe', 'b', 'src'] + d
    raise AssertionError(k)


# ------------------------------------------------------------------------------------------------------------------
# LifecycleModel: plain dicts.  Written from the property statement, Build-options.md ("Yielding to superproject
# option"), Builtin-options.md ("Specifying options per subproject"), Configuring-a-build-directory.md ("Per project
# subproject options rewrite": -Dsub:opt=v / -Usub:opt) and Commands.md (setup on an existing build directory).
class Unspecified(Exception):
    pass


UNSPECIFIED = [
    '-Dk=v / -Dsub:k=v for a project option that is not (or no longer) declared in the option file of its project',
    '--wipe while cmd_line.txt records a value for an option that no longer exists, or a value the current choice list rejects',
    'exit status of -Usub:k when sub:k has no override (no effect either way; the effect is still checked)',
    '-U of a subproject project option that does not yield (or is no longer declared); -D/-U of options of an undeclared subproject',
    'an edit that takes the parent away from a yielding option (removed / retyped at the top level): not in the alphabet',
    'whether -Dsub2:o=v succeeds while sub2 has never been configured in this build directory (meson rejects it as unknown '
    'except on the first setup): either way is accepted; on failure nothing may move, on success the value counts',
    'meson configure -Dboom=true (setting, without reconfiguring, a value that makes the build files fail): not in the alphabet',
    'the value introspection / meson configure list for yielding or per-subproject-augmented options (DESIGN 7.15): part of the '
    'state key only; get_option() is the ground truth',
]


def model_initial(D=()):
    m = {'file': 'base', 'conf': 'base',                 # top-level option file: variant on disk / variant last configured
         'subfile': 'base', 'subconf': 'base',           # the same for the subproject's option file
         'top': {k: v[1] for k, v in VARIANTS['base'].items()},
         'sub': {k: v[1] for k, v in SUB_DECL.items() if k not in SUB_YIELD},
         'sub2': {'o': SUB2_DECL['o'][1]},               # seen by get_option() only while top.use2 is true
         'over': {},                                     # separately set values of yielding subproject options
         'glob': {k: v[0] for k, v in GLOBAL_BUILTINS.items()},
         'aug': {},                                      # per-subproject overrides of builtin options
         'cmd': {}}                                      # recorded command line
    for k, v in D:
        _set(m, k, v)
    return m


def _valid(ty, choices, v):
    if ty == 'combo':
        return v in choices
    if ty == 'boolean':
        return v in ('true', 'false')
    if ty == 'integer':
        return choices[0] <= int(v) <= choices[1]
    return True


def _set(m, key, v):
    """One -Dkey=v.  Returns False when the value is invalid (the whole command then fails)."""
    decl, sdecl = VARIANTS[m['conf']], sub_decl(m['subconf'])
    if ':' in key:
        sp, name = key.split(':', 1)
        if sp == 'sub2':
            assert name in SUB2_DECL
            m['sub2'][name] = v                         # "the last one the user gave it", whenever that was
            m['cmd'][key] = v
            return True
        assert sp == 'sub'
        if name in GLOBAL_BUILTINS:
            if v not in GLOBAL_BUILTINS[name][1]:
                return False
            m['aug'][name] = v                          # "-Dnumbercruncher:optimization=3": custom value for the subproject
        elif name not in sdecl:
            raise Unspecified('-D%s for an option that is not (or no longer) declared' % key)
        elif not _valid(sdecl[name][0], sdecl[name][2], v):
            return False
        elif name in SUB_YIELD:
            m['over'][name] = v                         # "sets the value separately from the option it yields to"
        else:
            m['sub'][name] = v
    elif key in GLOBAL_BUILTINS:
        if v not in GLOBAL_BUILTINS[key][1]:
            return False
        m['glob'][key] = v
    else:
        if key not in decl:
            raise Unspecified('-D%s for an option that is not (or no longer) declared' % key)
        if not _valid(decl[key][0], decl[key][2], v):
            return False
        m['top'][key] = v
    m['cmd'][key] = v
    return True


def _unset(m, key):
    sp, name = key.split(':', 1)
    if name in GLOBAL_BUILTINS:
        had = name in m['aug']
        m['aug'].pop(name, None)                       # "Subproject specific values can be removed with -U"
    elif name in SUB_YIELD and name in sub_decl(m['subconf']):
        had = name in m['over']
        m['over'].pop(name, None)                      # "dropping an override returns the subproject to the inherited value"
    else:
        raise Unspecified('-U of something that is not a per-subproject override')
    m['cmd'].pop(key, None)
    return had


def _reread_option_file(m):
    """Effect of (re)configuring with the option file now on disk."""
    old, new = VARIANTS[m['conf']], VARIANTS[m['file']]
    for k, (ty, dv, ch) in new.items():
        if k not in old:
            m['top'][k] = dv                            # "a new option gets its default"
        elif old[k][2] != ch:
            if not _valid(ty, ch, m['top'][k]):
                m['top'][k] = dv                        # "otherwise falls back to the new default"
        # a changed default alone changes nothing: the option keeps "the default it was created with"
    for k in old:
        if k not in new:
            assert k not in SUB_YIELD                   # (a yielding option losing its parent: not in the space)
            m['top'].pop(k)                             # "a removed one vanishes"
    m['conf'] = m['file']
    # the subproject's option file: the same clauses.  A yielding option without a value of its own has no value that a
    # changed choice list could keep or reject ("get_option returns the value of the superproject"); one the user gave a
    # value keeps that value when still valid and otherwise falls back to the new default - still a value of its own,
    # "separately from the option it yields to".
    old, new = sub_decl(m['subconf']), sub_decl(m['subfile'])
    for k, (ty, dv, ch) in new.items():
        vals = m['over'] if k in SUB_YIELD else m['sub']
        if k not in old:
            if k not in SUB_YIELD:
                vals[k] = dv                            # "a new option gets its default"
        elif old[k][2] != ch:
            if k in vals and not _valid(ty, ch, vals[k]):
                vals[k] = dv                            # "otherwise falls back to the new default"
    for k in old:
        if k not in new:
            m['over'].pop(k, None)                      # "a removed one vanishes"
            m['sub'].pop(k, None)
    m['subconf'] = m['subfile']


def _fails_in_build_files(m):
    return m['top'].get('boom') == 'true' or m['top'].get('late') == 'true'


def model_step(m, cmd, strict_unknown=False):
    """-> (expected, m2): expected in 'ok' | 'fail' | 'any' (docs do not say whether the command succeeds; no effect
    either way).  Raises Unspecified for cells the docs are silent about.
    strict_unknown (composite-edit family): `meson configure -Dk=v` for a project option that no option file declares
    (any more) must fail - "Passing unknown options to "meson setup" or "meson configure" is now always fatal. That is,
    Meson will exit with an error code" (Release-notes-for-0.60.0.md) - and, failing, leave everything as it was."""
    kind = cmd['kind']
    m2 = copy.deepcopy(m)
    if kind == 'edit':
        if cmd['inject']:                               # option file with a syntax error (put back afterwards)
            return 'fail', m
        if cmd['variant']:
            m2['file'] = cmd['variant']
        if cmd['subvariant']:
            m2['subfile'] = cmd['subvariant']
        _reread_option_file(m2)
        if _fails_in_build_files(m2):
            return 'fail', m
        return 'ok', m2
    if kind == 'editconf':
        # the edited option file is noticed by `meson configure` (it compares the recorded hash of each option file)
        if cmd['variant']:
            m2['file'] = cmd['variant']
        if cmd['subvariant']:
            m2['subfile'] = cmd['subvariant']
        _reread_option_file(m2)
        kind = 'configure'
    if kind in ('setup', 'configure', 'reconfigure'):
        # setup on an existing build directory: "options are updated with their new value given on the command line
        # ... This has the same behaviour as `meson configure <builddir> -Dopt=value`" (Commands.md)
        expect = 'ok'
        for k, v in cmd['D']:
            try:
                valid = _set(m2, k, v)
            except Unspecified:
                if strict_unknown and cmd['kind'] == 'configure':
                    return 'fail', m
                raise
            if not valid:
                return 'fail', m
            if k.startswith('sub2:'):
                expect = 'any'                          # docs silent on an option of a subproject not configured (yet)
        for k in cmd['U']:
            if not _unset(m2, k):
                expect = 'any'                          # -U without an override: docs silent on the status, no effect
        if kind == 'reconfigure':
            _reread_option_file(m2)
            if _fails_in_build_files(m2):
                return 'fail', m
        elif _fails_in_build_files(m2):
            raise Unspecified('configure sets an option that breaks the build files')
        return expect, m2
    if kind == 'wipe':
        # "`--wipe` re-derives the configuration from the recorded command lines plus current defaults"
        new, snew = VARIANTS[m['file']], sub_decl(m['subfile'])
        w = model_initial()
        w['file'] = w['conf'] = m['file']
        w['subfile'] = w['subconf'] = m['subfile']
        w['top'] = {k: v[1] for k, v in new.items()}
        w['sub'] = {k: v[1] for k, v in snew.items() if k not in SUB_YIELD}
        for k, v in m['cmd'].items():
            if k.split(':')[-1] not in GLOBAL_BUILTINS and (k not in new if ':' not in k else k.startswith('sub:') and k[4:] not in snew):
                raise Unspecified('--wipe with a recorded value for an option that no longer exists')
            if not _set(w, k, v):
                raise Unspecified('--wipe with a recorded value that the current choices reject')
        for k, v in cmd['D']:                           # -D given together with --wipe: the newest word of the user
            if not _set(w, k, v):
                return 'fail', m
        return 'ok', w
    raise AssertionError(kind)


def model_predict(m):
    """The get_option() ground truth: {'top.k': v, 'sub.k': v} for every message()d option."""
    out = {}
    for k, v in m['top'].items():
        if k != 'late':
            out['top.' + k] = v
    for k, v in m['glob'].items():
        out['top.' + k] = v
        out['sub.' + k] = m['aug'].get(k, v)            # dropping the override returns to the inherited value
    for k in sub_decl(m['subconf']):
        if k in SUB_YIELD:
            out['sub.' + k] = m['over'].get(k, m['top'][k])  # "get_option returns the value of the superproject"
        else:
            out['sub.' + k] = m['sub'][k]
    if m['top'].get('use2') == 'true':
        out['sub2.o'] = m['sub2']['o']
    return out


def model_key(m):
    return json.dumps(m, sort_keys=True)


# ------------------------------------------------------------------------------------------------------------------
# Real side: a work directory at ONE fixed absolute path (coredata/build.dat record absolute paths), private to each
# worker through a mount namespace.
WORK = None          # fixed path
RUNNER = None        # mp.run_meson or cold
PARENT = os.getpid()
_CLONE_NEWNS, _MS_BIND, _MS_REC, _MS_PRIVATE = 0x00020000, 4096, 16384, 1 << 18


def _private_mount():
    libc = ctypes.CDLL(None, use_errno=True)
    priv = os.path.join(scratch_root(), 'w%d' % os.getpid())
    os.makedirs(priv, exist_ok=True)
    if libc.unshare(_CLONE_NEWNS) != 0:
        raise OSError(ctypes.get_errno(), 'unshare')
    if libc.mount(b'none', b'/', None, _MS_REC | _MS_PRIVATE, None) != 0:
        raise OSError(ctypes.get_errno(), 'mount --make-rprivate')
    if libc.mount(priv.encode(), WORK.encode(), None, _MS_BIND, None) != 0:
        raise OSError(ctypes.get_errno(), 'mount --bind')


def namespaces_work():
    pid = os.fork()
    if pid == 0:
        try:
            _private_mount()
            with open(os.path.join(WORK, 'probe'), 'w') as f:
                f.write('x')
            os._exit(0)
        except BaseException:
            os._exit(1)
    _, st = os.waitpid(pid, 0)
    return st == 0 and not os.path.exists(os.path.join(WORK, 'probe'))


def worker_init():
    if os.getpid() != PARENT:
        _private_mount()


def snapshot():
    """bytes of every file of the build directory (logs excluded: no command reads them)"""
    out = {}
    root = os.path.join(WORK, 'b')
    for base, dirs, files in os.walk(root):
        rel = os.path.relpath(base, root)
        if rel == 'meson-logs' or rel.startswith('meson-logs/'):
            continue
        for fn in files:
            p = os.path.join(base, fn)
            with open(p, 'rb') as f:
                out[os.path.normpath(os.path.join(rel, fn))] = f.read()
    return out


def restore(files, fv, broken=None):
    b = os.path.join(WORK, 'b')
    shutil.rmtree(b, ignore_errors=True)
    os.makedirs(b)
    if files is not None:
        mp.write_tree(b, files)
        os.makedirs(os.path.join(b, 'meson-logs'), exist_ok=True)
    write_source(fv, broken)


def write_source(fv, broken=None):
    src = os.path.join(WORK, 'src')
    shutil.rmtree(src, ignore_errors=True)
    mp.write_tree(src, source_tree(fv, broken))


def run(argv):
    return RUNNER(argv, WORK)


OBS_RE = re.compile(r'Message: OBS (top|sub2?) (\S+)(?: (.*))?$')      # an empty value may lose its separating blank


def parse_messages(out):
    d = {}
    for l in out.splitlines():
        mm = OBS_RE.search(l)
        if mm:
            d['%s.%s' % (mm.group(1), mm.group(2))] = (mm.group(3) or '').strip()
    return d


def read_cmdline():
    from configparser import ConfigParser
    p = os.path.join(WORK, 'b', 'meson-private', 'cmd_line.txt')
    if not os.path.exists(p):
        return None
    cp = ConfigParser(delimiters=['='], interpolation=None)
    cp.optionxform = str
    try:
        cp.read(p, encoding='utf-8')
        d = dict(cp['options'])
    except Exception as e:
        return {'<unreadable>': type(e).__name__}
    d.pop('backend', None)
    return d


def read_intro():
    """project options (top + sub) as meson-info/intro-buildoptions.json lists them (= what
    `meson introspect --buildoptions` prints; shown on the cold slice)"""
    p = os.path.join(WORK, 'b', 'meson-info', 'intro-buildoptions.json')
    try:
        with open(p) as f:
            j = json.load(f)
    except Exception as e:
        return {'<unreadable>': type(e).__name__}
    d = {}
    for o in j:
        if o.get('section') == 'user' or o['name'] in GLOBAL_BUILTINS or o['name'].split(':')[-1] in GLOBAL_BUILTINS:
            v = o['value']
            d[o['name']] = ('true' if v else 'false') if isinstance(v, bool) else str(v)
    return d


def parse_configure(out):
    """project option values and the augments listing of `meson configure <builddir>`"""
    vals, aug = {}, {}
    scope, in_proj, in_aug, cols = 'top', False, False, None
    for l in out.splitlines():
        s = l.strip()
        if s.startswith('Subproject ') and s.endswith(':'):
            scope, in_proj = s[len('Subproject '):-1], False
            continue
        if s.startswith('Main project'):
            scope, in_proj = 'top', False
            continue
        f = s.split()
        if 'Current Value' in l and not in_aug:
            a = l.index('Current Value')
            ends = [l.index(h) for h in ('Possible Values', 'Description') if h in l and l.index(h) > a]
            cols = (a, min(ends) if ends else len(l) + 1000)
        if in_aug:
            if len(f) >= 2:
                aug[f[0]] = f[1]
            continue
        if s.startswith('Currently set option augments'):
            in_aug = True
            continue
        if s.startswith('There are no option augments'):
            break
        if not f:
            continue
        if f[0] == 'Project' and f[1:2] == ['options']:
            in_proj = True
            continue
        if f[0].startswith('---'):
            continue
        if len(f) >= 3 and f[1] == 'options' and f[0] != 'Project':
            in_proj = False
            continue
        if in_proj and len(f) >= 2:
            # the value column can be empty (-Ds=): read it by its position under the last "Current Value" heading
            v = l[cols[0]:cols[1]].strip() if cols else f[1]
            vals[('' if scope == 'top' else scope + ':') + f[0]] = v
    return vals, aug


def persisted_obs():
    """everything observable without running build files"""
    r = run(['configure', 'b'])
    vals, aug = parse_configure(r.out) if r.rc == 0 else ({'<configure rc>': str(r.rc)}, {})
    return {'cmdline': read_cmdline(), 'intro': read_intro(), 'configure': vals, 'augments': aug,
            'configure_unhandled': bool(r.unhandled)}


def observe():
    """observer step: plain `setup --reconfigure` (the caller restores the directory afterwards)"""
    r = run(['setup', '--reconfigure', 'b', 'src'])
    return {'rc': r.rc, 'msgs': parse_messages(r.out), 'unhandled': bool(r.unhandled),
            'tail': '' if r.rc == 0 else r.out[-600:]}


def exec_step(cmd, file_variant):
    """Run one command of the alphabet in WORK (already holding the source state).  Returns the raw outcome; the
    build directory afterwards is the successor state (not yet observed).  file_variant = (top, sub) variants on disk."""
    new_variant = tuple(file_variant)
    if cmd['kind'] in ('edit', 'editconf'):
        if cmd['inject']:
            write_source(file_variant, broken='sub' if cmd['inject'].startswith('sub-') else 'top')
        else:
            new_variant = (cmd['variant'] or file_variant[0], cmd['subvariant'] or file_variant[1])
            write_source(new_variant)
    r = run(argv_of(cmd))
    if cmd['kind'] == 'edit' and cmd['inject']:
        write_source(file_variant)
    return {'rc': r.rc, 'unhandled': bool(r.unhandled), 'tail': r.out[-900:] if r.rc else '',
            'unknown_options': 'Unknown options' in r.out}, new_variant


def full_step(cmd, files, file_variant):
    """restore -> command -> persisted observation -> snapshot -> observer.  Pure function of its arguments."""
    restore(files, file_variant)
    res, nv = exec_step(cmd, file_variant)
    res['pobs'] = persisted_obs()
    snap = snapshot()
    res['obs'] = observe()
    res['variant'] = nv
    return res, snap


def initial_state(root=None):
    restore(None, ('base', 'base'))
    r = run(['setup', '--backend=none', 'b', 'src'] + ['-D%s=%s' % kv for kv in (root['D'] if root else ())])
    res = {'rc': r.rc, 'unhandled': bool(r.unhandled), 'tail': r.out[-900:] if r.rc else '', 'unknown_options': False}
    res['pobs'] = persisted_obs()
    snap = snapshot()
    res['obs'] = observe()
    res['variant'] = ('base', 'base')
    return res, snap


# ------------------------------------------------------------------------------------------------------------------
# Comparison of one executed transition with the model.  judge() -> dict
#   verdict 'state'        m2 = the successor's model state
#   verdict 'unspecified'  reason; docs-silent cell: not compared, not explored further
#   verdict 'violation'    V = [(key, what)]; when the ONLY disagreement is a set of get_option() values, `taintable`
#                          lists them and m2 is the model successor (see TAINT below)
# TAINT: the classes listed here are value disagreements confined to named get_option() keys.  When such a class is a
# registered known finding, exploration continues behind the (reported) violation with those keys no longer compared on
# that history; otherwise everything behind a violation is pruned.  Nothing is hidden: the violation is reported where
# it first shows, and if the defect is repaired no taint ever arises.
TAINT_CLASSES = ('C08:yield-stale-after-parent-choices-change',)


def real_key(res):
    return json.dumps({'p': res['pobs'], 'o': res['obs']['msgs'], 'orc': res['obs']['rc'], 'v': res['variant']}, sort_keys=True)


def expected_intro(m):
    """project options the listings must show: name -> value (None: listed, but the value shown for a yielding
    option is not specified, see UNSPECIFIED)"""
    d = dict(m['top'])
    for k in sub_decl(m['subconf']):
        d['sub:' + k] = None if k in SUB_YIELD else m['sub'][k]
    return d


def _fold_history(hist):
    """Facts about a history used ONLY to classify (name) a disagreement, never to decide one."""
    variant, subvariant = 'base', 'base'
    choices_changed = set()          # top-level options whose choice list changed at least once
    sub_choices_changed = set()      # the same for the subproject's options
    own = {k: SUB_DECL[k][1] for k in SUB_YIELD}     # last value given to sub:k itself (or its private default)
    for n in hist:
        c = CMD[n]
        if c['kind'] in ('edit', 'editconf') and c['variant'] and not c['inject']:
            for k, v in VARIANTS[c['variant']].items():
                if k in VARIANTS[variant] and VARIANTS[variant][k][2] != v[2]:
                    choices_changed.add(k)
            variant = c['variant']
        if c['kind'] in ('edit', 'editconf') and c['subvariant'] and not c['inject']:
            for k, v in sub_decl(c['subvariant']).items():
                if k in sub_decl(subvariant) and sub_decl(subvariant)[k][2] != v[2]:
                    sub_choices_changed.add(k)
            subvariant = c['subvariant']
        if not c['inject']:
            for k, v in c['D']:
                if k.startswith('sub:') and k[4:] in own:
                    own[k[4:]] = v
    return choices_changed, own, sub_choices_changed


def classify_value(m, m2, cmd, hist, bad):
    ysub = ['sub.' + k for k in SUB_YIELD]
    if all(b in ysub for b in bad):
        choices_changed, own, sub_choices_changed = _fold_history(hist + [cmd['name']])
        names = [b[4:] for b in bad]
        if all(n not in m2['over'] and n in choices_changed for n in names):
            # the subproject option yields, its parent's choice list was edited earlier in the history
            return 'C08:yield-stale-after-parent-choices-change'
        if all(n in m2['over'] and n in sub_choices_changed for n in names):
            # the user gave the yielding option a value of its own, its own choice list / range was edited earlier
            return 'C08:yield-own-value-wrong-after-own-choices-change:' + '+'.join(bad)
        _, own_before, _ = _fold_history(hist)
        sets = dict(cmd['D'])
        if all(('sub:' + n) in sets and n not in m['over'] and own_before[n] == sets['sub:' + n] for n in names):
            # -Dsub:k=v on a yielding option whose own (hidden) value already is v
            return 'C08:yield-override-equal-to-hidden-own-value-not-saved'
    return 'C08:value:%s:%s' % (cmd['kind'], '+'.join(bad))


def _flat(s):
    return ' '.join(s.split())


def judge(m, prev, cmd, res, hist, taint=(), strict_unknown=False):
    """prev = outcome dict of the source state (its pobs/obs are the 'previous observation'); hist = history of the
    source state (used for naming a disagreement only); taint = get_option() keys no longer compared on this history."""
    kind = cmd['kind'] if not cmd['inject'] else 'fail-' + cmd['inject']
    V = []
    J = {'verdict': 'violation', 'V': V, 'm2': None, 'taintable': None, 'facts': []}
    if res['unhandled'] or res['pobs']['configure_unhandled'] or res['obs']['unhandled']:
        V.append(('C08:unhandled-exception:' + kind, 'a meson command died with a Python traceback: ' + _flat((res['tail'] or res['obs']['tail'])[-300:])))
        return J
    try:
        expect, m2 = model_step(m, cmd, strict_unknown)
    except Unspecified as e:
        return {'verdict': 'unspecified', 'reason': str(e), 'facts': []}
    unknown = strict_unknown and expect == 'fail' and cmd['kind'] == 'configure' and not cmd['inject']
    if res['rc'] != 0:
        # "a configure or reconfigure that fails leaves every persisted value exactly as it was"
        moved = []
        src_changed = cmd['kind'] in ('edit', 'editconf') and not cmd['inject']               # a different source tree is on disk now
        for part in ('cmdline', 'intro') + (() if src_changed else ('configure', 'augments')):
            if res['pobs'][part] != prev['pobs'][part]:
                moved.append(part)
        if not src_changed and (res['obs']['msgs'] != prev['obs']['msgs'] or res['obs']['rc'] != prev['obs']['rc']):
            moved.append('get_option')
        if moved:
            def show(d, p):
                return d['obs']['msgs'] if p == 'get_option' else d['pobs'].get(p)
            V.append(('C08:failed-command-moved-state:%s:%s' % (kind, '+'.join(moved)),
                      'the command failed (rc %d) but persisted state changed: %s' % (res['rc'], ', '.join(
                          '%s %r -> %r' % (p, show(prev, p), show(res, p)) for p in moved))))
        if expect == 'ok':
            cls = 'C08:unexpected-failure:' + kind
            if res['unknown_options'] and cmd['kind'] == 'edit':
                new, snew = VARIANTS[cmd['variant'] or m['file']], sub_decl(cmd['subvariant'] or m['subfile'])
                gone = sorted(k for k in m['cmd'] if k.split(':')[-1] not in GLOBAL_BUILTINS
                              and (k not in new if ':' not in k else k.startswith('sub:') and k[4:] not in snew))
                if gone:
                    cls = 'C08:unexpected-failure:edit:removed-option-still-recorded'
            V.append((cls, 'the model expects success, meson failed: ' + _flat(res['tail'][-300:])))
        if V:
            return J
        J['facts'].append('undeclared-option-rejected-unmoved' if unknown else 'failed-unmoved')
        J.update(verdict='state', m2=m)           # failed as allowed, nothing moved: the model does not move
        return J
    if expect == 'fail':
        if unknown:
            V.append(('C08:unexpected-success:configure:undeclared-option-accepted',
                      'meson configure accepted a value for an option that no option file declares (any more): %r; listed now: %r, cmd_line.txt %r'
                      % (cmd['D'], sorted(res['pobs']['intro']), res['pobs']['cmdline'])))
        else:
            V.append(('C08:unexpected-success:' + kind, 'the command must fail (%s) but exited 0' % cmd['inject']))
        return J
    # success: compare the successor with the model
    if res['obs']['rc'] != 0:
        cls = 'C08:observer-fails:' + kind
        if cmd['kind'] == 'editconf' and 'Unknown options' in res['obs']['tail']:
            new, snew = VARIANTS[m2['conf']], sub_decl(m2['subconf'])
            if any(k.split(':')[-1] not in GLOBAL_BUILTINS and (k not in new if ':' not in k else k.startswith('sub:') and k[4:] not in snew)
                   for k in m2['cmd']):
                cls = 'C08:observer-fails:editconf:removed-option-still-recorded'
        V.append((cls, 'a plain setup --reconfigure of the reached state fails: ' + _flat(res['obs']['tail'][-300:])))
        return J
    want = model_predict(m2)
    got = res['obs']['msgs']
    bad = sorted(k for k in set(want) | set(got) if want.get(k) != got.get(k) and k not in taint)
    if bad:
        V.append((classify_value(m, m2, cmd, hist, bad),
                  'get_option() disagrees with the model: ' + ', '.join('%s expected %r got %r' % (k, want.get(k), got.get(k)) for k in bad)))
    # the set of options listed by introspection / meson configure ("a removed one vanishes", "a new option ...")
    wi = expected_intro(m2)

    def _listed(gotd):
        return {k: v for k, v in gotd.items()
                if k in wi or ((':' not in k or k.startswith('sub:')) and k.split(':')[-1] not in GLOBAL_BUILTINS)}
    # an edited option file first seen by a `meson configure -Dk=v` whose every v is the value k already has
    novalue = (cmd['kind'] == 'editconf' and all(':' not in k and m['top'].get(k) == v for k, v in cmd['D'])
               and set(_listed(res['pobs']['configure'])) == set(wi))
    for label, gotd in (('intro', res['pobs']['intro']), ('configure', res['pobs']['configure'])):
        gd = _listed(gotd)
        extra = sorted(set(gd) - set(wi))
        missing = sorted(set(wi) - set(gd))
        if novalue and label == 'intro' and (extra or missing):
            V.append(('C08:edit-seen-by-configure-that-changes-no-value:intro-not-refreshed',
                      'meson configure re-read the edited option file (its own listing shows %s) but intro-buildoptions.json still '
                      'lists %s' % (sorted(wi), sorted(gd))))
        elif extra and not missing and SUB_VARIANTS[m2['subconf']] is None and all(x.startswith('sub:') for x in extra):
            # the subproject has no option file (any more).  Two classes, named by what is listed (names only):
            #  options-stay: options the deleted file used to declare are still there ("a removed one vanishes")
            #  top-level-options-listed-for-subproject: options that only the TOP-LEVEL option file declares show up as sub:k
            ever = set().union(*[set(d or ()) for d in SUB_VARIANTS.values()])
            invented = [x for x in extra if x[4:] not in ever]
            V.append(('C08:sub-option-file-deleted:%s:%s' % ('top-level-options-listed-for-subproject' if invented else 'options-stay', label),
                      '%s lists project options %s of a subproject without an option file, the model has none' % (label, extra)))
        elif (missing and not extra and cmd['kind'] == 'editconf' and SUB_VARIANTS[m['subconf']] is None
              and sorted(missing) == sorted('sub:' + k for k in sub_decl(m2['subconf']))):
            # the subproject's option file was absent in the configured state and is back on disk: `meson configure`
            # re-reads a changed option file, yet none of the file's options is there ("a new option gets its default")
            V.append(('C08:sub-option-file-restored:not-noticed-by-configure:' + label,
                      '%s lists no project option of the subproject although its option file is back (%s), the model has %s'
                      % (label, sorted(gd), sorted(wi))))
        elif extra or missing:
            V.append(('C08:optset:%s:%s:%s' % (kind, label, '+'.join(['+' + x for x in extra] + ['-' + x for x in missing])),
                      '%s lists project options %s, the model has %s' % (label, sorted(gd), sorted(wi))))
        else:
            badv = sorted(k for k in wi if wi[k] is not None and gd[k] != wi[k])
            if badv:
                V.append(('C08:listed-value:%s:%s:%s' % (kind, label, '+'.join(badv)),
                          '%s shows %s' % (label, ', '.join('%s=%r (model %r)' % (k, gd[k], wi[k]) for k in badv))))
    wa = {'sub:' + k: v for k, v in m2['aug'].items()}
    if res['pobs']['augments'] != wa:
        V.append(('C08:augments:' + kind, 'meson configure lists augments %r, the model has %r' % (res['pobs']['augments'], wa)))
    if res['pobs']['cmdline'] != m2['cmd']:
        V.append(('C08:cmdline-record:' + kind, 'cmd_line.txt records %r, the model %r' % (res['pobs']['cmdline'], m2['cmd'])))
    # facts for the anti-vacuity counters: which clauses of the property this transition exercised (and passed)
    if cmd['kind'] in ('edit', 'reconfigure', 'editconf') and m['conf'] != m2['conf']:
        old, new = VARIANTS[m['conf']], VARIANTS[m2['conf']]
        for k in new:
            if k in old and old[k][2] != new[k][2] and ('top.' + k) not in bad:
                J['facts'].append('choices-fallback' if m['top'][k] != m2['top'][k] else 'choices-kept')
            if k not in old and ('top.' + k) not in bad:
                J['facts'].append('option-added')
            if k in old and old[k][1] != new[k][1] and old[k][2] == new[k][2] and ('top.' + k) not in bad:
                J['facts'].append('default-changed-value-kept')
        if any(k not in new for k in old):
            J['facts'].append('option-removed')
    if cmd['kind'] in ('edit', 'reconfigure', 'editconf') and m['subconf'] != m2['subconf']:
        old, new = sub_decl(m['subconf']), sub_decl(m2['subconf'])
        for k in new:
            if ('sub.' + k) in bad:
                continue
            if k in old and old[k][2] != new[k][2]:
                if k not in m['over']:
                    J['facts'].append('sub-choices-changed-while-yielding')
                else:
                    J['facts'].append('sub-choices-own-value-' + ('fallback' if m['over'][k] != m2['over'][k] else 'kept'))
            if k not in old:
                J['facts'].append('sub-option-added')
            if k in old and old[k][1] != new[k][1] and old[k][2] == new[k][2]:
                J['facts'].append('sub-default-changed-value-kept')
        if any(k not in new for k in old) and not any(('sub.' + k) in bad for k in old):
            J['facts'].append('sub-option-removed' if new else 'sub-option-file-deleted')
    if cmd['U'] and m != m2:
        J['facts'].append('override-dropped')
    if 'sub2.o' in want and 'sub2.o' not in model_predict(m) and m2['sub2']['o'] != SUB2_DECL['o'][1] and 'sub2.o' not in bad:
        J['facts'].append('late-subproject-got-earlier-value')
    if cmd['kind'] == 'wipe':
        J['facts'].append('wipe-same' if m == m2 else 'wipe-rederived-differently')
    J['m2'] = m2
    if V:
        if len(V) == 1 and bad and V[0][0] in TAINT_CLASSES:
            J['taintable'] = bad
        return J
    J['verdict'] = 'state'
    return J


# ------------------------------------------------------------------------------------------------------------------
# The composite-edit family: every history  [pre] ; composite edit ; [post]  (a full product, three levels, explored
# with the same transition function, model and judge as the BFS).  A composite edit is ONE rewrite of an option file
# that removes an option AND adds options (rename / replacement by another type / one out, two in; after the `edit add`
# pre-step the same rewrites remove two and add one or two), of the top-level or of the subproject's option file, first
# seen either by `setup --reconfigure` or by `meson configure -D<untouched option>`.  Clauses: "a removed one
# vanishes" (not listed by introspection / meson configure, get_option() of everything else unchanged, and - strict -
# `configure -D<removed>=v` is rejected as an unknown option), "a new option gets its default", every other option
# "keeps the value it has"; then the post step checks that the state reached is an ordinary one (reconfigure, --wipe,
# the reverse edit, setting the new option).
FAMILY_PRE = ['configure -Ds=s1', 'configure -Dr=r1', 'configure -Dsub:o=o1', 'edit add', 'edit sub add']
FAMILY_EDITS = [e % v for e in ('edit %s', 'edit sub %s', 'edit %s + configure -Ds=s1', 'edit sub %s + configure -Ds=s1')
                for v in ('rename', 'swap', 'rm1add2')] + ['edit sub nofile + configure -Ds=s1']
FAMILY_POST = ['configure -Dr=r1', 'configure -Dsub:o=o1', 'setup --reconfigure', 'setup --wipe',
               'edit base', 'edit sub base + configure -Ds=s2']
FAMILY_POST_THOROUGH = ['configure -Dr2=x2', 'configure -Dsub:o2=y2', 'edit base + configure -Ds=s2', 'edit sub base', 'configure -Ds=s2']


def composite_family(ck, jobs, s0, viols):
    """-> counters.  Violations are appended to `viols` (confirmed from scratch and reported with the BFS's)."""
    global FRONTIER
    post = FAMILY_POST + (FAMILY_POST_THOROUGH if ck.thorough else [])
    cnt = {'transitions': 0, 'unspecified': 0, 'violating': 0, 'per_level': [], 'facts': {}, 'edits_agreeing': {},
           'removed_vanished': 0, 'removed_vanished_seen_by_configure': 0, 'added_got_default': 0, 'others_kept_user_value': 0,
           'removed_more_than_added': 0, 'added_at_least_as_many_as_removed': 0}
    level = [s0]
    for depth, names in ((1, FAMILY_PRE), (2, FAMILY_EDITS), (3, post)):
        FRONTIER = level
        nxt = list(level) if depth == 1 else []          # level 1: the empty pre-step stays
        items = [(si, c) for si in range(len(level)) for c in names]
        for si, cname, res, snapz in pmap(expand, items, jobs=jobs, init=worker_init):
            st, cmd = level[si], CMD[cname]
            cnt['transitions'] += 1
            J = judge(st['m'], st['res'], cmd, res, st['hist'], (), strict_unknown=True)
            hist = st['hist'] + [cname]
            for f in J['facts']:
                cnt['facts'][f] = cnt['facts'].get(f, 0) + 1
            if J['verdict'] == 'unspecified':
                cnt['unspecified'] += 1
                continue
            if J['verdict'] == 'violation':
                cnt['violating'] += 1
                for key, what in J['V']:
                    viols.append((key, what, hist, res, None))
                continue
            m, m2 = st['m'], J['m2']
            if depth == 2 and res['rc'] == 0:
                # what this agreeing transition showed, in the property's words (the judge compared all of it)
                cnt['edits_agreeing'][cname] = cnt['edits_agreeing'].get(cname, 0) + 1
                old = {'top:' + k for k in VARIANTS[m['conf']]} | {'sub:' + k for k in sub_decl(m['subconf'])}
                new = {'top:' + k for k in VARIANTS[m2['conf']]} | {'sub:' + k for k in sub_decl(m2['subconf'])}
                if old - new and new - old:
                    cnt['removed_vanished'] += len(old - new)
                    cnt['added_got_default'] += len(new - old)
                    if cmd['kind'] == 'editconf':
                        cnt['removed_vanished_seen_by_configure'] += 1
                    cnt['removed_more_than_added' if len(old - new) > len(new - old) else 'added_at_least_as_many_as_removed'] += 1
                    if m['cmd'] and all(res['pobs']['cmdline'].get(k) == v for k, v in m['cmd'].items()):
                        cnt['others_kept_user_value'] += 1
            nxt.append({'m': m2, 'res': res, 'snap': snapz, 'hist': hist, 'taint': []})
        cnt['per_level'].append(len(items))
        level = nxt
    cnt['histories_of_full_length'] = len(level)
    return cnt


FRONTIER = []     # list of state dicts, inherited by forked workers
KNOWN_KEYS = set()


def expand(item):
    si, cname = item
    st = FRONTIER[si]
    files = pickle.loads(zlib.decompress(st['snap']))
    res, snap = full_step(CMD[cname], files, st['res']['variant'])
    return si, cname, res, zlib.compress(pickle.dumps(snap), 1)


def run_history(names):
    """Replay a history from a fresh build directory, judging every step (continuing behind known, taintable
    findings exactly as the explorer does).  -> list of (cmd, judgement, res)"""
    root = CMD[names[0]] if names and CMD[names[0]]['kind'] == 'root' else None
    res, files = initial_state(root)
    m = model_initial(root['D'] if root else ())
    out = [('<initial setup>', {'verdict': 'state', 'm2': m, 'V': []}, res)]
    prev, taint = res, []
    if root:
        out.append((names[0], {'verdict': 'state', 'm2': m, 'V': []}, res))
    for i, n in enumerate(names):
        if i == 0 and root:
            continue
        cmd = CMD[n]
        res, files2 = full_step(cmd, files, prev['variant'])
        J = judge(m, prev, cmd, res, names[:i], taint, strict_unknown=any(CMD[x]['tiers'] == '' for x in names))
        out.append((n, J, res))
        if J['verdict'] == 'violation' and J.get('taintable') and all(k in KNOWN_KEYS for k, _ in J['V']):
            taint = sorted(set(taint) | set(J['taintable']))
        elif J['verdict'] != 'state':
            break
        m, prev, files = J['m2'], res, files2
    return out


def history_worker(names):
    o = run_history(names)
    n, J, res = o[-1]
    return len(o) - 1, J['verdict'], [k for k, _ in J.get('V', [])], real_key(res)


def cold_runner(argv, cwd):
    return mp.cold_meson(argv, cwd)


def cold_history(names):
    global RUNNER
    RUNNER = cold_runner
    try:
        o = run_history(names)
        # `meson introspect --buildoptions` really prints what we read from the file
        r = mp.cold_meson(['introspect', '--buildoptions', 'b'], WORK)
        try:
            with open(os.path.join(WORK, 'b', 'meson-info', 'intro-buildoptions.json')) as f:
                extra = (json.loads(r.out) == json.load(f))
        except Exception:
            extra = False
        return [(n, J['verdict'], real_key(res)) for n, J, res in o], extra
    finally:
        RUNNER = mp.run_meson


def main():
    global WORK, RUNNER, FRONTIER, KNOWN_KEYS
    ck = Check('C08', 'model_checking')
    mp.preimport()
    RUNNER = mp.run_meson
    WORK = os.path.join(scratch_root(), 'c08work')
    os.makedirs(WORK, exist_ok=True)
    KNOWN_KEYS = {k['key'] for k in ck.known if k.get('status') == 'known'}
    if ck.args.replay:
        return replay(ck)
    jobs = NCPU
    if not namespaces_work():
        jobs = 1
        ck.assume('mount namespaces unavailable: transitions executed serially at the fixed path')
    depth = ck.q(3, 5)
    max_expand = ck.q(180, 1800)            # count-based cap on expanded states (deterministic); frontier reported
    tier_letter = 't' if ck.thorough else 'q'
    alphabet = [c['name'] for c in ALPHABET if tier_letter in c['tiers']]

    res0, files0 = initial_state()
    ck.require(res0['rc'] == 0 and res0['obs']['rc'] == 0, 'initial setup failed: ' + res0['tail'] + res0['obs']['tail'])
    m0 = model_initial()
    ck.require(res0['obs']['msgs'] == model_predict(m0), 'initial observation %r != model %r' % (res0['obs']['msgs'], model_predict(m0)))
    ck.require(res0['pobs']['cmdline'] == {}, 'initial cmd_line.txt: %r' % (res0['pobs']['cmdline'],))
    states = {}          # product key -> state
    by_model = {}        # (model key, taint) -> (history, real key) for the differential oracle

    def mk_state(m, res, snapz, hist, taint):
        return {'m': m, 'res': res, 'snap': snapz, 'hist': hist, 'taint': taint}

    s0 = mk_state(m0, res0, zlib.compress(pickle.dumps(files0), 1), [], [])
    states[(model_key(m0), '', real_key(res0))] = s0
    by_model[(model_key(m0), '')] = ([], real_key(res0))
    level = [s0]
    for root in ROOTS[1:]:
        resr, filesr = initial_state(root)
        mr = model_initial(root['D'])
        ck.require(resr['rc'] == 0 and resr['obs']['rc'] == 0, '%s failed: %s' % (root['name'], resr['tail'] + resr['obs']['tail']))
        ck.require(resr['obs']['msgs'] == model_predict(mr) and resr['pobs']['cmdline'] == mr['cmd'],
                   '%s: observation %r / %r' % (root['name'], resr['obs']['msgs'], resr['pobs']['cmdline']))
        sr = mk_state(mr, resr, zlib.compress(pickle.dumps(filesr), 1), [root['name']], [])
        states[(model_key(mr), '', real_key(resr))] = sr
        by_model[(model_key(mr), '')] = ([root['name']], real_key(resr))
        level.append(sr)
    n_trans = n_unspec = n_selfloop = n_merged = n_diff = n_pruned_viol = n_tainted_cont = 0
    unspec_reasons, per_kind, per_cmd, facts = {}, {}, {}, {}
    edge_classes, fail_classes = set(), set()
    expanded = unexpanded = 0
    capped = False
    viols = []           # (key, what, hist, res)
    levels_done = 0
    t_levels, level_sizes = [], []
    for d in range(1, depth + 1):
        if not level:
            break
        if expanded + len(level) > max_expand:
            keep = max(0, max_expand - expanded)
            unexpanded += len(level) - keep
            level = level[:keep]
            capped = True
            if not level:
                break
        FRONTIER = level
        expanded += len(level)
        level_sizes.append(len(level))
        items = [(si, c) for si in range(len(level)) for c in alphabet]
        nxt = []
        t_lv = time.time()
        for si, cname, res, snapz in pmap(expand, items, jobs=jobs, init=worker_init):
            st = level[si]
            cmd = CMD[cname]
            n_trans += 1
            kk = 'fail' if cmd['inject'] else cmd['kind']
            per_kind[kk] = per_kind.get(kk, 0) + 1
            per_cmd[cname] = per_cmd.get(cname, 0) + 1
            J = judge(st['m'], st['res'], cmd, res, st['hist'], st['taint'])
            hist = st['hist'] + [cname]
            if res['rc'] != 0:
                fail_classes.add(cmd['inject'] or cmd['kind'])
            for f in J['facts']:
                facts[f] = facts.get(f, 0) + 1
            if J['verdict'] == 'unspecified':
                n_unspec += 1
                unspec_reasons[J['reason']] = unspec_reasons.get(J['reason'], 0) + 1
                continue
            taint = st['taint']
            if J['verdict'] == 'violation':
                for key, what in J['V']:
                    viols.append((key, what, hist, res, None))
                if J['taintable'] and all(k in KNOWN_KEYS for k, _ in J['V']):
                    taint = sorted(set(taint) | set(J['taintable']))
                    n_tainted_cont += 1
                else:
                    n_pruned_viol += 1
                    continue
            m2 = J['m2']
            edge_classes.add(('failed:' + (cmd['inject'] or cmd['kind'])) if res['rc'] else 'ok:' + cmd['kind'])
            mk, tk, rk = model_key(m2), ','.join(taint), real_key(res)
            # differential oracle: same model state => same observation (get_option(), cmd_line.txt, augments)
            if (mk, tk) in by_model:
                n_diff += 1
                h0, rk0 = by_model[(mk, tk)]
                a, b = json.loads(rk0), json.loads(rk)
                oa = {k: v for k, v in a['o'].items() if k not in taint}
                ob = {k: v for k, v in b['o'].items() if k not in taint}
                if not (oa == ob and a['p']['cmdline'] == b['p']['cmdline'] and a['p']['augments'] == b['p']['augments']):
                    viols.append(('C08:differential:' + cmd['kind'],
                                  'histories %r and %r reach the same model state but differ observably: %r / %r' % (h0, hist, a, b), hist, res, h0))
                    continue
            else:
                by_model[(mk, tk)] = (hist, rk)
            k = (mk, tk, rk)
            if k in states:
                n_merged += 1
                if states[k] is st:
                    n_selfloop += 1
                continue
            ns = mk_state(m2, res, snapz, hist, taint)
            states[k] = ns
            nxt.append(ns)
        levels_done = d
        t_levels.append(round(time.time() - t_lv, 1))
        level = nxt
    frontier_left = len(level) + unexpanded
    t_fam = time.time()
    n_viol_bfs = len(viols)
    fam = composite_family(ck, jobs, s0, viols)
    fam['wall_s'] = round(time.time() - t_fam, 1)

    # ---- violations: confirm twice from scratch (fresh directory, full history), then report --------------------
    per_key = {}
    to_confirm = []
    for v in viols:
        per_key[v[0]] = per_key.get(v[0], 0) + 1
        if per_key[v[0]] <= 2 and not v[0].startswith('C08:differential'):
            to_confirm.append(v)
    confirmations = list(pmap(history_worker, [v[2] for v in to_confirm] * 2, jobs=jobs, init=worker_init)) if to_confirm else []
    for i, (key, what, hist, res, other) in enumerate(to_confirm):
        for steps, verdict, keys, rk in (confirmations[i], confirmations[i + len(to_confirm)]):
            if steps != len(hist) or key not in keys:
                ck.internal('violation %s of history %r did not reproduce from scratch (%s %r after %d steps): nondeterminism'
                            % (key, hist, verdict, keys, steps))
    for key, what, hist, res, other in viols:
        ck.violation(key, '%s  [history: %s]' % (what, ' ; '.join(hist)),
                     {'history': hist, 'expect_key': key, 'other_history': other,
                      'observed': {'rc': res['rc'], 'persisted': res['pobs'], 'get_option': res['obs']['msgs'], 'tail': res['tail'][-400:]}})

    # ---- cold slice: the fork runner is faithful (same keys from fresh `python meson.py` processes) ---------------
    hl = min(2, levels_done)
    hists = sorted((s['hist'] for s in states.values() if len(s['hist']) == hl and not s['taint']), key=tuple)
    ncold = ck.q(2, 6)
    cold_checked = 0
    if hists:
        hkey = {tuple(s['hist']): real_key(s['res']) for s in states.values()}
        picks = [hists[(ck.seed * 7 + i * max(1, len(hists) // ncold)) % len(hists)] for i in range(ncold)]
        for h, (steps, intro_same) in zip(picks, pmap(cold_history, picks, jobs=jobs, init=worker_init)):
            if len(steps) != len(h) + 1 or steps[-1][2] != hkey[tuple(h)]:
                ck.internal('cold re-execution of %r differs from the fork runner' % (h,))
            if intro_same is not True:
                ck.internal('`meson introspect --buildoptions` does not print intro-buildoptions.json')
            cold_checked += 1

    # ---- anti-vacuity ------------------------------------------------------------------------------------------
    # (skipped when an unknown violation was found: everything behind a violation is pruned, so holes are expected
    #  and the verdict is exit 1 anyway)
    yield_over = sum(1 for s in states.values() if s['m']['over'])
    augs = sum(1 for s in states.values() if s['m']['aug'])
    variants_seen = sorted({s['m']['conf'] for s in states.values()})
    sub_variants_seen = sorted({s['m']['subconf'] for s in states.values()})
    both_edited = sum(1 for s in states.values() if s['m']['conf'] != 'base' and s['m']['subconf'] != 'base')
    if ck.n_viol == 0:
        ck.require(len(states) >= 20, 'only %d states' % len(states))
        ck.require(facts.get('failed-unmoved', 0) > 0, 'no injected failure was observed to fail and leave the state alone')
        ck.require('postconf-script' in fail_classes, 'late failure (after coredata.dat was written) never happened')
        ck.require({'invalid-value', 'error()', 'option-file-syntax'} <= fail_classes, 'an injected failure class never failed: %r' % sorted(fail_classes))
        ck.require({'ok:wipe', 'ok:edit', 'ok:configure', 'ok:reconfigure', 'ok:setup'} | ({'ok:editconf'} if ck.thorough else set()) <= edge_classes,
                   'edge classes %r' % sorted(edge_classes))
        for f in ('choices-fallback', 'choices-kept', 'option-added', 'option-removed', 'default-changed-value-kept', 'override-dropped',
                  'wipe-same', 'late-subproject-got-earlier-value'):
            ck.require(facts.get(f, 0) > 0, 'clause never exercised: ' + f)
        if levels_done >= 3:
            ck.require(facts.get('wipe-rederived-differently', 0) > 0, 'no --wipe that changed the configuration (new default picked up)')
        ck.require(yield_over > 0 and augs > 0, 'no state with a per-subproject override')
        reachable = {c['variant'] for c in ALPHABET if c['variant'] and tier_letter in c['tiers']} | {'base'}
        ck.require(set(variants_seen) == reachable, 'option-file variants reached: %r' % variants_seen)
        ck.require(n_diff > 0, 'differential oracle never compared two histories')
        # the subproject's option file: every clause the tier's alphabet can reach was exercised (and agreed with the model)
        for f in ('sub-choices-own-value-kept', 'sub-choices-own-value-fallback', 'sub-choices-changed-while-yielding',
                  ) + (('sub-option-added', 'sub-option-removed', 'sub-default-changed-value-kept') if ck.thorough else ()):
            ck.require(facts.get(f, 0) > 0, 'clause never exercised (option file of the subproject): ' + f)
        ck.require(sum(1 for s in states.values() if s['m']['subconf'] != 'base' and s['m']['over'].get('c')) > 0,
                   'no state with an edited option file of the subproject and an own value of its yielding combo')
        # the composite-edit family
        for e in FAMILY_EDITS:
            ck.require(fam['edits_agreeing'].get(e, 0) >= 4, 'composite edit %r agreed with the model from %d pre-states only' % (e, fam['edits_agreeing'].get(e, 0)))
        ck.require(fam['removed_vanished'] > 0 and fam['removed_vanished_seen_by_configure'] > 0 and fam['added_got_default'] > 0
                   and fam['others_kept_user_value'] > 0 and fam['removed_more_than_added'] > 0 and fam['added_at_least_as_many_as_removed'] > 0,
                   'composite-edit family: a clause was never exercised: %r' % (fam,))
        ck.require(fam['facts'].get('undeclared-option-rejected-unmoved', 0) > 0, 'no `configure -D<removed option>` was seen to be rejected')
        ck.require(fam['facts'].get('wipe-same', 0) + fam['facts'].get('wipe-rederived-differently', 0) > 0, 'composite-edit family: no --wipe behind a composite edit')
    for s in list(states.values())[1:40:8]:
        ck.sample({'history': s['hist'], 'get_option': s['res']['obs']['msgs'], 'cmd_line': s['res']['pobs']['cmdline']})
    ck.assume('one project (top: string s, combo c, integer i, boolean boom/late, removable r, addable n; subproject sub: yielding '
              's, c and i, plain o (removable), addable m, per-subproject warning_level/default_library; late subproject sub2), '
              '--backend=none, no languages; an option-file edit is always picked up by a setup --reconfigure')
    ck.assume('snapshots exclude meson-logs/ (never read by any command)')
    for u in UNSPECIFIED:
        ck.assume('unspecified corner (skipped, counted): ' + u)
    ck.assume('intro-buildoptions.json is read directly; the cold slice shows `meson introspect --buildoptions` prints exactly it')
    ck.assume('behind a violation nothing is explored, except behind known findings of the classes %s where exploration '
              'continues with the disagreeing get_option() keys no longer compared on that history' % (TAINT_CLASSES,))
    ck.part('bfs', alphabet=len(alphabet), depth_bound=depth, levels_fully_expanded=levels_done - (1 if capped else 0),
            expanded_states=expanded, frontier_not_expanded=frontier_left, merged=n_merged, self_loops=n_selfloop,
            differential_comparisons=n_diff, pruned_after_violation=n_pruned_viol, continued_tainted=n_tainted_cont,
            states_with_yield_override=yield_over, states_with_augment=augs, cold_histories=cold_checked,
            option_file_variants_reached=variants_seen, sub_option_file_variants_reached=sub_variants_seen,
            states_with_both_option_files_edited=both_edited,
            sub_option_file_edit_transitions=sum(v for k, v in per_cmd.items() if k.startswith('edit sub ')),
            transitions_by_kind=per_kind, clause_counters=facts, unspecified=unspec_reasons,
            violation_confirmations=2 * len(to_confirm), level_wall_s=t_levels, expanded_per_level=level_sizes,
            cpu_s_all_processes=round(sum(resource.getrusage(resource.RUSAGE_CHILDREN)[:2]) + sum(resource.getrusage(resource.RUSAGE_SELF)[:2]), 1))
    ck.part('composite_edits', pre_steps=['<none>'] + FAMILY_PRE, edits=FAMILY_EDITS,
            post_steps=FAMILY_POST + (FAMILY_POST_THOROUGH if ck.thorough else []), violations=len(viols) - n_viol_bfs, **fam)
    n_trans += fam['transitions']
    ck.finish(states=len(states), transitions=n_trans, traces_validated_against_impl=n_trans,
              skipped_unspecified=n_unspec + fam['unspecified'], distinct_edge_classes=len(edge_classes),
              rule='BFS over all command histories <= %d over %d commands from a fresh `meson setup`; product states merged on '
                   '(model state, introspected/configure-listed values, augments, cmd_line.txt, variants of the two option files, get_option() '
                   'observation); every transition is one distinct history whose every step was executed by the real CLI code and '
                   'compared with the model; expansion capped at %d states in BFS order; plus the full product [pre] ; composite option-file '
                   'edit ; post (%d x %d x %d histories, part composite_edits)'
                   % (depth, len(alphabet), max_expand, 1 + len(FAMILY_PRE), len(FAMILY_EDITS), len(FAMILY_POST) + (len(FAMILY_POST_THOROUGH) if ck.thorough else 0)),
              exhaustive=not capped, frontier_at_bound=frontier_left)


def replay(ck):
    with open(ck.args.replay) as f:
        rp = json.load(f)
    hist = rp['history']
    want = rp.get('expect_key') or rp.get('key')
    if rp.get('other_history') is not None:
        # differential oracle: two histories with the same model state must be observationally equal
        oa, ob = run_history(rp['other_history']), run_history(hist)
        (na, Ja, ra), (nb, Jb, rb) = oa[-1], ob[-1]
        same_model = Ja.get('m2') == Jb.get('m2')
        pa = (ra['obs']['msgs'], ra['pobs']['cmdline'], ra['pobs']['augments'])
        pb = (rb['obs']['msgs'], rb['pobs']['cmdline'], rb['pobs']['augments'])
        print('history A :', ' ; '.join(rp['other_history']), '\n  observed:', pa)
        print('history B :', ' ; '.join(hist), '\n  observed:', pb)
        print('same model state: %s; observationally equal: %s' % (same_model, pa == pb))
        sys.stdout.flush()
        hard_exit(1 if same_model and pa != pb else 0)
    o = run_history(hist)
    for n, J, res in o:
        print('  %-44s rc=%s -> %s %s' % (n, res['rc'], J['verdict'], [k for k, _ in J.get('V', [])] or ''))
    n, J, res = o[-1]
    print('history   :', ' ; '.join(hist))
    print('observed  : rc=%s get_option=%s cmd_line=%s augments=%s' % (res['rc'], res['obs']['msgs'], res['pobs']['cmdline'], res['pobs']['augments']))
    if J.get('m2') is not None:
        print('expected  : get_option=%s cmd_line=%s' % (model_predict(J['m2']), J['m2']['cmd']))
    still = J['verdict'] == 'violation' and len(o) == len(hist) + 1
    if still:
        for k, what in J['V']:
            print('VIOLATES  : %s: %s' % (k, what))
    else:
        print('no violation at the recorded step (verdict %s after %d steps; recorded key %s)' % (J['verdict'], len(o) - 1, want))
    sys.stdout.flush()
    hard_exit(1 if still else 0)


if __name__ == '__main__':
    run_main(main)
