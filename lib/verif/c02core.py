# C02 support: reference scanner (written from docs/markdown/Syntax.md), the oracle, the defect classifiers.
# Everything that touches mesonbuild goes through evaluate(); nothing here copies parser logic.
from __future__ import annotations
import collections, re, sys, traceback
import typing as T
from verif import core  # noqa: F401  (puts VERIF_REPO first on sys.path)

from mesonbuild import mparser, mlog
from mesonbuild.mesonlib import MesonException
from mesonbuild.ast.printer import RawPrinter

_quiet = mlog.no_logging()
_quiet.__enter__()          # the lexer warns on stdout (newline in '...'); not part of the property

BOM = '﻿'

# ------------------------------------------------------------------------------------------------------------
# Reference scanner. Syntax.md: strings are '...' with backslash escapes, '''...''' multi-line (no escapes),
# both may be prefixed by f; comments run from # to end of line; a backslash at end of line continues the line;
# identifiers / keywords / numbers; the rest are one- or two-character symbols.
# Kinds: ws eol comment cont str mlstr word num sym bad
_WORD = re.compile(r'[_a-zA-Z][_0-9a-zA-Z]*')
_NUM = re.compile(r'0[bB][01]+|0[oO][0-7]+|0[xX][0-9a-fA-F]+|[0-9]+')
_WS = re.compile(r'[ \t]+')
_CONT = re.compile(r'\\[ \t]*(#[^\n]*)?\n')
_COMMENT = re.compile(r'#[^\n]*')
_SYM2 = ('+=', '==', '!=', '<=', '>=')
WSKINDS = frozenset(('ws', 'eol', 'comment', 'cont'))
KEYWORDS = frozenset(('true', 'false', 'if', 'else', 'elif', 'endif', 'and', 'or', 'not', 'foreach', 'endforeach',
                      'in', 'continue', 'break'))


def scan(text: str) -> T.List[T.Tuple[str, int, int]]:
    out = []
    i, n = 0, len(text)
    while i < n:
        c = text[i]
        if c == ' ' or c == '\t':
            j = _WS.match(text, i).end()
            out.append(('ws', i, j))
        elif c == '\n':
            j = i + 1
            out.append(('eol', i, j))
        elif c == '#':
            j = _COMMENT.match(text, i).end()
            out.append(('comment', i, j))
        elif c == '\\':
            m = _CONT.match(text, i)
            if not m:
                out.append(('bad', i, n))
                break
            j = m.end()
            out.append(('cont', i, j))
        elif c == "'" or (c == 'f' and text.startswith("'", i + 1)):
            q = i + (1 if c == 'f' else 0)
            if text.startswith("'''", q):
                k = text.find("'''", q + 3)
                if k < 0:
                    # not a multi-line string; '' is an empty plain string
                    j = q + 2
                    out.append(('str', i, j))
                else:
                    j = k + 3
                    out.append(('mlstr', i, j))
            else:
                k = q + 1
                while k < n and text[k] != "'":
                    k += 2 if text[k] == '\\' else 1
                if k >= n:
                    out.append(('bad', i, n))
                    break
                j = k + 1
                out.append(('str', i, j))
        elif c.isascii() and (c.isalpha() or c == '_'):
            j = _WORD.match(text, i).end()
            out.append(('word', i, j))
        elif c.isascii() and c.isdigit():
            j = _NUM.match(text, i).end()
            out.append(('num', i, j))
        else:
            j = i + 2 if text[i:i + 2] in _SYM2 else i + 1
            out.append(('sym', i, j))
        i = j
    return out


def strip_trailing_ws(text: str) -> str:
    """text without its trailing run of whitespace-class tokens (blanks, newlines, comments, continuations)."""
    toks = scan(text)
    while toks and toks[-1][0] in WSKINDS:
        toks.pop()
    return text[:toks[-1][2]] if toks else ''


# ------------------------------------------------------------------------------------------------------------
# Tree walk that does not depend on the visitor classes (those are under test through RawPrinter only).
def constructs(tree) -> T.List[T.Any]:
    found = []
    seen = set()
    stack = [tree]
    BaseNode = mparser.BaseNode
    while stack:
        x = stack.pop()
        if isinstance(x, BaseNode):
            if id(x) in seen:
                continue
            seen.add(id(x))
            if isinstance(x, (mparser.FunctionNode, mparser.ArrayNode)):
                found.append(x)
            stack.extend(vars(x).values())
        elif isinstance(x, (list, tuple)):
            stack.extend(x)
        elif isinstance(x, dict):
            stack.extend(x.keys())
            stack.extend(x.values())
    found.sort(key=lambda nd: (nd.lineno, nd.colno, isinstance(nd, mparser.ArrayNode)))
    return found


# str.splitlines() breaks at these too; the lexer counts only \n (see oracle notes in checks/c02.py)
_EXOTIC_BREAK = re.compile('[\r\x0b\x0c\x1c\x1d\x1e\x85  ]')


_SPLIT_EXOTIC: T.Optional[bool] = None


def rewriter_splits_exotic() -> bool:
    """How does the REAL rewriter turn (line, column) into an offset?  Decided once per process by running the real
    Rewriter on a file that has a form feed in a comment before the edited call: if the edit lands in the right
    place the rewriter counts only '\\n' as a line end, otherwise it uses str.splitlines() (which also breaks at
    form feed etc.).  rewriter_cut() mirrors whichever arithmetic the real code uses."""
    global _SPLIT_EXOTIC
    if _SPLIT_EXOTIC is not None:
        return _SPLIT_EXOTIC
    import tempfile, shutil, os
    from verif.core import scratch_root
    d = tempfile.mkdtemp(prefix='c02probe', dir=scratch_root())
    try:
        from mesonbuild import rewriter as rwm, mlog
        mlog._logger.log_disable_stdout = True
        with open(os.path.join(d, 'meson.build'), 'w') as f:
            f.write("project('p', 'c')\n# a\x0cb\nexecutable('e', 'a.c')\n")
        for n in ('a.c', 'b.c'):
            open(os.path.join(d, n), 'w').close()
        rw = rwm.Rewriter(d, skip_errors=True)
        rw.analyze_meson()
        rw.process({'type': 'target', 'target': 'e', 'operation': 'src_add', 'sources': ['b.c']})
        rw.apply_changes()
        out = open(os.path.join(d, 'meson.build'), newline='').read()
        _SPLIT_EXOTIC = not (out.startswith("project('p', 'c')\n# a\x0cb\nexecutable(") and "'b.c'" in out and out.count('executable') == 1)
    except Exception as e:       # probe impossible: assume the historical arithmetic
        print('note: rewriter probe failed (%s: %s); assuming str.splitlines()' % (type(e).__name__, e), file=sys.stderr)
        _SPLIT_EXOTIC = True
    finally:
        mlog_ = sys.modules.get('mesonbuild.mlog')
        if mlog_ is not None:
            mlog_._logger.log_disable_stdout = False
        shutil.rmtree(d, ignore_errors=True)
    return _SPLIT_EXOTIC


def rewriter_cut(text: str, node) -> T.Optional[str]:
    """text[start:end] exactly as mesonbuild/rewriter.py apply_changes()/remove_node() computes it."""
    offsets = []
    off = 0
    for ln in (text.splitlines(True) if rewriter_splits_exotic() else [l + '\n' for l in text.split('\n')]):
        offsets.append(off)
        off += len(ln)
    try:
        start = offsets[node.lineno - 1] + node.colno
        end = offsets[node.end_lineno - 1] + node.end_colno
    except IndexError:
        return None
    if node.lineno < 1 or node.end_lineno < 1:
        return None
    return text[start:end]


def plain_cut(text: str, lineno: int, colno: int, end_lineno: int, end_colno: int) -> T.Optional[str]:
    offsets = [0]
    for m in re.finditer('\n', text):
        offsets.append(m.end())
    if not (1 <= lineno <= len(offsets) and 1 <= end_lineno <= len(offsets)):
        return None
    return text[offsets[lineno - 1] + colno: offsets[end_lineno - 1] + end_colno]


def raw_print(node) -> str:
    pr = RawPrinter()
    node.accept(pr)
    return pr.result


# ------------------------------------------------------------------------------------------------------------
# Classifiers for the defect classes. Each recognises ONE narrow shape; anything else gets a generic key.
_OPERAND_END_SYM = frozenset((')', ']', '}'))


def _dangling_not_indices(text: str, toks) -> T.List[int]:
    """Indices of `not` keywords in binary-operator position that are not followed by `in`: directly after a complete
    operand, or directly after a prefix `not` / unary `-` whose operand is missing (`not not`, `- not`)."""
    res = []
    state = 'other'       # 'operand' = a complete operand just ended; 'prefix' = a prefix operator just seen
    depth = 0
    def followed_by_in(idx):
        for k2, a2, b2 in toks[idx + 1:]:
            if k2 == 'eol' and depth == 0:
                return False             # the statement ends here
            if k2 not in WSKINDS:
                return text[a2:b2] == 'in'
        return False
    for idx, (kind, a, b) in enumerate(toks):
        if kind in WSKINDS:
            if kind == 'eol' and depth == 0:
                state = 'other'          # a new statement starts
            continue
        s = text[a:b]
        if kind in ('str', 'mlstr', 'num') or (kind == 'word' and (s not in KEYWORDS or s in ('true', 'false'))):
            state = 'operand'
        elif kind == 'sym' and s in _OPERAND_END_SYM:
            depth = max(0, depth - 1)
            state = 'operand'
        elif kind == 'word' and s == 'not':
            if state in ('operand', 'prefix'):
                if followed_by_in(idx):
                    state = 'other'
                else:
                    res.append(idx)
            else:
                state = 'prefix'
        elif kind == 'sym' and s == '-':
            state = 'prefix' if state == 'other' else 'other'
        else:
            if kind == 'sym' and s in '([{':
                depth += 1
            state = 'other'
    return res


def _drop_dangling_nots(text: str, printed: str) -> bool:
    """printed == text with one or more dangling `not` keywords (and nothing else) deleted."""
    toks = scan(text)
    cand = set(_dangling_not_indices(text, toks))
    j = 0
    dropped = 0
    for idx, (kind, a, b) in enumerate(toks):
        s = text[a:b]
        if printed.startswith(s, j) and not (idx in cand and not printed.startswith(text[a:b + 1], j)):
            j += len(s)
        elif idx in cand:
            dropped += 1
        else:
            return False
    return j == len(printed) and dropped > 0


def _sig(text: str) -> T.List[str]:
    return [text[a:b] for k, a, b in scan(text) if k not in WSKINDS]


def _wschars(text: str) -> T.List[str]:
    return sorted(c for k, a, b in scan(text) if k in WSKINDS for c in text[a:b])


def _has_positional_after_keyword(text: str) -> bool:
    """Some ( ... ) / [ ... ] argument list holds a `key : value` segment followed by a segment without a key."""
    toks = [(k, text[a:b]) for k, a, b in scan(text) if k not in WSKINDS]
    stack = []      # per open bracket: [opener, seen_kw, cur_has_colon, cur_in_ternary, cur_nonempty]
    for k, s in toks:
        if k == 'sym' and s in '([{':
            if stack:
                stack[-1][4] = True
            stack.append([s, False, False, False, False])
        elif k == 'sym' and s in ')]}':
            if not stack:
                continue
            fr = stack.pop()
            if fr[0] in '([' and fr[1] and fr[4] and not fr[2]:
                return True
        elif stack:
            fr = stack[-1]
            if k == 'sym' and s == ',':
                if fr[0] in '([':
                    if fr[2]:
                        fr[1] = True
                    elif fr[1] and fr[4]:
                        return True
                fr[2] = fr[3] = fr[4] = False
            elif k == 'sym' and s == '?':
                fr[3] = True
                fr[4] = True
            elif k == 'sym' and s == ':':
                if fr[3]:
                    fr[3] = False      # the ':' of a ternary
                else:
                    fr[2] = True
                fr[4] = True
            else:
                fr[4] = True
    return False


K_NOT = 'C02:roundtrip:dangling-not'
K_ORDER = 'C02:roundtrip:positional-after-keyword'
K_RT_OTHER = 'C02:roundtrip:other'


def classify_roundtrip(text: str, printed: str) -> T.List[str]:
    if _drop_dangling_nots(text, printed):
        return [K_NOT]
    toks = scan(text)
    a = [(i, text[x:y]) for i, (k, x, y) in enumerate(toks) if k not in WSKINDS]
    b = _sig(printed)
    ca, cb = collections.Counter(s for _, s in a), collections.Counter(b)
    if cb - ca:
        return [K_RT_OTHER]               # the print holds tokens the input does not
    keys = []
    extra = ca - cb
    if extra:
        cand = set(_dangling_not_indices(text, toks))
        if set(extra) != {'not'} or extra['not'] != len(cand):
            return [K_RT_OTHER]
        keys.append(K_NOT)
        a = [(i, s) for i, s in a if i not in cand]
    if [s for _, s in a] == b:
        # same tokens in the same order. With a dropped `not` the blanks that followed it are attached to the node
        # created next, i.e. they re-appear behind the following token: same defect. Otherwise blanks were lost.
        if keys and _wschars(text) == _wschars(printed):
            return keys
        return [K_RT_OTHER]
    if _has_positional_after_keyword(text):
        return keys + [K_ORDER]
    return [K_RT_OTHER]


def _nl_in_plain_strings_before(text: str, true_start: int) -> int:
    n = 0
    for k, a, b in scan(text):
        if a >= true_start:
            break
        if k == 'str':
            n += text.count('\n', a, b)
    return n


# ------------------------------------------------------------------------------------------------------------
_QUOTED = re.compile(r"'.*'")


class Outcome:
    __slots__ = ('cls', 'viol', 'nconstructs', 'cur_end', 'errpos', 'skipped', 'sig', 'lexer_suspended')

    def __init__(self):
        self.cls = ''            # 'accept' | 'reject' | 'crash'
        self.viol = []           # [(key, what)]
        self.nconstructs = 0
        self.cur_end = None      # for rejects: end offset of the parser's lookahead token (None = unknown / eof)
        self.errpos = None
        self.skipped = 0         # extent checks skipped as unspecified corner
        self.lexer_suspended = False
        self.sig = ''            # outcome signature for the distinct-outcome count


def position_ok(text: str, lineno, colno) -> bool:
    if not isinstance(lineno, int) or not isinstance(colno, int) or isinstance(lineno, bool) or isinstance(colno, bool):
        return False
    if text.startswith(BOM) and lineno == 0 and colno == 0:
        return True      # documented "start of file" position of the BOM error
    lines = text.split('\n')
    if not 1 <= lineno <= len(lines):
        return False
    # the newline terminating a line is a character of that line: "just after it" (== start of the next
    # line) is still a position inside the text
    width = len(lines[lineno - 1]) + (1 if lineno < len(lines) else 0)
    return 0 <= colno <= width


def evaluate(text: str, want_prune_info: bool = False) -> Outcome:
    o = Outcome()
    p = None
    try:
        p = mparser.Parser(text, 'f')
        tree = p.parse()
    except MesonException as e:
        o.cls = 'reject'
        o.sig = 'reject:%s:%s' % (type(e).__name__, _QUOTED.sub("'_'", str(e).split('\n', 1)[0])[:60])
        ln, cn = getattr(e, 'lineno', None), getattr(e, 'colno', None)
        o.errpos = (ln, cn)
        if not position_ok(text, ln, cn):
            o.viol.append((classify_position(text, ln, cn, p), '%s raised at line %r col %r which is not a position inside the text'
                           % (type(e).__name__, ln, cn)))
        if want_prune_info and p is not None and p.current.tid != 'eof':
            o.cur_end = p.current.bytespan[1]
            o.lexer_suspended = getattr(p.stream, 'gi_frame', None) is not None   # the error did not come from the lexer
        return o
    except RecursionError:
        o.cls = o.sig = 'crash'
        o.viol.append(('C02:exception:RecursionError', 'RecursionError escaped the parser'))
        return o
    except Exception as e:
        o.cls = 'crash'
        o.sig = 'crash:' + type(e).__name__
        o.viol.append((classify_exception(e), '%s escaped the parser: %s' % (type(e).__name__, str(e)[:200])))
        return o
    o.cls = 'accept'
    o.sig = 'accept:' + ','.join(type(x).__name__ for x in tree.lines[:3])
    try:
        printed = raw_print(tree)
    except Exception as e:
        o.viol.append((classify_printer_exception(text, e), 'RawPrinter raised %s: %s' % (type(e).__name__, str(e)[:200])))
        return o
    if printed != text:
        for k in classify_roundtrip(text, printed):
            o.viol.append((k, 'accepted, but RawPrinter gives %r' % (printed[:300],)))
        return o
    if '(' in text or '[' in text:
        check_extents(text, tree, o)
    return o


def classify_printer_exception(text: str, e: BaseException) -> str:
    key = 'C02:printer-exception:' + type(e).__name__
    if isinstance(e, RecursionError):
        # a long operator / method / index chain is a left-deep tree although the text has no bracket nesting to speak of
        depth = best = 0
        for c in text:
            if c in '([{':
                depth += 1
                best = max(best, depth)
            elif c in ')]}':
                depth -= 1
        if best <= 3 and len(text) >= 600:
            key += ':flat-chain-of-hundreds-of-operators'
    return key


def classify_position(text, ln, cn, p) -> str:
    if not (isinstance(ln, int) and isinstance(cn, int)):
        return 'C02:position:outside-text'
    toks = scan(text)
    # (a) EOF error after a token that spans lines: the parser synthesises the eof position as
    #     (first line of the last token, its column + its length)
    if p is not None and p.current.tid == 'eof':
        tk = list(toks)
        while tk and tk[-1][0] == 'ws':
            tk.pop()
        if tk and tk[-1][0] in ('mlstr', 'str') and text.count('\n', tk[-1][1], tk[-1][2]) > 0:
            k, a, b = tk[-1]
            if ln == text.count('\n', 0, a) + 1 - _uncounted_newlines(text, a) and cn >= b - a:
                return 'C02:position:eof-after-multiline-token'
    # (b) newline inside a plain '...' string not counted: the position is right once lines are counted the way the
    #     lexer does (ignoring those newlines), and at least one ignored newline precedes it
    ignored = [i for k, a, b in toks if k == 'str' for i in range(a, b) if text[i] == '\n']
    if ignored and ln >= 1:
        counted = [i for i, c in enumerate(text) if c == '\n' and i not in set(ignored)]
        if ln - 2 < len(counted):
            start = 0 if ln == 1 else counted[ln - 2] + 1
            off = start + cn
            if 0 <= off <= len(text) and any(i < off for i in ignored):
                return 'C02:position:newline-in-plain-string'
    return 'C02:position:outside-text'


def _uncounted_newlines(text, upto) -> int:
    return sum(text.count('\n', a, b) for k, a, b in scan(text) if k == 'str' and a < upto)


def classify_exception(e: BaseException) -> str:
    name = type(e).__name__
    if isinstance(e, TypeError) and "unhashable type: 'EmptyNode'" in str(e):
        tb = traceback.extract_tb(e.__traceback__)
        inner = [f.name for f in tb if f.filename.endswith('mparser.py')]
        if 'set_kwarg_no_check' in inner and 'key_values' in inner:
            return 'C02:exception:TypeError:dict-key-with-missing-operand'
    return 'C02:exception:' + name


def check_extents(text: str, tree, o: Outcome) -> None:
    nodes = constructs(tree)
    o.nconstructs = len(nodes)
    if not nodes:
        return
    exotic = _EXOTIC_BREAK.search(text)
    for nd in nodes:
        is_fn = isinstance(nd, mparser.FunctionNode)
        head = nd.func_name.value if is_fn else '['
        tail = ')' if is_fn else ']'
        if exotic and '\r' in text:
            o.skipped += 1      # unspecified corner: a bare CR cannot reach the parser from a file
            continue
        cut = rewriter_cut(text, nd)
        expected = strip_trailing_ws(raw_print(nd))
        ok = (cut is not None and isinstance(head, str) and cut.startswith(head) and cut.endswith(tail)
              and cut == expected)
        if ok:
            continue
        ext = (nd.lineno, nd.colno, nd.end_lineno, nd.end_colno)
        what = '%s extent %r cuts %r, the construct is %r' % ('call' if is_fn else 'array', ext,
                                                             None if cut is None else cut[:120], expected[:120])
        for k in classify_extent(text, nd, expected, exotic):
            o.viol.append((k, what))
        return          # one report per input is enough


def classify_extent(text, nd, expected, exotic) -> T.List[str]:
    ext = (nd.lineno, nd.colno, nd.end_lineno, nd.end_colno)
    K_SPLIT = 'C02:extent:splitlines-breaks-at-non-newline'
    K_NL = 'C02:extent:newline-in-plain-string'
    # (a) the recorded extent is right in \n-counted lines but the rewriter splits lines with str.splitlines()
    if exotic and plain_cut(text, *ext) == expected:
        return [K_SPLIT]
    # (b) newline inside a plain '...' string not counted: shifting the recorded lines by the number of such
    #     newlines before (resp. inside) the construct repairs the extent
    if expected:
        strs = [(a, b) for kind, a, b in scan(text) if kind == 'str' and '\n' in text[a:b]]
        for m in re.finditer(re.escape(expected), text):
            k0 = sum(text.count('\n', a, b) for a, b in strs if a < m.start())
            k1 = k0 + sum(text.count('\n', a, b) for a, b in strs if m.start() <= a < m.end())
            if k1 and plain_cut(text, ext[0] + k0, ext[1], ext[2] + k1, ext[3]) == expected:
                return [K_NL, K_SPLIT] if exotic and rewriter_cut_shift(text, ext, k0, k1) != expected else [K_NL]
    return ['C02:extent:other']


def rewriter_cut_shift(text, ext, k0, k1):
    class _N:
        pass
    n = _N()
    n.lineno, n.colno, n.end_lineno, n.end_colno = ext[0] + k0, ext[1], ext[2] + k1, ext[3]
    return rewriter_cut(text, n)
