# C06 - configuration is deterministic and does not disturb unchanged outputs.
# Per project the FULL cross product PYTHONHASHSEED x os.environ insertion order x directory-listing order of fresh
# `meson setup` runs (same absolute paths) must give byte-identical generated text; a build dir configured under
# one seed and reconfigured under another must equal the fresh result; a no-op reconfigure must keep build.ninja's
# content and must not touch configure-time outputs whose content is unchanged.
# History also covers a fresh build directory that already holds the empty directories an earlier configuration left.
# Build-directory placement family: the build directory as a sibling of the sources, nested in them, nested two levels
# (thorough: elsewhere) x directories named absolutely / relatively x {fresh, reconfigured, reconfigured again, wiped},
# for a project holding the whole grid of ways in which configuration creates a file in the build directory and names it
# again (lib/verif/c06lib.py); run outside /dev, because meson treats any path starting with '/dev/' as a device.
# Machine-file family: --native-file / --cross-file given as a regular file or through a pipe.
# Earlier-revision family: a build directory first configured from an earlier revision of the project (one elementary
# edit of the option declarations or of the dependency / target statements away), then from the present one, against fresh.
import glob, hashlib, itertools, json, os, shutil, sys
from verif.core import Check, pmap, run_main, scratch_root, REPO, NCPU
from verif import projgen as pg
from verif import c06lib as c6

ENV_ORDERS = ['asis', 'reversed', 'sorted']
DIR_ORDERS = ['native', 'reversed', 'sorted']

from verif.projects import RICH, NOLANG


def fingerprint(bdir):
    """{relative path: sha1} of the generated text this property is about"""
    out = {}
    for base, dirs, files in os.walk(bdir):
        relb = os.path.relpath(base, bdir)
        top = relb.split(os.sep)[0]
        if top in ('meson-logs',):
            dirs[:] = []
            continue
        for fn in files:
            p = os.path.join(base, fn)
            rel = os.path.normpath(os.path.join(relb, fn))
            if top == 'meson-private':
                if not (fn.endswith('.pc') or fn == 'depmf.json'):
                    continue
            if top == 'meson-info' and fn == 'meson-info.json':
                pass
            if os.path.islink(p):
                out[rel] = 'link:' + os.readlink(p)
                continue
            with open(p, 'rb') as f:
                data = f.read()
            # small text files are kept verbatim so that a difference can be classified
            out[rel] = data if len(data) < 400000 else hashlib.sha1(data).hexdigest()
    return out


def anon_dep_only(a, b):
    """True if two file contents differ only in names of the form dep<uuid4 as int> (unnamed Dependency objects)"""
    import re
    if not isinstance(a, bytes) or not isinstance(b, bytes):
        return False
    rx = re.compile(rb'dep[0-9]{25,45}')
    return rx.search(a) is not None and rx.sub(b'dep#', a) == rx.sub(b'dep#', b)


def fclass(rel):
    if rel == 'build.ninja':
        return 'build.ninja'
    if rel.startswith('meson-info/'):
        return os.path.basename(rel).replace('.json', '')
    if rel.endswith('.pc'):
        return 'pkgconfig'
    if rel.endswith('depmf.json'):
        return 'depmf'
    if rel == 'compile_commands.json':
        return 'compile_commands'
    return 'configure-output'


def stat_sig(bdir):
    out = {}
    for base, dirs, files in os.walk(bdir):
        for fn in files:
            p = os.path.join(base, fn)
            st = os.lstat(p)
            out[os.path.relpath(p, bdir)] = (st.st_mtime_ns, st.st_ino, st.st_size)
    return out


def order_env(env, mode):
    items = list(env.items())
    if mode == 'reversed':
        items.reverse()
    elif mode == 'sorted':
        items.sort()
    return dict(items)


PLACEMENTS = ['sibling', 'nested', 'nested2', 'far']      # 'far' (outside the sources, other depth) in the thorough tier only
INVOCATIONS = ['abs', 'rel']


def disk_base():
    """A scratch base that is NOT below /dev (scratch_root() is /dev/shm/...): meson treats every path that starts with
    '/dev/' as a device, so below /dev/shm the naming of regular files by absolute path behaves differently from any
    real checkout.  Only the build-directory-placement family lives here; removed by the worker that made it."""
    return os.environ.get('VERIF_C06_DISK') or '/var/tmp'


def place(root, placement):
    src = os.path.join(root, 'src')
    return src, {'sibling': os.path.join(root, 'b'), 'nested': os.path.join(src, 'b'), 'nested2': os.path.join(src, 'out', 'b'),
                 'far': os.path.join(root, 'elsewhere', 'deep', 'b')}[placement]


def source_dirs(src, bdir):
    """relative paths of the directories of the source tree (a build dir nested in it is not part of the sources)"""
    out = []
    for base, dirs, _ in os.walk(src):
        dirs[:] = sorted(d for d in dirs if os.path.join(base, d) != bdir)
        for d in dirs:
            p = os.path.join(base, d)
            if not bdir.startswith(p + os.sep):       # (src/out of the placement src/out/b exists for the build dir only)
                out.append(os.path.relpath(p, src))
    return sorted(out)


VCS_MARKERS = ('.gitignore', '.hgignore', 'CACHEDIR.TAG')   # written only into a build directory that meson found empty


def only_stale_include_args(a, b, stale, bdir):
    """True if two file contents differ only in -I<dir> arguments for directories of `stale` (relative to the build dir
    or absolute), apart from the random names of unnamed dependencies (a separate known finding)"""
    import re
    if not isinstance(a, bytes) or not isinstance(b, bytes) or not stale:
        return False
    alt = b'(?:' + re.escape(bdir.encode()) + b'/)?(?:' + b'|'.join(re.escape(d.encode()) for d in sorted(stale, key=len, reverse=True)) + b')'
    rxs = [(re.compile(rb'"-I' + alt + rb'",\s*'), b''), (re.compile(rb',\s*"-I' + alt + rb'"'), b''),
           (re.compile(rb'(?<![^\s"\'])-I' + alt + rb'(?![^\s"\'])[ ]?'), b''), (re.compile(rb'dep[0-9]{25,45}'), b'dep#')]

    def norm(x):
        for rx, to in rxs:
            x = rx.sub(to, x)
        return x
    return norm(a) == norm(b)


def explore(job):
    from verif import mesonproc as mp
    name, files, srcdir, seeds, setup_args, full = job['name'], job.get('files'), job.get('srcdir'), job['seeds'], tuple(job.get('setup_args', ())), job.get('full', True)
    placement, matrix, owned, disk = job.get('placement', 'sibling'), job.get('matrix', True), job.get('owned'), job.get('disk', False)
    res = {'name': name, 'setups': 0, 'viol': [], 'files': 0, 'skip': None, 'compared': 0, 'orders_seen': 0, 'placement': placement, 'depmf': 0,
           'stale_dirs': 0, 'stale_compared': 0, 'stale_skipped': 0, 'place_compared': 0, 'configure_outputs': 0}
    root = os.path.join(disk_base() if disk else scratch_root(), ('verif-c06.%d' if disk else 'c06.%d') % os.getpid())
    shutil.rmtree(root, ignore_errors=True)
    src, bdir = place(root, placement)
    if files is not None:
        mp.write_tree(src, files)
    else:
        shutil.copytree(srcdir, src, symlinks=True)
    base_env = mp.base_env(home=os.path.join(root, 'home'), CFLAGS='-DENV_CF', LDFLAGS='-Wl,-O1', CPPFLAGS='-DENV_CPP',
                           PKG_CONFIG_PATH=os.path.join(root, 'pc1') + ':' + os.path.join(root, 'pc0'), ZZZ_UNUSED='1', AAA_UNUSED='2')
    servers = {}
    rep = {'project': name, 'files': files, 'srcdir': srcdir, 'setup_args': list(setup_args), 'placement': placement, 'matrix': matrix,
           'owned': owned, 'disk': disk}

    def server(seed):
        if seed not in servers:
            servers[seed] = mp.Server(hashseed=seed)
        return servers[seed]

    def setup(seed, eo, do, extra=(), fresh=True, inv='abs', predirs=()):
        if fresh:
            shutil.rmtree(bdir, ignore_errors=True)
            for d in predirs:
                os.makedirs(os.path.join(bdir, d))
        res['setups'] += 1
        if inv == 'abs':
            cwd, dirs = root, [bdir, src]
        elif fresh:
            cwd, dirs = src, [os.path.relpath(bdir, src)]                   # `meson setup <builddir>` run in the source root
        else:
            cwd, dirs = bdir, ['.', os.path.relpath(src, bdir)]              # reconfigured from inside the build directory
        return server(seed).run(['setup'] + list(extra) + dirs + list(setup_args), cwd, env=order_env(base_env, eo),
                                pre=('verif.hooks', 'dirlist_order', (do,)), timeout=120)
    try:
        r0 = setup(seeds[0], 'asis', 'native')
        if r0.rc != 0:
            res['skip'] = 'does not configure here'
            return res
        F0 = fingerprint(bdir)
        res['files'] = len(F0)
        res['configure_outputs'] = sum(1 for rel in F0 if fclass(rel) == 'configure-output')
        res['depmf'] = sum(1 for rel in F0 if fclass(rel) == 'depmf')

        def compare(F, what, dim, stale=()):
            res['compared'] += 1
            for rel in sorted(set(F0) | set(F)):
                if F0.get(rel) != F.get(rel):
                    if stale and rel in VCS_MARKERS:
                        continue           # not generated text of this property; meson adds them only to a directory it found empty
                    r = dict(rep, file=rel, config=what)
                    if 'lang' in job:
                        r['cells'] = cells_in_difference(F0.get(rel), F.get(rel))
                    if anon_dep_only(F0.get(rel), F.get(rel)):
                        res['viol'].append(('C06:differs:%s:anonymous-dependency-uuid' % fclass(rel), '%s: %s differs only in the random name dep<uuid> of an unnamed dependency (%s)' % (name, rel, what), r))
                        continue
                    if stale and only_stale_include_args(F0.get(rel), F.get(rel), stale, bdir):
                        res['viol'].append(('C06:history:stale-builddir-subdir-adds-include-arg', '%s: %s differs only in -I<dir> arguments for directories that an earlier configuration left in the build directory (%s)' % (name, rel, what), r))
                        continue
                    res['viol'].append(('C06:differs:%s:%s' % (fclass(rel), dim), '%s: %s differs from the baseline run under %s%s%s' % (name, rel, what, first_diff(F0.get(rel), F.get(rel)), '; build-dir files named in the difference: ' + ' '.join(r['cells'][:6]) if r.get('cells') else ''), r))

        def noop_reconfigure(seed, inv):
            before_f, before_s = fingerprint(bdir), stat_sig(bdir)
            r = setup(seed, 'asis', 'native', extra=['--reconfigure'], fresh=False, inv=inv)
            after_f, after_s = fingerprint(bdir), stat_sig(bdir)
            if before_f.get('build.ninja') != after_f.get('build.ninja'):
                res['viol'].append(('C06:noop-reconfigure-changes:build.ninja', '%s: build.ninja content changed by a no-op reconfigure%s' % (name, first_diff(before_f.get('build.ninja'), after_f.get('build.ninja'))), dict(rep)))
            for rel, h in before_f.items():
                cls = fclass(rel)
                if after_f.get(rel) != h and anon_dep_only(h, after_f.get(rel)):
                    res['viol'].append(('C06:differs:%s:anonymous-dependency-uuid' % cls, '%s: %s changed by a no-op reconfigure only in the random name of an unnamed dependency' % (name, rel), dict(rep, file=rel)))
                elif after_f.get(rel) != h:
                    if rel != 'build.ninja':
                        res['viol'].append(('C06:noop-reconfigure-changes:%s' % cls, '%s: %s content changed by a no-op reconfigure%s' % (name, rel, first_diff(h, after_f.get(rel))), dict(rep, file=rel)))
                elif cls in ('configure-output', 'pkgconfig', 'depmf') and before_s.get(rel) != after_s.get(rel) and files is not None and (owned is None or rel in owned):
                    # (corpus projects may run their own configure-time commands that rewrite files: only outputs that
                    # meson itself writes -- all of them in the projgen / hand-written projects, the `owned` ones of the
                    # build-dir-io project -- are held to the mtime clause)
                    res['viol'].append(('C06:noop-reconfigure-touches:%s' % cls, '%s: %s was rewritten (mtime/inode changed) although its content is unchanged' % (name, rel),
                                        dict(rep, file=rel, before=before_s.get(rel), after=after_s.get(rel))))
                res['compared'] += 1

        if matrix:
            # full cross product of fresh configurations
            for seed, eo, do in itertools.product(seeds, ENV_ORDERS, DIR_ORDERS):
                if (seed, eo, do) == (seeds[0], 'asis', 'native'):
                    continue
                if not full and sum([seed != seeds[0], eo != 'asis', do != 'native']) > 1:
                    continue     # reduced matrix: one dimension at a time
                r = setup(seed, eo, do)
                if r.rc != 0:
                    res['viol'].append(('C06:setup-fails-under-variation', '%s: setup fails under seed=%s env=%s dir=%s: %s' % (name, seed, eo, do, r.out[-300:]),
                                        dict(rep, config=[seed, eo, do])))
                    continue
                dim = 'hashseed' if (eo, do) == ('asis', 'native') else ('environ-order' if (seed, do) == (seeds[0], 'native') else ('dirlist-order' if (seed, eo) == (seeds[0], 'asis') else 'combined'))
                compare(fingerprint(bdir), 'PYTHONHASHSEED=%s environ=%s dirlist=%s' % (seed, eo, do), dim)
            # histories: configured under one seed, reconfigured under another
            for s1, s2 in [(seeds[-1], seeds[0]), (seeds[0], seeds[-1])]:
                r = setup(s1, 'reversed', 'reversed')
                r = setup(s2, 'asis', 'native', extra=['--reconfigure'], fresh=False)
                if r.rc != 0:
                    res['viol'].append(('C06:reconfigure-fails', '%s: reconfigure fails: %s' % (name, r.out[-300:]), dict(rep)))
                    continue
                compare(fingerprint(bdir), 'history: configured with seed %s, reconfigured with seed %s' % (s1, s2), 'history')
                noop_reconfigure(s2, 'abs')
        else:
            # build-directory placement family: per way of naming the directories on the command line a fresh build
            # directory, the same reconfigured (other hash seed), reconfigured again with nothing changed, then wiped
            tag = 'history@' + placement
            for inv in INVOCATIONS:
                s1, s2 = (seeds[0], seeds[-1]) if inv == 'abs' else (seeds[-1], seeds[0])
                if inv != 'abs':          # (the baseline configuration is the fresh one with absolute directories)
                    r = setup(s1, 'asis', 'native', inv=inv)
                    if r.rc != 0:
                        res['viol'].append(('C06:setup-fails-under-variation', '%s: setup fails with the build dir %s given %s: %s' % (name, placement, inv, r.out[-300:]), dict(rep, config=[placement, inv])))
                        continue
                    compare(fingerprint(bdir), 'build dir %s, directories given %s on the command line, fresh' % (placement, inv), 'invocation@' + placement)
                    res['place_compared'] += 1
                r = setup(s2, 'asis', 'native', extra=['--reconfigure'], fresh=False, inv=inv)
                if r.rc != 0:
                    res['viol'].append(('C06:reconfigure-fails', '%s: reconfigure fails (build dir %s, %s): %s' % (name, placement, inv, r.out[-300:]), dict(rep)))
                    continue
                compare(fingerprint(bdir), 'build dir %s (%s): configured with seed %s, reconfigured with seed %s' % (placement, inv, s1, s2), tag)
                res['place_compared'] += 1
                if inv == 'abs' or job.get('full'):
                    noop_reconfigure(s2, inv)
                    res['place_compared'] += 1
            r = setup(seeds[0], 'asis', 'native', extra=['--wipe'], fresh=False)
            if r.rc != 0:
                res['viol'].append(('C06:reconfigure-fails', '%s: setup --wipe fails (build dir %s): %s' % (name, placement, r.out[-300:]), dict(rep)))
            else:
                compare(fingerprint(bdir), 'build dir %s: configured, reconfigured, then setup --wipe' % placement, tag)
                res['place_compared'] += 1
        # history: the build directory already holds (empty) directories, as an earlier configuration of an earlier
        # version of the sources leaves them behind: one per directory of the source tree
        stale = source_dirs(src, bdir) if matrix or full else []
        if stale:
            res['stale_dirs'] = len(stale)
            r = setup(seeds[0], 'asis', 'native', predirs=stale)
            if r.rc != 0:
                res['stale_skipped'] += 1      # e.g. an output file of the same name as a source directory: not a matter of this property
            else:
                res['stale_compared'] += 1
                compare(fingerprint(bdir), 'history: the build directory already contained the empty directories %s' % ' '.join(stale[:6]), 'history-stale-dirs', stale=stale)
        # history: the build directory was configured from an earlier version of the data files (same names, same sizes,
        # same time stamps - a tree unpacked from an archive made with one fixed time stamp - other contents), then from the
        # present one: what configuration copies or renders from them must be what a fresh directory gets
        data = sorted(k for k in (files or {}) if k.endswith(('.in', '.txt', '.cfg')) and isinstance(files[k], str) and any(c.isalpha() for c in files[k])) if (matrix or full) else []
        if data:
            def other_version(text):
                i = max(j for j, c in enumerate(text) if c.isalpha())
                return text[:i] + text[i].swapcase() + text[i + 1:]
            stamp = 1600000000
            for k in data:
                pth = os.path.join(src, k)
                with open(pth, 'w', encoding='utf-8', newline='') as f:
                    f.write(other_version(files[k]))
                os.utime(pth, (stamp, stamp))
            r = setup(seeds[0], 'asis', 'native')
            for k in data:
                pth = os.path.join(src, k)
                with open(pth, 'w', encoding='utf-8', newline='') as f:
                    f.write(files[k])
                os.utime(pth, (stamp, stamp))
            if r.rc == 0:
                r = setup(seeds[0], 'asis', 'native', extra=['--reconfigure'], fresh=False)
            if r.rc == 0:
                res['oldversion_compared'] = res.get('oldversion_compared', 0) + 1
                # (the baseline was configured from files with other time stamps: only contents are compared)
                compare(fingerprint(bdir), 'history: configured from an earlier version of %s (same sizes and time stamps), then reconfigured from the present one' % ' '.join(data[:5]), 'history-earlier-data-version')
            else:
                res['oldversion_skipped'] = res.get('oldversion_skipped', 0) + 1
    finally:
        for s in servers.values():
            s.close()
        shutil.rmtree(root, ignore_errors=True)
    return res


def first_diff(a, b):
    """short description of the first differing line of two kept-verbatim file contents"""
    if not isinstance(a, bytes) or not isinstance(b, bytes):
        return ''
    la, lb = a.decode('utf-8', 'replace').splitlines(), b.decode('utf-8', 'replace').splitlines()
    sa, sb = set(la), set(lb)
    minus = [l for l in la if l not in sb][:1]
    plus = [l for l in lb if l not in sa][:1]

    def short(l):
        # keep the part of the two lines that differs
        return l if len(l) < 300 else l[:120] + ' ... ' + l[-120:]
    if minus and plus:
        wa, wb = minus[0].split(), plus[0].split()
        only_b = [w for w in wb if w not in set(wa)][:4]
        only_a = [w for w in wa if w not in set(wb)][:4]
        return ' [first differing line: baseline-only words %s, other-only words %s]' % (only_a, only_b)
    if not minus and not plus:
        i = next((j for j, (x, y) in enumerate(zip(la, lb)) if x != y), min(len(la), len(lb)))
        return ' [the same lines in another order or number; first difference at line %d: baseline %r, other %r]' % (i + 1, short(la[i]) if i < len(la) else None, short(lb[i]) if i < len(lb) else None)
    return ' [baseline-only line %r, other-only line %r]' % (short(minus[0]) if minus else None, short(plus[0]) if plus else None)


def seed_orders(seeds):
    """how many distinct iteration orders of a probe set of strings the seeds realise (coverage of the order space)"""
    import subprocess
    orders = set()
    for s in seeds:
        out = subprocess.run(['/venv/bin/python', '-c', "print(list({'b_lto','b_pch','b_ndebug','b_staticpic','b_pie','b_asneeded','b_colorout','b_sanitize'}))"],
                             env={'PYTHONHASHSEED': str(s)}, capture_output=True, text=True).stdout
        orders.add(out)
    return len(orders)


MACHINE_FILE_TEXT = "[properties]\nverif_prop = 'x'\n"
MF_KINDS = ['native', 'cross']
MF_FORMS = ['regular', 'pipe']


def explore_machine_files(job):
    """Same sources, same options, where one option is a machine file: given as a regular file or through a pipe (as
    `--native-file <(cmd)` does), for --native-file and --cross-file.  Two fresh configurations at the same paths must
    agree byte for byte."""
    import re, subprocess
    from verif import mesonproc as mp
    name, files, seeds = job['name'], job['files'], job['seeds']
    res = {'name': name, 'setups': 0, 'viol': [], 'files': 0, 'skip': None, 'compared': 0, 'placement': 'sibling', 'stale_dirs': 0, 'mf_compared': 0, 'mf_pipe_copies': 0}
    root = os.path.join(scratch_root(), 'c06.%d' % os.getpid())
    shutil.rmtree(root, ignore_errors=True)
    src, bdir = place(root, 'sibling')
    mp.write_tree(src, files)
    base_env = mp.base_env(home=os.path.join(root, 'home'))
    ini, fifo = os.path.join(root, 'machine.ini'), os.path.join(root, 'machine.fifo')
    with open(ini, 'w') as f:
        f.write(MACHINE_FILE_TEXT)
    os.mkfifo(fifo)
    rx = re.compile(rb'[0-9a-f]{8}-[0-9a-f]{4}-[0-9a-f]{4}-[0-9a-f]{4}-[0-9a-f]{12}(?=\.(?:native|cross)\.ini)')
    srv = mp.Server(hashseed=seeds[0])
    try:
        for kind, form in itertools.product(job.get('kinds', MF_KINDS), MF_FORMS):
            F = []
            for rnd in range(2):
                shutil.rmtree(bdir, ignore_errors=True)
                feeder = subprocess.Popen(['sh', '-c', 'cat "$0" > "$1"', ini, fifo]) if form == 'pipe' else None
                res['setups'] += 1
                r = srv.run(['setup', bdir, src, '--%s-file' % kind, fifo if form == 'pipe' else ini], root, env=base_env, timeout=120)
                if feeder is not None:
                    if feeder.poll() is None and r.rc != 0:
                        feeder.kill()
                    feeder.wait()
                if r.rc != 0:
                    res['viol'].append(('C06:setup-fails-under-variation', '%s: setup fails with --%s-file given as a %s: %s' % (name, kind, form, r.out[-300:]),
                                        {'project': name, 'files': files, 'machine_files': True, 'kinds': [kind]}))
                    break
                F.append(fingerprint(bdir))
                if form == 'pipe':
                    res['mf_pipe_copies'] += len(glob.glob(os.path.join(bdir, 'meson-private', '*.%s.ini' % kind)))
            if len(F) < 2:
                continue
            res['mf_compared'] += 1
            res['files'] = len(F[0])
            for rel in sorted(set(F[0]) | set(F[1])):
                x, y = F[0].get(rel), F[1].get(rel)
                if x == y:
                    continue
                rep = {'project': name, 'files': files, 'machine_files': True, 'kinds': [kind], 'file': rel}
                if form == 'pipe' and isinstance(x, bytes) and isinstance(y, bytes) and rx.sub(b'#', x) == rx.sub(b'#', y):
                    res['viol'].append(('C06:machine-file-from-pipe:random-copy-name', '%s: %s of two fresh configurations with --%s-file read from a pipe differs in the random name meson-private/<uuid4>.%s.ini of the copy' % (name, rel, kind, kind), rep))
                else:
                    res['viol'].append(('C06:differs:%s:machine-file-%s' % (fclass(rel), form), '%s: %s differs between two fresh configurations with --%s-file given as a %s%s' % (name, rel, kind, form, first_diff(x, y)), rep))
    finally:
        srv.close()
        shutil.rmtree(root, ignore_errors=True)
    return res


def explore_revisions(job):
    """Earlier-revision histories (c06lib): the build directory was configured from an earlier revision of the project (one
    elementary edit of the option declarations / of the statements away; thorough: two earlier revisions), then
    reconfigured from the present one: every generated text file must equal what a fresh directory at the same path gets."""
    from verif import mesonproc as mp
    name, lang, which, seeds = job['name'], job['lang'], job['which'], job['seeds']
    res = {'name': name, 'setups': 0, 'viol': [], 'files': 0, 'skip': None, 'compared': 0, 'placement': 'sibling', 'stale_dirs': 0,
           'rev_histories': 0, 'rev_compared': 0, 'rev_skipped': 0, 'rev_order_changing': 0, 'rev_kinds': []}
    root = os.path.join(scratch_root(), 'c06.%d' % os.getpid())
    shutil.rmtree(root, ignore_errors=True)
    src, bdir = place(root, 'sibling')
    base_env = mp.base_env(home=os.path.join(root, 'home'), PKG_CONFIG_PATH=os.path.join(src, 'pc'))
    present = c6.rev_present(lang)
    extra = c6.rev_extra(lang, which)
    srv = mp.Server(hashseed=seeds[0])

    def configure(lists, fresh):
        shutil.rmtree(src, ignore_errors=True)
        mp.write_tree(src, c6.rev_project(lang, lists))
        if fresh:
            shutil.rmtree(bdir, ignore_errors=True)
        res['setups'] += 1
        return srv.run(['setup'] + ([] if fresh else ['--reconfigure']) + [bdir, src], root, env=base_env, timeout=120)
    try:
        r0 = configure(present, True)
        if r0.rc != 0:
            res['skip'] = 'the present revision does not configure: ' + r0.out[-300:]
            return res
        F0 = fingerprint(bdir)
        res['files'] = len(F0)
        for hist in job['histories']:
            hist = [tuple(e) for e in hist]
            res['rev_histories'] += 1
            rep = {'project': name, 'revisions': True, 'lang': lang, 'which': which, 'histories': [[list(e) for e in hist]]}
            what = 'history: configured from an earlier revision (%s: %s), then reconfigured from the present one' % (
                which, ' then '.join('%s@%d' % e for e in reversed(hist)))
            ok = True
            for n, e in enumerate(reversed(hist)):        # oldest revision first
                r = configure(dict(present, **{which: c6.rev_apply(present[which], e, extra)}), n == 0)
                if r.rc != 0:
                    ok = False
                    break
            if not ok:
                res['rev_skipped'] += 1                   # an earlier revision that is not a valid project: no history
                continue
            r = configure(present, False)
            kind = c6.rev_edited_kind(present[which], hist[0], extra, which)
            tag = '%s-%s' % (kind, hist[0][0])
            if r.rc != 0:
                res['viol'].append(('C06:reconfigure-fails:earlier-revision:' + tag, '%s: reconfigure fails (%s): %s' % (name, what, r.out[-300:]), rep))
                continue
            if tag not in res['rev_kinds']:
                res['rev_kinds'].append(tag)
            if any(e[0] != 'delete' and e != ('insert', len(present[which]) - 1) for e in hist):
                res['rev_order_changing'] += 1            # order of first appearance differs from the present order of declaration
            F = fingerprint(bdir)
            res['rev_compared'] += 1
            res['compared'] += 1
            for rel in sorted(set(F0) | set(F)):
                if F0.get(rel) != F.get(rel):
                    res['viol'].append(('C06:differs:%s:earlier-revision:%s' % (fclass(rel), tag),
                                        '%s: %s differs from a fresh configuration of the same sources (%s)%s' % (name, rel, what, first_diff(F0.get(rel), F.get(rel))), dict(rep, file=rel)))
    finally:
        srv.close()
        shutil.rmtree(root, ignore_errors=True)
    return res


# ---- earlier-options histories ----------------------------------------------------------------------------------------------------
# "independent of the build directory's history": the directory was configured under OTHER option values (an earlier command line)
# and then reconfigured to the present ones (`meson setup --reconfigure -D...`); the result must equal a fresh configuration with the
# present values.  The values include the dependency search path: the same directories in another order, with a duplicate, one alone -
# two of them provide the same package with different flags, so what is found depends on the order in force NOW.  Every vector gives
# every option it varies explicitly ("the same options"); options whose change re-derives the defaults of others (prefix, buildtype's
# debug/optimization) would make the two directories differ in options nobody named, so prefix is not varied here.
OPT_VECTORS = [
    {'pkg_config_path': 'A,B'}, {'pkg_config_path': 'B,A'}, {'pkg_config_path': 'A'}, {'pkg_config_path': 'B'}, {'pkg_config_path': 'A,A,B'},
    {'pkg_config_path': 'B,A,B'}, {'pkg_config_path': 'A,B', 'default_library': 'static'}, {'pkg_config_path': 'A,B', 'mode': 'two'},
    {'pkg_config_path': 'A,B', 'buildtype': 'release'}, {'pkg_config_path': 'B,A', 'libdir': 'lib/x'},
    {'pkg_config_path': 'A,B', 'cmake_prefix_path': '/nonexistent'}, {'pkg_config_path': 'A,B', 'c_args': '-DFROM_OPT'},
]
OPT_DEFAULTS = {'default_library': 'shared', 'mode': 'one', 'buildtype': 'debug', 'libdir': 'lib', 'cmake_prefix_path': '', 'c_args': ''}
OPT_PROJECT = {
    'meson.build': """project('oh', 'c', version: '1')
foo = dependency('foo')
bar = dependency('bar', required: false)
lib = library('ohl', 'l.c', dependencies: foo, install: true)
executable('ohe', 'e.c', link_with: lib, dependencies: [foo, bar], c_args: get_option('mode') == 'two' ? ['-DTWO'] : [])
configure_file(output: 'conf.h', configuration: {'FOO_VERSION': foo.version(), 'BAR': bar.found(), 'MODE': get_option('mode')})
import('pkgconfig').generate(lib, requires: foo)
""",
    'meson.options': "option('mode', type: 'combo', choices: ['one', 'two'], value: 'one')\n",
    'l.c': 'int ohl(void) { return 1; }\n', 'e.c': 'int main(void) { return 0; }\n',
    'A/foo.pc': 'Name: foo\nDescription: from A\nVersion: 1.0\nCflags: -DFOO_FROM_A\nLibs: -lm\n',
    'B/foo.pc': 'Name: foo\nDescription: from B\nVersion: 2.0\nCflags: -DFOO_FROM_B\nLibs: -lm -lrt\n',
    'B/bar.pc': 'Name: bar\nDescription: only in B\nVersion: 0.5\nCflags: -DBAR\n',
}


def opt_args(vec, src):
    v = dict(OPT_DEFAULTS, **vec)
    v['pkg_config_path'] = ','.join(os.path.join(src, d) for d in v['pkg_config_path'].split(','))
    return ['-D%s=%s' % kv for kv in sorted(v.items())]


def explore_options(job):
    from verif import mesonproc as mp
    res = {'name': job['name'], 'setups': 0, 'viol': [], 'files': 0, 'skip': None, 'compared': 0, 'opt_histories': 0, 'opt_order_only': 0,
           'opt_fresh_differ': 0}
    root = os.path.join(scratch_root(), 'c06o.%d' % os.getpid())
    shutil.rmtree(root, ignore_errors=True)
    src, bdir = place(root, 'sibling')
    mp.write_tree(src, OPT_PROJECT)
    env = mp.base_env(home=os.path.join(root, 'home'))
    srv = mp.Server(hashseed=job['seeds'][0])
    fresh = {}

    def run(extra, vec):
        res['setups'] += 1
        return srv.run(['setup'] + extra + [bdir, src] + opt_args(vec, src), root, env=env, timeout=180)
    try:
        for i1, i2 in job['pairs']:
            v1, v2 = OPT_VECTORS[i1], OPT_VECTORS[i2]
            if i2 not in fresh:
                shutil.rmtree(bdir, ignore_errors=True)
                if run([], v2).rc != 0:
                    res['skip'] = 'option vector %r does not configure' % v2
                    return res
                fresh[i2] = fingerprint(bdir)
            if i1 not in fresh:
                shutil.rmtree(bdir, ignore_errors=True)
                if run([], v1).rc != 0:
                    res['skip'] = 'option vector %r does not configure' % v1
                    return res
                fresh[i1] = fingerprint(bdir)
            res['opt_fresh_differ'] += fresh[i1].get('build.ninja') != fresh[i2].get('build.ninja')
            for how in job['hows']:
                shutil.rmtree(bdir, ignore_errors=True)
                r = run([], v1)
                if how == 'reconfigure':
                    r = run(['--reconfigure'], v2)
                else:       # meson configure, then the regeneration a build would trigger
                    res['setups'] += 1
                    r = srv.run(['configure', bdir] + opt_args(v2, src), root, env=env, timeout=180)
                    if r.rc == 0:
                        res['setups'] += 1
                        r = srv.run(['setup', '--reconfigure', bdir, src], root, env=env, timeout=180)
                rep = {'project': 'option-histories', 'options': True, 'pairs': [[i1, i2]], 'hows': [how]}
                if r.rc != 0:
                    res['viol'].append(('C06:reconfigure-fails:earlier-options', 'configured with %r, then %s to %r fails: %s' % (v1, how, v2, r.out[-300:]), rep))
                    continue
                res['opt_histories'] += 1
                same_set = set(v1.get('pkg_config_path', '').split(',')) == set(v2.get('pkg_config_path', '').split(',')) and \
                    {k: v for k, v in v1.items() if k != 'pkg_config_path'} == {k: v for k, v in v2.items() if k != 'pkg_config_path'}
                res['opt_order_only'] += same_set
                F = fingerprint(bdir)
                res['files'] = len(F)
                for rel in sorted(set(F) | set(fresh[i2])):
                    res['compared'] += 1
                    if F.get(rel) != fresh[i2].get(rel):
                        changed = sorted(k for k in set(v1) | set(v2) if v1.get(k) != v2.get(k))
                        if fclass(rel) == 'intro-dependencies' and 'pkg_config_path' in changed:
                            changed = ['pkg_config_path']      # (the listing of the dependency cache depends on the search paths it has seen, whatever else changed)
                        res['viol'].append(('C06:differs:%s:earlier-options:%s' % (fclass(rel), '+'.join(changed)),
                                            'option-histories: %s differs between a directory configured with %r and then brought to %r by %s, and a fresh configuration with the latter%s'
                                            % (rel, v1, v2, how, first_diff(fresh[i2].get(rel), F.get(rel))), dict(rep, file=rel)))
    finally:
        srv.close()
        shutil.rmtree(root, ignore_errors=True)
    return res


def cells_in_difference(a, b):
    """ids of the build-dir-io cells (c06lib) whose file names occur in words that only one of the two contents has"""
    import re
    if not isinstance(a, bytes) or not isinstance(b, bytes):
        return []
    wa, wb = set(a.split()), set(b.split())
    rx = re.compile(rb'(?:sub/)?(?:%s)_(?:%s)_(?:%s)' % ('|'.join(c6.WRITERS).encode(), '|'.join(c6.READERS).encode(), '|'.join(c6.ORDERS).encode()))
    found = set()
    for w in wa ^ wb:
        found.update(m.decode() for m in rx.findall(w))
    order = {'%s_%s_%s' % c: i for i, c in enumerate(c6.cells())}
    return sorted(found, key=lambda c: (order.get(c.split('/')[-1], 99), c))


def explore_and_reduce(job):
    """explore(); for the build-dir-io grid project a violation is re-run with the single implicated cell, simplest first,
    so that the first witness reported is a two-statement project"""
    import time
    t0 = time.time()
    if job.get('machine_files'):
        return explore_machine_files(job)
    if job.get('revisions'):
        return explore_revisions(job)
    if job.get('options'):
        return explore_options(job)
    res = explore(job)
    res['wall'] = time.time() - t0
    if 'lang' in job and res['viol'] and not job.get('single'):
        cells = []
        for _, _, rep in res['viol']:
            for c in rep.get('cells', []):
                c = c.split('/')[-1]
                if c not in cells:
                    cells.append(c)
        minimal = []
        for c in cells[:3]:
            files, owned = c6.bdio_project(job['lang'], only=[tuple(c.split('_'))])
            r = explore(dict(job, name=job['name'] + ':' + c, files=files, owned=owned, single=True))
            res['setups'] += r['setups']
            if r['viol']:
                minimal = r['viol']
                break
        res['viol'] = minimal + res['viol']
    return res


def main():
    ck = Check('C06', 'exploration')
    from verif import mesonproc as mp
    seeds = list(range(4)) if not ck.thorough else list(range(16))
    seeds = [(s + ck.seed * 16) for s in seeds]
    if ck.args.replay:
        d = json.load(open(ck.args.replay))
        job = {'name': d['project'], 'files': d.get('files'), 'srcdir': d.get('srcdir'), 'seeds': seeds[:4], 'setup_args': d.get('setup_args', []), 'full': True,
               'placement': d.get('placement', 'sibling'), 'matrix': d.get('matrix', True), 'owned': d.get('owned'), 'disk': d.get('disk', False)}
        if d.get('machine_files'):
            job.update(machine_files=True, kinds=d.get('kinds', MF_KINDS))
        if d.get('revisions'):
            job.update(revisions=True, lang=d['lang'], which=d['which'], histories=d['histories'])
        if d.get('options'):
            job.update(options=True, pairs=[tuple(x) for x in d['pairs']], hows=d['hows'])
        r = explore_and_reduce(dict(job, single=True))
        for k, w, _ in r['viol']:
            print(k, w)
        print('expected: every generated text file identical to the baseline configuration; observed: %d difference(s)' % len(r['viol']))
        sys.exit(1 if r['viol'] else 0)
    stale_tmp_cleanup()
    jobs = []
    jobs.append({'name': 'rich', 'files': RICH, 'seeds': seeds, 'full': ck.thorough})
    jobs.append({'name': 'rich-unity-flat', 'files': RICH, 'seeds': seeds, 'setup_args': ('--unity=on', '--layout=flat', '-Dlicensedir=share/licenses'), 'full': ck.thorough})   # (licensedir: a dependency manifest is generated)
    jobs.append({'name': 'nolang', 'files': NOLANG, 'seeds': seeds, 'full': True})
    jobs.append({'name': 'wraps', 'files': c6.WRAPS_PROJECT, 'seeds': seeds, 'full': True})
    specs = list(pg.enumerate_specs(3))
    pick = [s for i, s in enumerate(specs) if len(s) == 3 and i % (97 if not ck.thorough else 29) == ck.seed % 29]
    gen = []
    for spec in pick:
        r = pg.render(spec, 'sub' if pg.placement_ok(spec, 'sub') else 'root', install=True)
        gen.append(r)
        jobs.append({'name': 'gen:' + r.desc, 'files': r.files, 'seeds': seeds, 'full': ck.thorough})
    corpus = []
    for d in sorted(glob.glob(os.path.join(REPO, 'test cases', 'common', '*'))):
        if os.path.isfile(os.path.join(d, 'meson.build')):
            corpus.append(d)
    step = 25 if not ck.thorough else 8
    for i, d in enumerate(corpus):
        if i % step == ck.seed % step:
            jobs.append({'name': 'corpus:' + os.path.basename(d), 'srcdir': d, 'seeds': seeds, 'full': ck.thorough})
    # build-directory placement family: where the build directory lies relative to the sources x how the directories are
    # named on the command line x {fresh, reconfigured, reconfigured again, wiped}, for projects whose configuration
    # writes files into the build directory and names them again (c06lib), outside /dev (see disk_base)
    pjobs = []
    placements = PLACEMENTS if ck.thorough else PLACEMENTS[:3]
    for lang in (None, 'c'):
        files, owned = c6.bdio_project(lang, subgrid=(lang is None or ck.thorough))
        for pl in placements:
            pjobs.append({'name': 'bdio%s@%s' % ('-' + lang if lang else '', pl), 'files': files, 'owned': owned, 'lang': lang, 'seeds': seeds,
                          'placement': pl, 'matrix': False, 'disk': True, 'full': ck.thorough})
    others = [('nolang', NOLANG)] + ([('rich', RICH)] + [('gen:' + r.desc, r.files) for r in gen[:6]] if ck.thorough else [])
    for nm, files in others:
        for pl in placements:
            pjobs.append({'name': '%s@%s' % (nm, pl), 'files': files, 'seeds': seeds, 'placement': pl, 'matrix': False, 'disk': True, 'full': ck.thorough})
    mjobs = [{'name': 'nolang+machine-file', 'files': NOLANG, 'seeds': seeds, 'machine_files': True, 'matrix': False}]
    # earlier-revision family: every elementary edit (insert / delete / swap / retype at every position) of the option
    # declarations, of a subproject's option declarations and of the dependency-lookup / target statements of a project
    # (language-less; with C targets), as the step from an earlier revision to the present one; thorough: every ordered
    # pair of such edits as two earlier revisions
    rjobs = []
    for lang in (None, 'c'):
        for which in c6.REV_LISTS:
            if which == 'languages' and not lang:
                continue            # (the list of further languages belongs to the project with C targets)
            if lang and which not in ('statements', 'languages') and not ck.thorough:
                continue            # (quick tier: the option lists are edited in the language-less project only)
            edits = c6.rev_edits(lang, which)
            hists = [[e] for e in edits]
            if ck.thorough and not lang:
                hists += [[e1, e2] for e1 in edits for e2 in edits]
            n = 5 if lang else (10 if not ck.thorough else 12)
            for i in range(0, len(hists), n):
                rjobs.append({'name': 'rev%s:%s' % ('-' + lang if lang else '', which), 'lang': lang, 'which': which, 'histories': hists[i:i + n],
                              'seeds': seeds, 'revisions': True, 'matrix': False})
    # earlier-options family: every ordered pair of option vectors (quick: pairs that involve one of the first six - the search-path
    # vectors - and single-option changes from the base)
    nv = len(OPT_VECTORS)
    opairs = [(a, b) for a in range(nv) for b in range(nv) if a != b and (ck.thorough or (a < 6 and b < 6) or 0 in (a, b))]
    ojobs = []
    for k in range(8):
        part = opairs[k::8]
        if part:
            ojobs.append({'name': 'option-histories/%d' % k, 'options': True, 'pairs': part, 'hows': ['reconfigure', 'configure'] if ck.thorough else [('reconfigure', 'configure')[(k + ck.seed) % 2]],
                          'seeds': seeds, 'matrix': False})
    optot = {'setups': 0, 'histories': 0, 'files_compared': 0, 'order_only_histories': 0, 'pairs_whose_fresh_configurations_differ': 0}
    rtot = {'projects': 0, 'setups': 0, 'histories': 0, 'compared': 0, 'skipped_invalid_earlier_revision': 0, 'order_changing_histories': 0}
    rkinds = set()
    mtot = {'setups': 0, 'pairs_compared': 0, 'pipe_copies_seen': 0}
    tot = {'projects': 0, 'skipped': 0, 'setups': 0, 'files': 0, 'comparisons': 0, 'dependency_manifests': 0}
    ptot = {'projects': 0, 'setups': 0, 'comparisons': 0, 'configure_outputs_in_builddir': 0}
    otot = {'compared': 0, 'skipped': 0}
    stot = {'projects_with_source_subdirs': 0, 'stale_dirs_precreated': 0, 'compared': 0, 'skipped_unspecified': 0}
    pseen = set()
    classes = set()
    # --only matrix,placement,machine,revisions (debugging: no evidence is written then)
    alljobs = (jobs if ck.want('matrix') else []) + (pjobs if ck.want('placement') else []) + (mjobs if ck.want('machine') else []) + (rjobs if ck.want('revisions') else []) + (ojobs if ck.want('options') else [])
    for i, res in enumerate(pmap(explore_and_reduce, alljobs, jobs=min(NCPU, 16 if not ck.thorough else 8), chunksize=1)):
        job = alljobs[i]
        if os.environ.get('VERIF_C06_TIMES'):
            print('  %-40s setups=%3d wall=%.1fs' % (res['name'][:40], res['setups'], res.get('wall', 0)), file=sys.stderr)
        for key, what, rep in res['viol']:
            ck.violation(key, what, rep)
        if job.get('machine_files'):
            mtot['setups'] += res['setups']
            mtot['pairs_compared'] += res['mf_compared']
            mtot['pipe_copies_seen'] += res['mf_pipe_copies']
            continue
        if job.get('options'):
            if res['skip']:
                ck.internal('option-histories: %s' % res['skip'])
            optot['setups'] += res['setups']
            optot['histories'] += res['opt_histories']
            optot['files_compared'] += res['compared']
            optot['order_only_histories'] += res['opt_order_only']
            optot['pairs_whose_fresh_configurations_differ'] += res['opt_fresh_differ']
            classes.add(('options', res['opt_histories'] > 0))
            continue
        if job.get('revisions'):
            if res['skip']:
                ck.internal('earlier-revision project %s: %s' % (res['name'], res['skip']))
            rtot['projects'] += 1
            rtot['setups'] += res['setups']
            rtot['histories'] += res['rev_histories']
            rtot['compared'] += res['rev_compared']
            rtot['skipped_invalid_earlier_revision'] += res['rev_skipped']
            rtot['order_changing_histories'] += res['rev_order_changing']
            rkinds.update(res['rev_kinds'])
            classes.add(('revisions:' + job['which'], min(res['files'] // 5, 8)))
            continue
        if res['skip']:
            tot['skipped'] += 1
            if not job.get('matrix', True):
                ck.internal('placement project %s does not configure: the family would be vacuous' % res['name'])
            continue
        t = tot if job.get('matrix', True) else ptot
        t['projects'] += 1
        t['setups'] += res['setups']
        if job.get('matrix', True):
            tot['files'] += res['files']
            tot['comparisons'] += res['compared']
            tot['dependency_manifests'] += res['depmf']
            classes.add((res['name'].split(':')[0], min(res['files'] // 5, 8)))
        else:
            ptot['comparisons'] += res['place_compared']
            ptot['configure_outputs_in_builddir'] += res['configure_outputs']
            pseen.add(res['placement'])
            classes.add(('placement:' + res['placement'], min(res['files'] // 5, 8)))
        if res['stale_dirs']:
            stot['projects_with_source_subdirs'] += 1
            stot['stale_dirs_precreated'] += res['stale_dirs']
            stot['compared'] += res['stale_compared']
            stot['skipped_unspecified'] += res['stale_skipped']
        otot['compared'] += res.get('oldversion_compared', 0)
        otot['skipped'] += res.get('oldversion_skipped', 0)
        ck.sample({'project': res['name'], 'generated_files_compared': res['files'], 'setups': res['setups']}, cap=6)
    ck.part('history-earlier-data-version', **otot)
    ck.require(not ck.want('matrix') or otot['compared'] >= 2, 'earlier-data-version history compared for too few projects')
    ck.part('matrix', seeds=len(seeds), distinct_set_orders_realised=seed_orders(seeds), env_orders=len(ENV_ORDERS), dir_orders=len(DIR_ORDERS), **tot)
    ck.part('builddir-placement', placements=len(pseen), invocations=len(INVOCATIONS), histories=4, builddir_io_cells=len(c6.cells()),
            outside_dev=not disk_base().startswith('/dev/'), **ptot)
    ck.part('history-stale-dirs', **stot)
    ck.part('machine-file-forms', kinds=len(MF_KINDS), forms=len(MF_FORMS), **mtot)
    ck.part('history-earlier-options', vectors=OPT_VECTORS, ordered_pairs=len(opairs), **optot)
    ck.require(not ck.want('options') or (optot['histories'] >= 30 and optot['order_only_histories'] >= 4 and optot['pairs_whose_fresh_configurations_differ'] >= 20) or ck.n_viol,
               'earlier-options histories vacuous: %r' % optot)
    ck.part('history-earlier-revision', lists=len(c6.REV_LISTS), edit_kinds=4, declaration_kind_x_edit_cells=len(rkinds), **rtot)
    ck.require(not ck.want('revisions') or rtot['compared'] >= 30 and rtot['order_changing_histories'] >= 15 and rtot['skipped_invalid_earlier_revision'] == 0
               and {'option-insert', 'option-swap', 'option-retype', 'option-delete', 'subproject-option-insert', 'dependency-insert', 'dependency-swap', 'target-insert'} <= rkinds,
               'earlier-revision family did not run in full')
    ck.require(not ck.want('machine') or mtot['pairs_compared'] == len(MF_KINDS) * len(MF_FORMS) and mtot['pipe_copies_seen'] >= 2 * len(MF_KINDS), 'machine-file family did not run (no pipe was copied)')
    ck.require(not ck.want('matrix') or tot['projects'] >= 5 and tot['comparisons'] > 100, 'too few projects')
    ck.require(not ck.want('matrix') or tot['dependency_manifests'] >= 1, 'no project generated a dependency manifest (depmf.json)')
    ck.require(not ck.want('placement') or len(pseen) == len(placements) and ptot['comparisons'] >= 5 * len(placements) * 3 and ptot['configure_outputs_in_builddir'] >= len(placements) * 2 * len(c6.cells()),
               'build-directory placement family did not run in full')
    ck.require(not disk_base().startswith('/dev/'), 'the placement family must live outside /dev (meson ignores paths that start with /dev/)')
    ck.require(not ck.want('matrix') or stot['compared'] >= 5, 'stale-directory history compared for too few projects')
    ck.assume('hash-seed independence is decided for the listed seeds only (the seed space cannot be enumerated)')
    ck.assume('mtime/inode stability is required of configure_file outputs, generated .pc files and the dependency manifest; build.ninja and meson-info/* are only required to keep their content')
    ck.assume('generated text legitimately depends on where the build directory lies (relative paths): every comparison is between configurations at the same absolute source and build paths')
    ck.finish(evaluations=tot['setups'] + ptot['setups'] + mtot['setups'] + rtot['setups'] + optot['setups'], distinct_nontrivial=len(classes),
              rule='per project the full product of %d hash seeds x 3 environ orders x 3 directory-listing orders of fresh setups at identical paths (quick tier: full product for the language-less project, one dimension at a time for the others), plus cross-seed reconfigure and no-op reconfigure histories '
                   'and a fresh build directory that already holds the (empty) directories an earlier configuration would have left; '
                   'projects: two hand-written rich projects (pkgconfig, configure_file, install rules, tests, subprojects, options), a language-less one, projgen shapes and corpus projects. '
                   'Build-directory placement family: %d placements (sibling of the sources, nested in them, nested two levels; thorough: also elsewhere at another depth) x 2 ways of naming the directories (absolute; relative from the source root / from inside the build dir) '
                   'x {fresh, reconfigured under another seed, reconfigured again, wiped}, for a project holding the full grid of %d (writer x reader x order) ways in which configuration creates a file in the build directory and names it again (with and without a C target) and the language-less project, run outside /dev. '
                   'Earlier-options family: a build directory configured under another vector of option values (12 vectors: 6 orders / subsets / duplicates of two dependency search-path directories that provide one package with different flags, and single changes of default_library, a project option, buildtype, libdir, cmake_prefix_path, c_args) and brought to the present vector by setup --reconfigure -D / meson configure + regeneration, against a fresh configuration with the present vector. '
                   'Earlier-revision family: a build directory configured from an earlier revision of the project - every insert / delete / swap / retype at every position of the option declarations (3), of a subproject\'s option declarations (2) and of the dependency-lookup (3) and target (2) statements '
                   '(thorough: every ordered pair of edits as two earlier revisions) - then reconfigured from the present revision, against a fresh configuration at the same paths. '
                   'distinct_nontrivial = distinct (project family or placement, number-of-generated-files bucket)' % (len(seeds), len(placements), len(c6.cells())),
              exhaustive=True)


def stale_tmp_cleanup():
    """remove placement scratch trees that a killed earlier run left outside tmpfs (older than two hours)"""
    import time
    for p in glob.glob(os.path.join(disk_base(), 'verif-c06.*')):
        try:
            if time.time() - os.lstat(p).st_mtime > 7200:
                shutil.rmtree(p, ignore_errors=True)
        except OSError:
            pass


run_main(main)
