# C10 - dependencies resolve by the documented fallback policy, from verified sources.
#
# Level: exploration.  Parts (a) and (b) are bounded-exhaustive input enumeration (every cell of the decision table,
# every lookup sequence <= 3); part (c) is *fault enumeration* (every corruption class at every acquisition location,
# every step failure after a good fetch).  Every element runs the real `meson setup` (E4 fork runner) on a generated
# source tree: system dependencies are .pc files in a private PKG_CONFIG_LIBDIR, fallback subprojects are generated
# directories / wrap files, wraps fetch from file:// URLs.
#
# (a) decision table: system {absent,1.0,2.0} x constraint {none,>=1.5,>=3} x provider {none, explicit fallback:,
#     wrap [provide], subproject already configured (route {earlier subproject() call, fallback of an earlier lookup of another
#     name} x named by {fallback:, wrap [provide]}), meson.override_dependency by an earlier subproject} x subproject
#     version {1.0,2.5} x wrap_mode {default,nofallback,nodownload,forcefallback} x force_fallback_for {[],[dep],[subproject]}
#     x required x allow_fallback {unset,true,false}.  One cell = one capsule subproject (`subproject(required: false)`)
#     doing one dependency() lookup on its own dependency name, so an expected-error cell only disables its capsule.
#     Oracle: decide() below, transcribed from docs/yaml/functions/dependency.yaml, Subprojects.md (command-line options)
#     and Wrap-dependency-system-manual.md (provide section) -- NOT from dependencyfallbacks.py.
# (b) consistency: all sequences <= 3 of lookups of one name with argument variations; equal arguments => equal result
#     (unless a lookup in between legitimately resolved the name), and a not-found result must not stick.
# (c) acquisition faults, see ACQ below.
import hashlib, io, itertools, json, os, re, shutil, sys, tarfile, time

from verif.core import Check, pmap, run_main, scratch_root, NCPU
from verif import mesonproc as mp

# =========================================================================================================
# shared helpers


def pre_hook():
    """Runs in the forked child before meson starts: no back-off sleeps, and a spy on urlopen (observer only)."""
    import time
    time.sleep = lambda s: None
    log = os.environ.get('VERIF_URLLOG')
    if log:
        import urllib.request
        real = urllib.request.urlopen

        def spy(req, *a, **kw):
            with open(log, 'a') as f:
                f.write(str(getattr(req, 'full_url', req)) + '\n')
            return real(req, *a, **kw)
        urllib.request.urlopen = spy
    fault = os.environ.get('VERIF_IOFAULT')
    if fault:
        # one departure from the default environment answer while the overlay / diff is applied to subprojects/w:
        # 'copy:<n>' = the n-th file copy into the subproject fails with ENOSPC, 'popen' = the patch program cannot be started
        import errno, shutil
        from mesonbuild.wrap import wrap as wrapmod
        if fault.startswith('copy:'):
            nth = int(fault.split(':')[1])
            real_copy2 = shutil.copy2
            count = [0]

            def copy2(src, dst, *a, **kw):
                if '/subprojects/w' in str(dst):
                    count[0] += 1
                    if count[0] == nth:
                        raise OSError(errno.ENOSPC, 'No space left on device (injected)', str(dst))
                return real_copy2(src, dst, *a, **kw)
            shutil.copy2 = copy2
        elif fault == 'popen':
            def no_popen(*a, **kw):
                raise OSError(errno.ENOMEM, 'Cannot allocate memory (injected)')
            wrapmod.Popen_safe = no_popen


def mk_tar(members):
    bio = io.BytesIO()
    with tarfile.open(fileobj=bio, mode='w', format=tarfile.USTAR_FORMAT) as t:
        for name, data in members:
            if isinstance(data, str):
                data = data.encode()
            ti = tarfile.TarInfo(name)
            ti.size = len(data)
            ti.mtime = 0
            ti.mode = 0o644
            t.addfile(ti, io.BytesIO(data))
    return bio.getvalue()


def sha(b):
    return hashlib.sha256(b).hexdigest()


def pc_file(name, version):
    return 'Name: %s\nDescription: verif system dependency\nVersion: %s\n' % (name, version)


_uid = [0]


def fresh_root(tag):
    _uid[0] += 1
    p = os.path.join(scratch_root(), '%s.%d.%d' % (tag, os.getpid(), _uid[0]))
    shutil.rmtree(p, ignore_errors=True)
    os.makedirs(p)
    return p


# =========================================================================================================
# the documented policy (reference model).  Sources, quoted where they decide something:
#  [Y1] dependency.yaml: "if the same name was used in a meson.override_dependency prior to the call to dependency, the
#       overriding dependency will be returned unconditionally; ... independent of whether an external dependency is
#       installed in the system."
#  [Y2] dependency.yaml (names): "The fallback subproject will be used only if none of the names are found on the system."
#  [Y3] dependency.yaml allow_fallback: "If true and the dependency is not found on the system, Meson will fallback to a
#       subproject that provides this dependency. If false, Meson will not fallback even if a subproject provides this
#       dependency. By default, Meson will do so if required is true or enabled".
#  [Y4] dependency.yaml fallback: "Manually specifies a subproject fallback to use in case the dependency is not found in
#       the system."; version: "Specifies the required version"; required: "When set to false, Meson will proceed with the
#       build even if the dependency is not found."
#  [W1] Wrap manual: "When a wrap file provides the dependency foo-1.0 ... any call to dependency('foo-1.0') will
#       automatically fallback to that subproject even if no fallback keyword argument is given."; optional dependencies
#       "will not fallback to the subproject defined in the wrap file"; "Since 0.58.0 optional dependency like above will
#       fallback ... in the case wrap_mode is set to forcefallback or force_fallback_for contains the subproject";
#       "dependency('foo-1.0', required: false, fallback: 'foo')  # This will use the fallback".
#  [S1] Subprojects.md nofallback: "Meson will not use subproject fallbacks for any dependency declarations ... and will
#       only look for them in the system. ... This option may be overridden by --force-fallback-for".
#  [S2] Subprojects.md forcefallback: "Meson will not look at the system for any dependencies and programs which have
#       subproject fallbacks available, and will *only* use subprojects for them."
#  [S3] Subprojects.md force-fallback-for=list,of,dependencies,or,subprojects: "Meson will not look at the system for any
#       dependencies and subprojects listed there, provided a fallback was supplied in the wrapfile or when the dependency
#       was declared. This option takes precedence over --wrap-mode=nofallback, and when used in combination with
#       --wrap-mode=nodownload will only work if the subproject has already been downloaded."
#  [S4] Subprojects.md nodownload: "Meson will not use the network to download any subprojects ... Only preexisting
#       sources will be used."

#  [P1] property C10, quantifier: the provider dimension contains "subproject already configured"; anchored mechanism:
#       "_get_candidates order: cache/override, existing subproject, system (unless forced), configure subproject".  So a
#       lookup whose fallback subproject is already part of the build takes its dependency from that subproject before the
#       system is consulted.  Subprojects.md (force-fallback-for, Warning) names what this avoids: "mixing system and
#       subproject version of the same library in the same process".  The documents do not say by which route the
#       subproject has to have been configured, so both routes are enumerated: an earlier subproject() call, and an earlier
#       dependency() of ANOTHER name that fell back to the same subproject [Y4].

SYS = [None, '1.0', '2.0']
CONS = [None, '>=1.5', '>=3']
# provider = how this lookup gets at a subproject (and whether that subproject is already configured when it runs)
#   existing      wrap [provide] names s<i>;  s<i> configured by an earlier subproject('s<i>')
#   existing-fb   fallback: ['s<i>', var];    s<i> configured by an earlier subproject('s<i>')
#   sibling-fb    fallback: ['s<i>', var];    an earlier optional dependency('e<i>', fallback: ['s<i>', ...]) (e<i> is not on the system)
#   sibling-wrap  wrap [provide] names s<i>;  same earlier lookup of e<i>
PROV_BASE = ['none', 'fallback', 'wrap', 'existing', 'override']
PROV_CONFIGURED = {'existing': ('wrap', 'call'), 'existing-fb': ('fallback', 'call'),
                   'sibling-fb': ('fallback', 'sibling'), 'sibling-wrap': ('wrap', 'sibling')}
PROV = PROV_BASE + ['existing-fb', 'sibling-fb', 'sibling-wrap']
SPV = ['1.0', '2.5']
WM = ['default', 'nofallback', 'nodownload', 'forcefallback']
FFB = ['none', 'dep', 'sp']
REQ = [True, False]
AF = [None, True, False]


def satisfies(v, cons):
    """v is a dotted decimal, cons None or '>=X' ("comparison operator followed by the version string")."""
    if v is None:
        return False
    if cons is None:
        return True
    assert cons.startswith('>=')
    return tuple(int(x) for x in v.split('.')) >= tuple(int(x) for x in (cons[2:] + '.0').split('.')[:2])


UNSPEC_REASONS = {
    'U1': 'fallback: together with allow_fallback: (their combination is not described by the documentation)',
    'U2': 'fallback subproject already configured and the documents would not use a fallback for this call (wrap_mode=nofallback: '
          '"will only look for them in the system"; optional lookup with allow_fallback unset: "will not fallback to the subproject '
          'defined in the wrap file"), while the candidate order of the property puts a configured subproject first: the two disagree',
    'U4': 'fallback subproject already configured, its version fails the constraint of this lookup, the system would satisfy it: '
          'neither the documents nor the property say whether the lookup then fails or goes on to the system',
}


def sibling_configures(spv, wm, ffb):
    """Pre-state of the sibling-* providers, by the same documented policy: does the earlier optional
    dependency('e<i>', required: false, fallback: ['s<i>', 'e<i>_dep']) (e<i> absent from the system, force_fallback_for never
    names e<i>, but may name s<i>) configure s<i>?"""
    out, _ = decide(None, None, 'fallback', spv, wm, 'sp' if ffb == 'sp' else 'none', False, None)
    return out[0] == 'subproject'


def decide(sysv, cons, prov, spv, wm, ffb, req, af, downloaded=False):
    """-> (outcome, attempted_fallback) with outcome one of ('system', v) ('subproject', v) ('override', v) ('notfound',)
    ('error',) or ('unspecified', reason)."""
    fail = ('error',) if req else ('notfound',)
    if prov == 'override':                                                   # [Y1]
        return (('override', spv) if satisfies(spv, cons) else fail), False  # [Y4] version is a requirement
    configured = False
    if prov in PROV_CONFIGURED:
        prov, how = PROV_CONFIGURED[prov]                                    # prov is now how the lookup names its fallback
        configured = how == 'call' or sibling_configures(spv, wm, ffb)
        downloaded = True                                                    # these subprojects are directories in the source tree
    if prov == 'fallback' and af is not None:
        return ('unspecified', 'U1'), False
    has_fb = prov in ('fallback', 'wrap') and af is not False                # [Y3] false: never fall back
    forced = has_fb and (wm == 'forcefallback' or ffb in ('dep', 'sp'))      # [S2] [S3] ("provided a fallback was supplied")
    if prov == 'fallback':
        allowed = True                                                       # [Y4] [W1] explicit fallback, also if optional
    else:
        allowed = has_fb and (forced or af is True or req)                   # [Y3] [W1]
    if wm == 'nofallback' and not forced:                                    # [S1], [S3] takes precedence
        allowed = False
    sys_ok = satisfies(sysv, cons)
    if configured and has_fb and not forced:
        if not allowed:
            return ('unspecified', 'U2'), False
        if satisfies(spv, cons):                                             # [P1] configured subproject before the system
            return ('subproject', spv), True
        if sys_ok:
            return ('unspecified', 'U4'), False
        return fail, True
    if not forced and sys_ok:                                                # [Y2] system first unless forced
        return ('system', sysv), False
    if has_fb and allowed:
        if prov == 'wrap' and wm == 'nodownload' and not downloaded:         # [S4] [S3] not downloaded before => unavailable
            return fail, True
        return (('subproject', spv) if satisfies(spv, cons) else fail), True
    return fail, False


def expected_obs(outcome):
    k = outcome[0]
    if k == 'system':
        return ('system', outcome[1])
    if k in ('subproject', 'override'):
        return ('internal', outcome[1])
    return (k,)


# =========================================================================================================
# (a) generator: one cell = capsule c<i> looking up d<i>


def kw_text(cell_kw):
    parts = []
    for k, v in cell_kw:
        parts.append('%s: %s' % (k, v))
    return ''.join(', ' + p for p in parts)


def lookup_kwargs(i, cons, prov, req, af, native=False):
    kws = []
    if cons is not None:
        kws.append(('version', "'%s'" % cons))
    if not req:
        kws.append(('required', 'false'))
    if af is not None:
        kws.append(('allow_fallback', 'true' if af else 'false'))
    if prov == 'fallback' or PROV_CONFIGURED.get(prov, ('',))[0] == 'fallback':
        kws.append(('fallback', "['s%s', 'd%s_dep']" % (i, i)))
    if native:
        kws.append(('native', 'true'))
    return kw_text(kws)


def sp_build(i, spv):
    # d<i>_dep is what the lookup under test falls back to, e<i>_dep what the sibling lookup of the sibling-* providers uses
    return ("project('s%s', version: '%s')\nd%s_dep = declare_dependency(version: '%s')\ne%s_dep = declare_dependency(version: '%s')\n"
            % (i, spv, i, spv, i, spv))


def cell_files(root, i, cell, files, standalone=False):
    """Adds the files of one cell to `files`; returns the capsule body."""
    sysv, cons, prov, spv, req, af = cell
    if sysv is not None:
        files['pc/d%s.pc' % i] = pc_file('d%s' % i, sysv)
    if prov == 'fallback':
        files['subprojects/s%s/meson.build' % i] = sp_build(i, spv)
    elif prov == 'wrap':
        tar = mk_tar([('s%s/meson.build' % i, sp_build(i, spv))])
        files['remote/s%s.tar' % i] = tar
        files['subprojects/s%s.wrap' % i] = (
            '[wrap-file]\ndirectory = s%s\nsource_url = file://%s/remote/s%s.tar\nsource_filename = s%s.tar\n'
            'source_hash = %s\n\n[provide]\nd%s = d%s_dep\n' % (i, root, i, i, sha(tar), i, i))
    elif prov in PROV_CONFIGURED:
        files['subprojects/s%s/meson.build' % i] = sp_build(i, spv)
        if PROV_CONFIGURED[prov][0] == 'wrap':
            files['subprojects/s%s.wrap' % i] = '[wrap-file]\ndirectory = s%s\n\n[provide]\nd%s = d%s_dep\n' % (i, i, i)
    elif prov == 'override':
        files['subprojects/o%s/meson.build' % i] = (
            "project('o%s', version: '%s')\nmeson.override_dependency('d%s', declare_dependency(version: '%s'))\n" % (i, spv, i, spv))
    body = ["project('c%s')" % i]
    how = PROV_CONFIGURED.get(prov, (None, None))[1]
    if how == 'call':
        body.append("subproject('s%s')" % i)
    elif how == 'sibling':
        # step 9 = the earlier lookup of ANOTHER name (not on the system) with the same fallback subproject
        body.append("message('VERIF-PRE|%s|9|')" % i)
        body.append("e = dependency('e%s', required: false, fallback: ['s%s', 'e%s_dep'])" % (i, i, i))
        body.append("message('VERIF-RES|%s|9|@0@|@1@|@2@|'.format(e.found(), e.type_name(), e.version()))" % i)
    if prov == 'override':
        body.append("subproject('o%s')" % i)
    body.append("message('VERIF-PRE|%s|0|')" % i)
    body.append("d = dependency('d%s'%s)" % (i, lookup_kwargs(i, cons, prov, req, af)))
    body.append("message('VERIF-RES|%s|0|@0@|@1@|@2@|'.format(d.found(), d.type_name(), d.version()))" % i)
    return '\n'.join(body) + '\n'


def setup_argv(wm, ffb_names, bld='bld'):
    argv = ['setup', bld, '--backend=none']
    if wm != 'default':
        argv.append('--wrap-mode=' + wm)
    if ffb_names:
        argv.append('--force-fallback-for=' + ','.join(ffb_names))
    return argv


RES_RE = re.compile(r'^(?:[\w.-]+\| )*Message: VERIF-RES\|(\w+)\|(\d+)\|(\w+)\|([\w-]+)\|([^|]*)\|', re.M)
PRE_RE = re.compile(r'^(?:[\w.-]+\| )*Message: VERIF-PRE\|(\w+)\|(\d+)\|', re.M)


def parse_obs(out):
    pre = set((m.group(1), int(m.group(2))) for m in PRE_RE.finditer(out))
    res = {}
    for m in RES_RE.finditer(out):
        key = (m.group(1), int(m.group(2)))
        if m.group(3) != 'true':
            res[key] = ('notfound',)
        elif m.group(4) == 'pkgconfig':
            res[key] = ('system', m.group(5))
        elif m.group(4) == 'internal':
            res[key] = ('internal', m.group(5))
        else:
            res[key] = ('other', m.group(4), m.group(5))
    return pre, res


def obs_of(pre, res, key):
    if key in res:
        return res[key]
    if key in pre:
        return ('error',)
    return ('unreached',)


def ffb_names_for(ffb, ids):
    if ffb == 'dep':
        return ['d%s' % i for i in ids]
    if ffb == 'sp':
        return ['s%s' % i for i in ids]
    return []


def table_batch(job):
    """One setup: many capsules under one (wrap_mode, force_fallback_for)."""
    wm, ffb, cells = job            # cells: [(id, cell)]
    root = fresh_root('tab')
    files = {}
    names = []
    for i, cell in cells:
        files['subprojects/c%s/meson.build' % i] = cell_files(root, i, cell, files)
        names.append("'c%s'" % i)
    files['pc/.keep'] = ''
    files['meson.build'] = "project('super')\nforeach n : [%s]\n  subproject(n, required: false)\nendforeach\nmessage('VERIF-DONE')\n" % ', '.join(names)
    mp.write_tree(root, files)
    env = mp.base_env(PKG_CONFIG_LIBDIR=os.path.join(root, 'pc'))
    r = mp.run_meson(setup_argv(wm, ffb_names_for(ffb, [i for i, _ in cells])), root, env=env, pre=pre_hook, timeout=600)
    done = 'Message: VERIF-DONE' in r.out
    pre, res = parse_obs(r.out)
    obs = {i: obs_of(pre, res, (str(i), 0)) for i, _ in cells}
    for i, cell in cells:
        if PROV_CONFIGURED.get(cell[2], (None, None))[1] == 'sibling':
            obs[('sibling', i)] = obs_of(pre, res, (str(i), 9))
    shutil.rmtree(root, ignore_errors=True)
    return done, r.rc, r.unhandled, obs, ('' if done else r.out[-1200:])


def table_single(wm, ffb, cell, cold=False):
    """The cell as a stand-alone project (no capsule): exit status is observable."""
    root = fresh_root('one')
    files = {}
    body = cell_files(root, 0, cell, files)
    files['pc/.keep'] = ''
    files['meson.build'] = body
    mp.write_tree(root, files)
    env = mp.base_env(PKG_CONFIG_LIBDIR=os.path.join(root, 'pc'))
    argv = setup_argv(wm, ffb_names_for(ffb, [0]))
    r = mp.cold_meson(argv, root, env=env) if cold else mp.run_meson(argv, root, env=env, pre=pre_hook)
    pre, res = parse_obs(r.out)
    o = obs_of(pre, res, ('0', 0))
    shutil.rmtree(root, ignore_errors=True)
    return o, r.rc, r.unhandled, r.out[-1500:]


def single_job(j):
    wm, ffb, cell, cold = j
    return table_single(wm, ffb, tuple(cell), cold)


def cell_dict(wm, ffb, cell):
    sysv, cons, prov, spv, req, af = cell
    return {'system': sysv, 'constraint': cons, 'provider': prov, 'subproject_version': spv, 'wrap_mode': wm,
            'force_fallback_for': ffb, 'required': req, 'allow_fallback': af}


def part_table(ck, classes):
    spvs = SPV      # both: with 1.0 a provider fails a constraint the system satisfies, with 2.5 the other way round
    cells = list(itertools.product(SYS, CONS, PROV, spvs, REQ, AF))
    per_setup = 45
    jobs = []
    meta = []
    skipped = {}
    n_cells = 0
    for wm in WM:
        for ffb in FFB:
            todo = []
            for idx, cell in enumerate(cells):
                n_cells += 1
                sysv, cons, prov, spv, req, af = cell
                out, _ = decide(sysv, cons, prov, spv, wm, ffb, req, af)
                if out[0] == 'unspecified':
                    skipped[out[1]] = skipped.get(out[1], 0) + 1
                    if out[1] == 'U1':
                        continue            # not even run: the combination is rejected as invalid arguments
                todo.append((idx, cell))
            for k in range(0, len(todo), per_setup):
                jobs.append((wm, ffb, todo[k:k + per_setup]))
    queue = jobs
    setups = 0
    compared = 0
    exp_hist = {}
    unspec_obs = {}
    conf = {p: {'compared': 0, 'configured_when_looked_up': 0, 'expected_subproject_although_system_satisfies': 0,
                'expected_system_or_failure': 0} for p in PROV_CONFIGURED}
    aborted = 0
    rounds = 0
    while queue and rounds < 12:
        rounds += 1
        nxt = []
        for (done, rc, unhandled, obs, tail), (wm, ffb, cs) in zip(pmap(table_batch, queue), queue):
            setups += 1
            if not done:
                aborted += 1
                if len(cs) > 1:
                    h = len(cs) // 2
                    nxt.append((wm, ffb, cs[:h]))
                    nxt.append((wm, ffb, cs[h:]))
                    continue
                cell = cs[0][1]
                key = 'C10:table:unhandled-exception' if unhandled else 'C10:table:setup-aborted'
                ck.violation(key + ':' + cell[2], 'meson setup aborted although the lookup sits in subproject(required: false): ' + tail[-300:],
                             {'part': 'table', 'wrap_mode': wm, 'force_fallback_for': ffb, 'cell': list(cell), 'tail': tail})
                continue
            for i, cell in cs:
                sysv, cons, prov, spv, req, af = cell
                out, _ = decide(sysv, cons, prov, spv, wm, ffb, req, af)
                o = obs[i]
                how = PROV_CONFIGURED.get(prov, (None, None))[1]
                is_conf = how == 'call'
                if how == 'sibling':
                    # the pre-state itself is an ordinary `fallback:` cell; if it is not what the policy gives, say so and do
                    # not judge the lookup that depends on it
                    is_conf = sibling_configures(spv, wm, ffb)
                    sexp = ('internal', spv) if is_conf else ('notfound',)
                    if obs.get(('sibling', i)) != sexp:
                        ck.violation('C10:table:%s:sibling-prestate:exp-%s:got-%s' % (prov, sexp[0], obs.get(('sibling', i), ('?',))[0]),
                                     'cell %s: the earlier optional dependency(e, fallback: [s, e_dep]) of a name absent from the system '
                                     'should give %s, meson gives %s' % (cell_dict(wm, ffb, cell), sexp, obs.get(('sibling', i))),
                                     {'part': 'table', 'wrap_mode': wm, 'force_fallback_for': ffb, 'cell': list(cell),
                                      'expected': list(sexp), 'observed': list(obs.get(('sibling', i), ()))})
                        continue
                if out[0] == 'unspecified':
                    k = '%s:%s' % (out[1], o[0])
                    unspec_obs[k] = unspec_obs.get(k, 0) + 1
                    continue
                exp = expected_obs(out)
                compared += 1
                if prov in conf:
                    cf = conf[prov]
                    cf['compared'] += 1
                    cf['configured_when_looked_up'] += is_conf
                    if is_conf and out[0] == 'subproject' and satisfies(sysv, cons) and wm != 'forcefallback' and ffb == 'none':
                        cf['expected_subproject_although_system_satisfies'] += 1
                    if out[0] != 'subproject':
                        cf['expected_system_or_failure'] += 1
                exp_hist[out[0]] = exp_hist.get(out[0], 0) + 1
                classes.add(('table', out[0], prov if out[0] in ('error', 'notfound') else ''))
                if o != exp:
                    forced = wm == 'forcefallback' or ffb != 'none'
                    key = 'C10:table:%s:exp-%s:got-%s%s' % (prov, out[0], o[0], ':forced' if forced else '')
                    ck.violation(key, 'dependency() cell %s: documented policy gives %s, meson gives %s' % (cell_dict(wm, ffb, cell), out, o),
                                 {'part': 'table', 'wrap_mode': wm, 'force_fallback_for': ffb, 'cell': list(cell),
                                  'expected': list(exp), 'observed': list(o)})
                elif len(ck.samples) < 3 and out[0] in ('subproject', 'override', 'error') and compared % 97 == 0:
                    ck.sample({'table_cell': cell_dict(wm, ffb, cell), 'outcome': list(out)})
        queue = nxt
    if queue:
        ck.internal('decision table batches did not converge')
    # stand-alone slice: the same cells as top-level projects (exit status observable), half of them in a cold process
    specified = []
    for wm in WM:
        for ffb in FFB:
            for cell in cells:
                out, _ = decide(*cell[:4], wm, ffb, *cell[4:])
                if out[0] != 'unspecified':
                    specified.append((wm, ffb, cell, out))
    nsl = ck.q(32, 128)
    step = max(1, len(specified) // nsl)
    sl = specified[(ck.seed * 7) % step::step][:nsl]
    sjobs = [(wm, ffb, cell, k % 2 == 0) for k, (wm, ffb, cell, out) in enumerate(sl)]
    s_err = 0
    for (o, rc, unhandled, tail), (wm, ffb, cell, out), sj in zip(pmap(single_job, sjobs), sl, sjobs):
        exp = expected_obs(out)
        ok = (o == exp) and ((rc != 0) == (out[0] == 'error')) and not unhandled
        if out[0] == 'error':
            s_err += 1
        if not ok:
            if unhandled:
                ck.violation('C10:table:standalone:unhandled-exception', 'stand-alone lookup died with a traceback: ' + tail[-300:],
                             {'part': 'single', 'wrap_mode': wm, 'force_fallback_for': ffb, 'cell': list(cell), 'cold': sj[3]})
            else:
                ck.violation('C10:table:standalone:%s:exp-%s:got-%s-rc%d' % (cell[2], out[0], o[0], rc),
                             'stand-alone project: cell %s expected %s (exit %s0), got %s exit %d' % (
                                 cell_dict(wm, ffb, cell), out, '!=' if out[0] == 'error' else '==', o, rc),
                             {'part': 'single', 'wrap_mode': wm, 'force_fallback_for': ffb, 'cell': list(cell), 'cold': sj[3],
                              'expected': list(exp), 'observed': list(o), 'rc': rc})
    ck.part('table', cells=n_cells, compared=compared, skipped_unspecified=sum(skipped.values()), skipped_by_reason=skipped,
            setups=setups, aborted_batches=aborted, expected_outcomes=exp_hist, observed_in_unspecified=unspec_obs,
            standalone_revalidated=len(sl), standalone_cold=len([1 for j in sjobs if j[3]]), standalone_expected_errors=s_err,
            subproject_versions=spvs)
    # the "subproject already configured" family: by route of configuration x way the lookup names its fallback
    ck.part('configured_subproject', routes={p: '%s names the fallback, configured by %s' % (
        'fallback:' if v[0] == 'fallback' else 'wrap [provide]',
        "an earlier subproject() call" if v[1] == 'call' else 'the fallback of an earlier lookup of another name') for p, v in PROV_CONFIGURED.items()},
        **{p.replace('-', '_'): v for p, v in conf.items()})
    for p, v in conf.items():
        ck.require(v['expected_subproject_although_system_satisfies'] >= 5,
                   'provider %s: no cell where the configured subproject is expected although the system satisfies the request' % p)
        ck.require(v['expected_system_or_failure'] >= 5, 'provider %s: the configured subproject is always expected' % p)
        ck.require(v['configured_when_looked_up'] < v['compared'] or PROV_CONFIGURED[p][1] == 'call',
                   'provider %s: the sibling lookup always configures the subproject' % p)
    for k in ('system', 'subproject', 'override', 'notfound', 'error'):
        ck.require(exp_hist.get(k, 0) > 20, 'decision table never expects outcome %s' % k)
    ck.require(compared > 1000, 'decision table compared too little')
    return n_cells, compared, sum(skipped.values()), setups + len(sl)


# ---- (a'') lookups with several names ------------------------------------------------------------------------------------------
#  [Y2'] dependency.yaml (names, since 0.60): "The dependencies are looked up in the order they are provided here. The first found
#        dependency will then be used. The fallback subproject will be used only if none of the names are found on the system. Once
#        one of the name has been found, all other names are added into the cache so subsequent calls for any of those name will
#        return the same value."
#  [Y5]  dependency.yaml: "Meson can automatically identify a subproject as a fallback if a wrap file provides the dependency" - the
#        lookup is for all of its names, so a wrap that provides ANY of them is that fallback.
# Every name of the lookup has a role: absent, on the system (low / high version), provided by the wrap of s<i>, overridden.
NROLES = ['absent', 'syslo', 'syshi', 'wrap', 'override']
NFFB = ['none', 'prov', 'sp']          # force_fallback_for: nothing / the name the wrap provides / the subproject
NAMES_UNSPEC = {
    'U5': 'several names, one of them overridden by a dependency that fails the version constraint while another name could be satisfied',
    'U6': 'several names, two of them provided by the wrap: which variable is taken is not described (not generated)',
}


def nsysv(role, j):
    return {'syslo': '1.%d' % j, 'syshi': '2.%d' % j}.get(role)


def decide_names(roles, cons, spv, wm, ffb, req, af):
    fail = ('error',) if req else ('notfound',)
    if 'override' in roles:                                                  # [Y1]
        if satisfies(spv, cons):
            return ('override', spv)
        if any(r != 'absent' for r in roles if r != 'override'):
            return ('unspecified', 'U5')
        return fail
    has_fb = 'wrap' in roles and af is not False                             # [Y5] [Y3]
    forced = has_fb and (wm == 'forcefallback' or ffb in ('prov', 'sp'))     # [S2] [S3]
    allowed = has_fb and (forced or af is True or req)                       # [Y3] [W1]
    if wm == 'nofallback' and not forced:                                    # [S1] [S3]
        allowed = False
    if not forced:
        for j, r in enumerate(roles):                                        # [Y2'] in order, the first that is found
            if satisfies(nsysv(r, j), cons):
                return ('system', nsysv(r, j))
    if allowed:                                                              # [Y2'] only if none of the names is on the system
        return ('subproject', spv) if satisfies(spv, cons) else fail
    return fail


def names_kwargs(cons, req, af):
    kws = []
    if cons is not None:
        kws.append(('version', "'%s'" % cons))
    if not req:
        kws.append(('required', 'false'))
    if af is not None:
        kws.append(('allow_fallback', 'true' if af else 'false'))
    return kw_text(kws)


def names_cell_files(i, cell, files):
    roles, cons, spv, req, af = cell
    nm = ['d%s%s' % (i, 'abc'[j]) for j in range(len(roles))]
    provided = []
    body = ["project('c%s')" % i]
    for j, r in enumerate(roles):
        if nsysv(r, j):
            files['pc/%s.pc' % nm[j]] = pc_file(nm[j], nsysv(r, j))
        elif r == 'wrap':
            provided.append(nm[j])
        elif r == 'override':
            files['subprojects/o%s/meson.build' % i] = "project('o%s', version: '%s')\n%s" % (i, spv, ''.join(
                "meson.override_dependency('%s', declare_dependency(version: '%s'))\n" % (nm[k], spv) for k, q in enumerate(roles) if q == 'override'))
    if provided:
        files['subprojects/s%s/meson.build' % i] = "project('s%s', version: '%s')\n%s" % (i, spv, ''.join(
            "%s_dep = declare_dependency(version: '%s')\n" % (n, spv) for n in provided))
        files['subprojects/s%s.wrap' % i] = '[wrap-file]\ndirectory = s%s\n\n[provide]\n%s' % (i, ''.join('%s = %s_dep\n' % (n, n) for n in provided))
    if 'override' in roles:
        body.append("subproject('o%s')" % i)
    body.append("message('VERIF-PRE|%s|0|')" % i)
    body.append("d = dependency(%s%s)" % (', '.join("'%s'" % n for n in nm), names_kwargs(cons, req, af)))
    body.append("message('VERIF-RES|%s|0|@0@|@1@|@2@|'.format(d.found(), d.type_name(), d.version()))" % i)
    # [Y2'] afterwards every single name answers with the same value (asked optionally, so that nothing can abort)
    for j, n in enumerate(nm):
        body.append("message('VERIF-PRE|%s|%d|')" % (i, j + 1))
        body.append("f = dependency('%s'%s)" % (n, names_kwargs(cons, False, af)))
        body.append("message('VERIF-RES|%s|%d|@0@|@1@|@2@|'.format(f.found(), f.type_name(), f.version()))" % (i, j + 1))
    return '\n'.join(body) + '\n', provided


def names_batch(job):
    wm, ffb, cells, standalone = job
    root = fresh_root('nam')
    files = {'pc/.keep': ''}
    caps = []
    ffbn = []
    for i, cell in cells:
        body, provided = names_cell_files(i, cell, files)
        files['meson.build' if standalone else 'subprojects/c%s/meson.build' % i] = body
        caps.append("'c%s'" % i)
        if ffb == 'prov':
            ffbn.extend(provided[:1])
        elif ffb == 'sp':
            ffbn.append('s%s' % i)
    if not standalone:
        files['meson.build'] = "project('super')\nforeach n : [%s]\n  subproject(n, required: false)\nendforeach\nmessage('VERIF-DONE')\n" % ', '.join(caps)
    mp.write_tree(root, files)
    env = mp.base_env(PKG_CONFIG_LIBDIR=os.path.join(root, 'pc'))
    r = mp.run_meson(setup_argv(wm, ffbn), root, env=env, pre=pre_hook, timeout=600)
    done = standalone or 'Message: VERIF-DONE' in r.out
    pre, res = parse_obs(r.out)
    obs = {i: [obs_of(pre, res, (str(i), k)) for k in range(len(cell[0]) + 1)] for i, cell in cells}
    shutil.rmtree(root, ignore_errors=True)
    return done, r.rc, r.unhandled, obs, ('' if done and not r.unhandled else r.out[-1200:])


def names_dict(wm, ffb, cell):
    roles, cons, spv, req, af = cell
    return {'names': list(roles), 'constraint': cons, 'subproject_version': spv, 'wrap_mode': wm, 'force_fallback_for': ffb,
            'required': req, 'allow_fallback': af}


def judge_names(ck, wm, ffb, cell, obs, where, classes, stats):
    roles, cons, spv, req, af = cell
    out = decide_names(roles, cons, spv, wm, ffb, req, af)
    if out[0] == 'unspecified':
        return
    exp = expected_obs(out)
    stats['compared'] += 1
    stats['exp'][out[0]] = stats['exp'].get(out[0], 0) + 1
    first_sys = [j for j, r in enumerate(roles) if nsysv(r, j)]
    if out[0] == 'subproject' and roles[0] != 'wrap':
        stats['fallback_through_later_name'] += 1
    if out[0] == 'system' and first_sys and exp[1] != nsysv(roles[first_sys[0]], first_sys[0]):
        stats['system_through_later_name'] += 1
    classes.add(('names', out[0], roles.index('wrap') if 'wrap' in roles and out[0] == 'subproject' else -1))
    o = obs[0]
    det = {'part': 'names', 'wrap_mode': wm, 'force_fallback_for': ffb, 'cell': [list(roles), cons, spv, req, af], 'where': where}
    if o != exp:
        ck.violation('C10:names:%s:exp-%s:got-%s%s' % ('+'.join(roles), out[0], o[0], ':forced' if wm == 'forcefallback' or ffb != 'none' else ''),
                     'dependency() with several names, cell %s (%s): documented policy gives %s, meson gives %s' % (names_dict(wm, ffb, cell), where, out, o),
                     dict(det, expected=list(exp), observed=[list(x) for x in obs]))
        return
    if out[0] in ('system', 'subproject', 'override'):
        for j in range(len(roles)):
            stats['followups'] += 1
            if obs[j + 1] != o:
                ck.violation('C10:names:followup:%s:first-%s:then-%s' % ('+'.join(roles), o[0], obs[j + 1][0]),
                             'cell %s (%s): the lookup of all names gave %s, a later lookup of name %d alone gives %s ("subsequent calls for any of '
                             'those name will return the same value")' % (names_dict(wm, ffb, cell), where, o, j + 1, obs[j + 1]),
                             dict(det, expected=list(exp), observed=[list(x) for x in obs]))
                break


def part_names(ck, classes):
    maxn = ck.q(2, 3)
    cells = []
    for n in range(2, maxn + 1):
        for roles in itertools.product(NROLES, repeat=n):
            if roles.count('wrap') > 1:
                continue                                                     # U6
            if all(r == 'absent' for r in roles):
                continue
            for cons, spv, req, af in itertools.product([None, '>=1.5'], SPV, REQ, AF):
                cells.append((roles, cons, spv, req, af))
    jobs = []
    skipped = {}
    n_cells = 0
    for wm in WM:
        for ffb in NFFB:
            todo = []
            for idx, cell in enumerate(cells):
                if ffb == 'prov' and 'wrap' not in cell[0]:
                    continue                                                 # nothing to name
                n_cells += 1
                out = decide_names(cell[0], cell[1], cell[2], wm, ffb, cell[3], cell[4])
                if out[0] == 'unspecified':
                    skipped[out[1]] = skipped.get(out[1], 0) + 1
                    continue
                todo.append((idx, cell))
            for k in range(0, len(todo), 40):
                jobs.append((wm, ffb, todo[k:k + 40], False))
    stats = {'compared': 0, 'exp': {}, 'fallback_through_later_name': 0, 'system_through_later_name': 0, 'followups': 0}
    setups = 0
    aborted = 0
    queue = jobs
    rounds = 0
    while queue and rounds < 12:
        rounds += 1
        nxt = []
        for (done, rc, unhandled, obs, tail), (wm, ffb, cs, _s) in zip(pmap(names_batch, queue), queue):
            setups += 1
            if not done:
                aborted += 1
                if len(cs) > 1:
                    h = len(cs) // 2
                    nxt += [(wm, ffb, cs[:h], False), (wm, ffb, cs[h:], False)]
                    continue
                cell = cs[0][1]
                ck.violation('C10:names:%s:%s' % ('unhandled-exception' if unhandled else 'setup-aborted', '+'.join(cell[0])),
                             'meson setup aborted although the lookup sits in subproject(required: false): ' + tail[-300:],
                             {'part': 'names', 'wrap_mode': wm, 'force_fallback_for': ffb, 'cell': [list(cell[0])] + list(cell[1:]), 'tail': tail})
                continue
            for i, cell in cs:
                judge_names(ck, wm, ffb, cell, obs[i], 'capsule', classes, stats)
        queue = nxt
    if queue:
        ck.internal('names batches did not converge')
    # stand-alone slice (exit status observable)
    spec = [(wm, ffb, cell) for wm in WM for ffb in NFFB for cell in cells
            if not (ffb == 'prov' and 'wrap' not in cell[0]) and decide_names(cell[0], cell[1], cell[2], wm, ffb, cell[3], cell[4])[0] != 'unspecified']
    nsl = ck.q(32, 96)
    step = max(1, len(spec) // nsl)
    sl = spec[(ck.seed * 5) % step::step][:nsl]
    sstats = {'compared': 0, 'exp': {}, 'fallback_through_later_name': 0, 'system_through_later_name': 0, 'followups': 0}
    for (done, rc, unhandled, obs, tail), (wm, ffb, cell) in zip(pmap(names_batch, [(wm, ffb, [(0, cell)], True) for wm, ffb, cell in sl]), sl):
        setups += 1
        out = decide_names(cell[0], cell[1], cell[2], wm, ffb, cell[3], cell[4])
        if unhandled or (rc != 0) != (out[0] == 'error'):
            ck.violation('C10:names:standalone:%s:exp-%s:rc%d%s' % ('+'.join(cell[0]), out[0], rc, ':traceback' if unhandled else ''),
                         'stand-alone project, cell %s: expected %s, meson setup exit %d: %s' % (names_dict(wm, ffb, cell), out, rc, tail[-300:]),
                         {'part': 'names', 'wrap_mode': wm, 'force_fallback_for': ffb, 'cell': [list(cell[0])] + list(cell[1:]), 'where': 'standalone'})
            continue
        judge_names(ck, wm, ffb, cell, obs[0], 'standalone', set(), sstats)
    ck.part('names', max_names=maxn, roles=NROLES, force_fallback_for=NFFB, cells=n_cells, compared=stats['compared'],
            skipped_unspecified=sum(skipped.values()), skipped_by_reason=skipped, setups=setups, aborted_batches=aborted,
            expected_outcomes=stats['exp'], fallback_through_a_later_name=stats['fallback_through_later_name'],
            system_through_a_later_name=stats['system_through_later_name'], followup_lookups_compared=stats['followups'],
            standalone_revalidated=len(sl))
    for k in ('system', 'subproject', 'override', 'notfound', 'error'):
        ck.require(stats['exp'].get(k, 0) > 20, 'names part never expects outcome %s' % k)
    ck.require(stats['fallback_through_later_name'] > 50, 'names part: the wrap never provides a later name only')
    ck.require(stats['system_through_later_name'] > 50, 'names part: the system never answers through a later name')
    ck.require(stats['followups'] > 500, 'names part: no follow-up lookups compared')
    return stats['compared'] + stats['followups'], sum(skipped.values()), setups


# ---- (a3) spelling of the name: in a wrap's provide section "<name> = <variable>" is written as the project spells the
# dependency; the policy does not depend on letter case or punctuation of the name
SPELL = ['d%sx', 'D%sx', 'Dep%s-X.y', 'dEP_%s+']
SPELL_FORM = ['wrap', 'fb-list', 'fb-str']


def spell_batch(job):
    wm, cells = job
    root = fresh_root('spl')
    files = {'pc/.keep': ''}
    caps = []
    for i, (sp, form, sysv, req) in cells:
        name = sp % i
        var = 'v%s_dep' % i
        if sysv:
            files['pc/%s.pc' % name] = pc_file(name, sysv)
        files['subprojects/s%s/meson.build' % i] = "project('s%s', version: '2.5')\n%s = declare_dependency(version: '2.5')\n" % (i, var)
        if form != 'fb-list':
            files['subprojects/s%s.wrap' % i] = '[wrap-file]\ndirectory = s%s\n\n[provide]\n%s = %s\n' % (i, name, var)
        kws = [] if req else [('required', 'false')]
        if form == 'fb-list':
            kws.append(('fallback', "['s%s', '%s']" % (i, var)))
        elif form == 'fb-str':
            kws.append(('fallback', "'s%s'" % i))
        files['subprojects/c%s/meson.build' % i] = (
            "project('c%s')\nmessage('VERIF-PRE|%s|0|')\nd = dependency('%s'%s)\n"
            "message('VERIF-RES|%s|0|@0@|@1@|@2@|'.format(d.found(), d.type_name(), d.version()))\n" % (i, i, name, kw_text(kws), i))
        caps.append("'c%s'" % i)
    files['meson.build'] = "project('super')\nforeach n : [%s]\n  subproject(n, required: false)\nendforeach\nmessage('VERIF-DONE')\n" % ', '.join(caps)
    mp.write_tree(root, files)
    r = mp.run_meson(setup_argv(wm, []), root, env=mp.base_env(PKG_CONFIG_LIBDIR=os.path.join(root, 'pc')), pre=pre_hook, timeout=600)
    pre, res = parse_obs(r.out)
    obs = {i: obs_of(pre, res, (str(i), 0)) for i, _ in cells}
    shutil.rmtree(root, ignore_errors=True)
    return 'Message: VERIF-DONE' in r.out, r.unhandled, obs, r.out[-1200:]


def part_spell(ck, classes):
    cells = list(enumerate(itertools.product(SPELL, SPELL_FORM, [None, '1.0'], REQ)))
    wms = ['default', 'forcefallback', 'nofallback']
    n = 0
    differs = 0
    for (done, unh, obs, tail), wm in zip(pmap(spell_batch, [(wm, cells) for wm in wms]), wms):
        if not done:
            ck.violation('C10:spelling:%s' % ('unhandled-exception' if unh else 'setup-aborted'), 'spelling family aborted: ' + tail[-300:],
                         {'part': 'spell', 'wrap_mode': wm})
            continue
        for i, (sp, form, sysv, req) in cells:
            out, _ = decide(sysv, None, 'wrap' if form == 'wrap' else 'fallback', '2.5', wm, 'none', req, None, downloaded=True)
            n += 1
            differs += sp != SPELL[0] and out[0] == 'subproject'
            classes.add(('spell', out[0], form))
            if obs[i] != expected_obs(out):
                ck.violation('C10:spelling:%s:%s:exp-%s:got-%s' % (form, 'lower' if sp == SPELL[0] else 'other', out[0], obs[i][0]),
                             "dependency('%s') with %s, system %s, required %s, wrap_mode %s: documented policy gives %s, meson gives %s" % (
                                 sp % 0, {'wrap': 'a wrap [provide] entry', 'fb-list': "fallback: [subproject, variable]",
                                          'fb-str': "fallback: 'subproject' and the variable from the wrap's [provide] entry"}[form], sysv, req, wm, out, obs[i]),
                             {'part': 'spell', 'wrap_mode': wm, 'cell': [sp, form, sysv, req]})
    ck.part('spelling', spellings=[x % 0 for x in SPELL], forms=SPELL_FORM, wrap_modes=wms, compared=n, subproject_expected_for_non_lowercase_names=differs)
    ck.require(differs > 20, 'spelling family: the fallback is never expected for a name that is not lower case')
    return n, len(wms)


# ---- (a') the same table after a change of policy in an existing build directory -----------------------------------------
# The policy is a function of the current wrap_mode / force_fallback_for and of what is on disk; what an earlier
# configuration of the same build directory resolved (and cached) is not an input.
def hist_batch(job):
    wm1, ffb1, wm2, ffb2, cells = job
    root = fresh_root('hst')
    files = {}
    names = []
    for i, cell in cells:
        files['subprojects/c%s/meson.build' % i] = cell_files(root, i, cell, files)
        names.append("'c%s'" % i)
    files['pc/.keep'] = ''
    files['meson.build'] = "project('super')\nforeach n : [%s]\n  subproject(n, required: false)\nendforeach\nmessage('VERIF-DONE')\n" % ', '.join(names)
    mp.write_tree(root, files)
    env = mp.base_env(PKG_CONFIG_LIBDIR=os.path.join(root, 'pc'))
    ids = [i for i, _ in cells]
    r1 = mp.run_meson(setup_argv(wm1, ffb_names_for(ffb1, ids)), root, env=env, pre=pre_hook, timeout=600)
    done1 = 'Message: VERIF-DONE' in r1.out
    pre, res = parse_obs(r1.out)
    obs1 = {i: obs_of(pre, res, (str(i), 0)) for i in ids}
    on_disk = {i: os.path.isdir(os.path.join(root, 'subprojects', 's%s' % i)) for i in ids}
    argv2 = ['setup', 'bld', '--reconfigure', '--wrap-mode=' + wm2, '--force-fallback-for=' + ','.join(ffb_names_for(ffb2, ids))]
    r2 = mp.run_meson(argv2, root, env=env, pre=pre_hook, timeout=600) if done1 else None
    done2 = r2 is not None and 'Message: VERIF-DONE' in r2.out
    obs2 = {}
    if r2 is not None:
        pre, res = parse_obs(r2.out)
        obs2 = {i: obs_of(pre, res, (str(i), 0)) for i in ids}
    shutil.rmtree(root, ignore_errors=True)
    tail = '' if (done1 and done2) else (r1.out[-600:] if not done1 else r2.out[-900:])
    return done1, done2, bool(r1.unhandled or (r2 is not None and r2.unhandled)), obs1, obs2, on_disk, tail


def part_hist(ck, classes):
    cells = list(itertools.product(SYS, CONS, PROV if ck.thorough else PROV_BASE, ['2.5'], REQ, AF))
    settings = [(wm, ffb) for wm in WM for ffb in FFB]
    base = ('default', 'none')
    if ck.thorough:
        trans = [(a, b) for a in settings for b in settings if a != b]
    else:
        trans = [(base, b) for b in settings if b != base] + [(a, base) for a in settings if a != base]
    jobs = []
    for (wm1, ffb1), (wm2, ffb2) in trans:
        todo = []
        for idx, cell in enumerate(cells):
            o1, _ = decide(*cell[:4], wm1, ffb1, *cell[4:])
            if o1[0] == 'unspecified' and o1[1] == 'U1':
                continue
            todo.append((idx, cell))
        for k in range(0, len(todo), 45):
            jobs.append((wm1, ffb1, wm2, ffb2, todo[k:k + 45]))
    compared = changed = setups = 0
    queue = jobs
    rounds = 0
    while queue and rounds < 12:
        rounds += 1
        nxt = []
        for (done1, done2, unh, obs1, obs2, on_disk, tail), job in zip(pmap(hist_batch, queue), queue):
            wm1, ffb1, wm2, ffb2, cs = job
            setups += 2
            if not (done1 and done2):
                if len(cs) > 1:
                    h = len(cs) // 2
                    nxt.append((wm1, ffb1, wm2, ffb2, cs[:h]))
                    nxt.append((wm1, ffb1, wm2, ffb2, cs[h:]))
                    continue
                cell = cs[0][1]
                ck.violation('C10:history:%s:%s' % ('unhandled-exception' if unh else 'setup-aborted', cell[2]),
                             'configured with %s/%s, then --reconfigure with %s/%s: meson setup aborted although the lookup sits in '
                             'subproject(required: false): %s' % (wm1, ffb1, wm2, ffb2, tail[-300:]),
                             {'part': 'history', 'first': [wm1, ffb1], 'second': [wm2, ffb2], 'cell': list(cell)})
                continue
            for i, cell in cs:
                out2, _ = decide(*cell[:4], wm2, ffb2, *cell[4:], downloaded=on_disk[i])
                if out2[0] == 'unspecified':
                    continue
                exp = expected_obs(out2)
                compared += 1
                changed += obs1[i] != obs2.get(i)
                classes.add(('history', out2[0], wm1 == 'default'))
                if obs2.get(i) != exp:
                    key = 'C10:history:%s:exp-%s:got-%s' % (cell[2], out2[0], obs2.get(i, ('?',))[0])
                    ck.violation(key, 'dependency() cell %s after the build directory was first configured with wrap_mode=%s force_fallback_for=%s '
                                 '(where it gave %s): documented policy gives %s, meson gives %s' % (
                                     cell_dict(wm2, ffb2, cell), wm1, ffb1, obs1[i], out2, obs2.get(i)),
                                 {'part': 'history', 'first': [wm1, ffb1], 'second': [wm2, ffb2], 'cell': list(cell),
                                  'expected': list(exp), 'observed': list(obs2.get(i, ()))})
        queue = nxt
    if queue:
        ck.internal('history batches did not converge')
    ck.part('history', transitions=len(trans), cells_per_transition=len(cells), compared=compared, outcome_changed_by_the_new_policy=changed, setups=setups)
    ck.require(changed > 100 or ck.n_viol > 0, 'history part: the second policy hardly ever changed an outcome')
    return compared, setups


# =========================================================================================================
# (b) consistency of repeated lookups of one name


def seq_body(k, seq, prov):
    body = ["project('c%s')" % k]
    for j, (cons, req, af, native) in enumerate(seq):
        body.append("message('VERIF-PRE|%s|%d|')" % (k, j))
        body.append("d%d = dependency('d%s'%s)" % (j, k, lookup_kwargs(k, cons, prov, req, af, native)))
        body.append("message('VERIF-RES|%s|%d|@0@|@1@|@2@|'.format(d%d.found(), d%d.type_name(), d%d.version()))" % (k, j, j, j, j))
    return '\n'.join(body) + '\n'


def seq_batch(job):
    sysv, prov, spv, seqs = job        # seqs: [(k, seq)]
    root = fresh_root('seq')
    files = {'pc/.keep': ''}
    names = []
    for k, seq in seqs:
        if sysv is not None:
            files['pc/d%s.pc' % k] = pc_file('d%s' % k, sysv)
        if prov == 'wrap':
            files['subprojects/s%s/meson.build' % k] = sp_build(k, spv)
            files['subprojects/s%s.wrap' % k] = '[wrap-file]\ndirectory = s%s\n\n[provide]\nd%s = d%s_dep\n' % (k, k, k)
        files['subprojects/c%s/meson.build' % k] = seq_body(k, seq, prov)
        names.append("'c%s'" % k)
    files['meson.build'] = "project('super')\nforeach n : [%s]\n  subproject(n, required: false)\nendforeach\nmessage('VERIF-DONE')\n" % ', '.join(names)
    mp.write_tree(root, files)
    env = mp.base_env(PKG_CONFIG_LIBDIR=os.path.join(root, 'pc'))
    r = mp.run_meson(setup_argv('default', []), root, env=env, pre=pre_hook, timeout=600)
    done = 'Message: VERIF-DONE' in r.out
    pre, res = parse_obs(r.out)
    obs = {k: [obs_of(pre, res, (str(k), j)) for j in range(len(seq))] for k, seq in seqs}
    shutil.rmtree(root, ignore_errors=True)
    return done, r.unhandled, obs, ('' if done else r.out[-1200:])


def judge_seq(sysv, prov, spv, seq, obs):
    """-> list of (key, text) problems.  obs[j] in system/internal/notfound/error/unreached."""
    bad = []
    attempted = False
    # per step: does the documented policy configure the fallback subproject in this lookup (a legitimate state change)?
    atts = [decide(sysv, a[0], 'wrap' if prov == 'wrap' else 'none', spv, 'default', 'none', a[1], a[2])[1] for a in seq]
    for j, (args, o) in enumerate(zip(seq, obs)):
        if o[0] == 'unreached':
            if j == 0 or obs[j - 1][0] not in ('error', 'unreached'):
                bad.append(('C10:seq:harness', 'step %d not reached although step %d did not fail' % (j, j - 1)))
            continue
        cons, req, af, native = args
        earlier = obs[:j]
        # (1) equal arguments => equal result, unless a lookup in between resolved the name (documented: the name is then
        #     cached / overridden for the rest of the run) and the earlier one had not found anything
        for i in range(j):
            if seq[i] != args:
                continue
            ri = obs[i]
            if ri[0] in ('system', 'internal'):
                if o != ri:
                    bad.append(('C10:seq:same-args-differ:found-then-%s' % o[0],
                                'lookup %d repeats lookup %d (%r) which found %s, but got %s' % (j, i, args, ri, o)))
            elif ri[0] == 'notfound':
                between_found = any(x[0] in ('system', 'internal') for x in obs[i + 1:j]) or any(atts[i + 1:j])
                if o != ri and not between_found:
                    bad.append(('C10:seq:same-args-differ:notfound-then-%s' % o[0],
                                'lookup %d repeats lookup %d (%r) which was not found, nothing was resolved or configured in between, but got %s' % (j, i, args, o)))
        # (2) nothing resolved so far and no fallback subproject configured so far => the documented policy applies afresh
        out, att = decide(sysv, cons, 'wrap' if prov == 'wrap' else 'none', spv, 'default', 'none', req, af)
        if not native and not attempted and all(x[0] == 'notfound' for x in earlier):
            exp = expected_obs(out)
            if o != exp:
                bad.append(('C10:seq:stale:exp-%s:got-%s' % (out[0], o[0]),
                            'lookup %d (%r) after only not-found lookups: documented policy gives %s, got %s' % (j, args, out, o)))
        attempted = attempted or att or o[0] == 'internal'
    return bad


# ---- (b') the same lookup before and after somebody tries to override the name ---------------------------------------------
# "equal arguments => equal result" must also hold when the first answer came from what an earlier configuration (or a
# subproject that failed afterwards) left in the dependency cache: once a lookup has answered, the name is taken.
def ovr_batch(_job):
    root = fresh_root('ovr')
    files = {'pc/.keep': ''}
    cases = [(k, pre, cons) for k, (pre, cons) in enumerate(itertools.product(('none', 'cached-by-failed-subproject'), (None, '>=1.0')))]
    names = []
    for k, pre, cons in cases:
        files['pc/d%s.pc' % k] = pc_file('d%s' % k, '1.0')
        kw = lookup_kwargs(k, cons, 'none', True, None)
        files['subprojects/f%s/meson.build' % k] = "project('f%s')\ndependency('d%s'%s)\nerror('fails after the lookup')\n" % (k, k, kw)
        files['subprojects/o%s/meson.build' % k] = ("project('o%s', version: '9.9')\nmeson.override_dependency('d%s', declare_dependency(version: '9.9'))\n" % (k, k))
        body = ["project('c%s')" % k]
        if pre != 'none':
            body.append("subproject('f%s', required: false)" % k)
        for j in (0, 1):
            body.append("message('VERIF-PRE|%s|%d|')" % (k, j))
            body.append("d%d = dependency('d%s'%s)" % (j, k, kw))
            body.append("message('VERIF-RES|%s|%d|@0@|@1@|@2@|'.format(d%d.found(), d%d.type_name(), d%d.version()))" % (k, j, j, j, j))
            if j == 0:
                body.append("subproject('o%s', required: false)" % k)
        files['subprojects/c%s/meson.build' % k] = '\n'.join(body) + '\n'
        names.append("'c%s'" % k)
    files['meson.build'] = "project('super')\nforeach n : [%s]\n  subproject(n, required: false)\nendforeach\nmessage('VERIF-DONE')\n" % ', '.join(names)
    mp.write_tree(root, files)
    env = mp.base_env(PKG_CONFIG_LIBDIR=os.path.join(root, 'pc'))
    out = []
    for rnd, argv in (('first configuration', setup_argv('default', [])), ('setup --reconfigure', ['setup', 'bld', '--reconfigure'])):
        r = mp.run_meson(argv, root, env=env, pre=pre_hook, timeout=600)
        pre_, res = parse_obs(r.out)
        for k, pre, cons in cases:
            o = [obs_of(pre_, res, (str(k), j)) for j in (0, 1)]
            out.append((rnd, pre, cons, o, 'Message: VERIF-DONE' in r.out, bool(r.unhandled), r.out[-300:]))
    shutil.rmtree(root, ignore_errors=True)
    return out


def part_ovr(ck, classes):
    n = 0
    for rnd, pre, cons, o, done, unh, tail in ovr_batch(None):
        n += 1
        rep = {'part': 'ovr', 'round': rnd, 'pre': pre, 'constraint': cons}
        what = 'dependency(d%s) twice with an attempted meson.override_dependency() in between (%s, %s)' % (
            '' if cons is None else ", version: '%s'" % cons, rnd, 'name first looked up by a subproject that then failed' if pre != 'none' else 'no earlier lookup')
        if not done:
            ck.violation('C10:ovr:%s' % ('unhandled-exception' if unh else 'setup-aborted'), '%s: meson setup aborted: %s' % (what, tail), rep)
            continue
        classes.add(('ovr', rnd, pre))
        if o[0] != ('system', '1.0'):
            ck.violation('C10:ovr:first-lookup', '%s: the first lookup gives %s, the system has 1.0 and nothing overrode the name yet' % (what, o[0]), rep)
        elif o[1] != o[0]:
            ck.violation('C10:ovr:same-args-differ', '%s: first %s, then %s' % (what, o[0], o[1]), rep)
    ck.part('override_consistency', cases=n, meson_runs=2)
    return n, 2


def part_seq(ck, classes):
    alpha = list(itertools.product(CONS, REQ, AF, [False, True]))
    envs = [(s, p) for s in SYS for p in ('none', 'wrap')]
    spv = '2.5'
    nonnative = [a for a in alpha if not a[3]]
    # depth-3 alphabet per environment (None = stop at depth 2).  quick: depth 3 only where the outcomes are richest
    # (system 1.0 + wrap 2.5, constraints none / >=1.5, native: false);
    # thorough: full alphabet with a wrap provider, native: false only without any provider
    if ck.thorough:
        alpha3_of = {e: (alpha if e[1] == 'wrap' else nonnative) for e in envs}
    else:
        alpha3_of = {e: ([a for a in nonnative if a[0] != '>=3'] if e == ('1.0', 'wrap') else None) for e in envs}
    maxlen = {e: (3 if alpha3_of[e] else 2) for e in envs}
    per_setup = 60
    total = 0
    setups = 0
    lookups = 0
    same_args_pairs = 0
    pruned = 0
    for env in envs:
        sysv, prov = env
        alpha12 = alpha if (ck.thorough or prov == 'wrap') else nonnative     # quick: native: only where a fallback exists
        level = [(a,) for a in alpha12]
        for n in range(1, maxlen[env] + 1):
            jobs = []
            for k in range(0, len(level), per_setup):
                jobs.append((sysv, prov, spv, [(k + t, s) for t, s in enumerate(level[k:k + per_setup])]))
            alive = []
            for (done, unhandled, obs, tail), job in zip(pmap(seq_batch, jobs), jobs):
                setups += 1
                if not done:
                    ck.violation('C10:seq:unhandled-exception' if unhandled else 'C10:seq:setup-aborted',
                                 'meson setup aborted in a lookup-sequence batch: ' + tail[-300:],
                                 {'part': 'seqbatch', 'system': sysv, 'provider': prov, 'seqs': [list(map(list, s)) for _, s in job[3]][:60], 'tail': tail})
                    continue
                for k, seq in job[3]:
                    total += 1
                    o = obs[k]
                    lookups += len([x for x in o if x[0] != 'unreached'])
                    for i in range(len(seq)):
                        for j in range(i + 1, len(seq)):
                            if seq[i] == seq[j] and o[j][0] != 'unreached':
                                same_args_pairs += 1
                    for key, text in judge_seq(sysv, prov, spv, seq, o):
                        ck.violation(key, 'system=%s provider=%s: %s' % (sysv, prov, text),
                                     {'part': 'seq', 'system': sysv, 'provider': prov, 'spv': spv, 'seq': [list(s) for s in seq],
                                      'observed': [list(x) for x in o]})
                    classes.add(('seq',) + tuple(x[0] for x in o))
                    if o[-1][0] in ('error', 'unreached'):
                        pruned += 1           # every extension stops at the same failing lookup: nothing more to observe
                    else:
                        alive.append(seq)
                    if total % 4001 == 0:
                        ck.sample({'lookup_sequence': [list(s) for s in seq], 'system': sysv, 'provider': prov, 'observed': [list(x) for x in o]})
            if n < maxlen[env]:
                ext = alpha3_of[env] if n + 1 == 3 else alpha12
                level = [s + (a,) for s in alive if all(x in ext for x in s) for a in ext]
    ck.part('sequences', sequences=total, setups=setups, lookups=lookups, same_argument_pairs=same_args_pairs,
            prefixes_not_extended_because_they_end_in_error=pruned, alphabet=len(alpha),
            max_len={'%s/%s' % e: v for e, v in maxlen.items()},
            depth12_alphabet={'%s/%s' % e: (len(alpha) if (ck.thorough or e[1] == 'wrap') else len(nonnative)) for e in envs},
            depth3_alphabet={'%s/%s' % e: (len(v) if v else 0) for e, v in alpha3_of.items()})
    ck.require(same_args_pairs > 50, 'no repeated lookups with equal arguments were observed')
    return total, setups


# =========================================================================================================
# (c) acquisition faults (fault enumeration).  One case = one source tree with one [wrap-file] wrap `w`, run 1 (meson setup
# or meson subprojects download), listing of subprojects/ incl. the package cache, run 2 (meson setup, new build dir).
#  [A1] wrap manual: "source_hash - sha256 checksum of the downloaded source archive", "patch_hash - sha256 checksum of the
#       downloaded overlay archive"; wrap files describe "how to obtain the sources, validate them, and modify them".
#  [A2] "source_fallback_url - fallback URL to be used when download from source_url fails" (same for patch_).
#  [A3] "if source_filename or patch_filename is found in the project's subprojects/packagecache directory, it will be used
#       instead of downloading the file, even if --wrap-mode option is set to nodownload. The file's hash will be checked."
#  [A4] "it is possible to use only the source_filename and patch_filename value in a .wrap file (without source_url and
#       patch_url) to specify a local archive in the subprojects/packagefiles directory. The *_hash entries are optional
#       when using this method."
#  [A5] Subprojects.md: "--wrap-mode=nodownload: Meson will not use the network to download any subprojects ... Only
#       preexisting sources will be used."
#  Property text: a failed patch/diff step removes the freshly unpacked directory so that no later run accepts a
#  half-prepared subproject.

SRC_TOKEN = b'SRC-GOOD-aaaaaaaaaaaaaaaa'
PATCH_TOKEN = b'PATCH-GOOD-bbbbbbbbbbbbbbbb'
SP_W_BUILD = ("project('w', version: '1.0')\nfs = import('fs')\n"
              "p = fs.exists('patched.txt') ? fs.read('patched.txt').strip() : 'none'\n"
              "message('VERIF-SP|' + fs.read('src.txt').strip() + '|' + p + '|')\n")
GOOD_SRC_MEMBERS = [('w/meson.build', SP_W_BUILD), ('w/src.txt', SRC_TOKEN + b'\n'), ('w/zz_last.bin', b'z' * 3000)]
GOOD_PATCH_MEMBERS = [('w/patched.txt', PATCH_TOKEN + b'\n'), ('w/zz_plast.bin', b'y' * 3000)]
NOBUILD_SRC_MEMBERS = [('w/src.txt', SRC_TOKEN + b'\n'), ('w/zz_last.bin', b'z' * 3000)]
WRONG_HASH = sha(b'verif: a hash that matches nothing')
CONTENTS = ['good', 'flip', 'trunc', 'empty', 'other']
HASHES = ['right', 'wrong', 'absent']
LOCS = ['primary', 'fallback', 'cache', 'packagefiles']


def good_archive(what):
    return mk_tar(GOOD_SRC_MEMBERS if what == 'source' else GOOD_PATCH_MEMBERS)


def variant(what, content):
    good = good_archive(what)
    if content == 'good':
        return good
    if content == 'flip':
        tok = b'aaaaaaaaaaaaaaaa' if what == 'source' else b'bbbbbbbbbbbbbbbb'
        k = good.index(tok) + 5
        return good[:k] + b'X' + good[k + 1:]       # a data byte: the tar stays extractable
    if content == 'trunc':
        k = good.index(b'zzzzzzzz' if what == 'source' else b'yyyyyyyy') + 1000
        return good[:k]                             # earlier members stay extractable
    if content == 'empty':
        return b''
    if content == 'other':
        if what == 'source':
            return mk_tar([('w/meson.build', "project('w')\nmessage('VERIF-SP|OTHER|none|')\n"),
                           ('w/MARKER_other.txt', 'marker'), ('zother/MARKER_stray.txt', 'marker')])
        return mk_tar([('w/patched.txt', 'PATCH-OTHER\n'), ('w/MARKER_other.txt', 'marker'), ('zother/MARKER_stray.txt', 'marker')])
    if content == 'primarybad':
        return mk_tar([('w/meson.build', "project('w')\nmessage('VERIF-SP|PRIMARYBAD|none|')\n"),
                       ('w/patched.txt', 'PATCH-PRIMARYBAD\n'), ('w/MARKER_primary.txt', 'marker')])
    raise AssertionError(content)


OK_DIFF = '--- a/src.txt\n+++ b/src.txt\n@@ -1 +1 @@\n-%s\n+SRC-DIFFED\n' % SRC_TOKEN.decode()
BAD_DIFF = '--- a/src.txt\n+++ b/src.txt\n@@ -1 +1 @@\n-THIS-IS-NOT-THE-CONTENT\n+SRC-BADDIFF\n'
STEPS = ['patchdir-missing', 'diff-missing', 'diff-noapply', 'diff-second-noapply', 'no-buildfile', 'patchdir-ok', 'diff-ok',
         'io-copy-1', 'io-copy-2', 'io-copy-3', 'io-popen']      # io-*: an injected I/O error during run 1 only

ACQ_UNSPEC = {
    'U3': 'a local packagefiles archive without a recorded hash whose content is corrupt: nothing to verify against',
}


def acq_cases():
    cases = []
    for what in ('source', 'patch'):
        for loc in LOCS:
            for pk in (('missing', 'corrupt') if loc == 'fallback' else (None,)):
                for content in CONTENTS:
                    for h in HASHES:
                        if h == 'absent' and loc != 'packagefiles':
                            continue        # "absent where allowed": the hash is only optional for packagefiles [A4]
                        for wm in ('default', 'nodownload'):
                            for driver in (('setup', 'download') if wm == 'default' else ('setup',)):
                                cases.append({'kind': 'fault', 'what': what, 'loc': loc, 'primary': pk, 'content': content,
                                              'hash': h, 'wm': wm, 'driver': driver})
    for step in STEPS:
        for srcloc in ('primary', 'cache', 'packagefiles'):
            cases.append({'kind': 'step', 'step': step, 'srcloc': srcloc, 'wm': 'default', 'driver': 'setup'})
    # simplest first: good content, right hash, primary location ...
    cases.sort(key=lambda c: (c['kind'] != 'fault', c.get('driver') != 'setup', c.get('content') != 'good', c.get('hash') != 'right'))
    return cases


def acq_expect(c):
    """-> 'success' | 'refuse' | 'unspecified'"""
    if c['kind'] == 'step':
        if c['step'].startswith('io-'):
            return 'io-fault'            # run 1 must not prepare anything; run 2 (no fault, same inputs) must prepare everything
        return 'success' if c['step'].endswith('-ok') else 'refuse'
    if c['wm'] == 'nodownload' and c['loc'] in ('primary', 'fallback'):
        return 'refuse'                                  # [A5] nothing is fetched
    if c['hash'] == 'absent':
        return 'success' if c['content'] == 'good' else 'unspecified'
    if c['hash'] == 'wrong' or c['content'] != 'good':   # [A1] [A3]: recorded hash != SHA-256 of the file
        return 'refuse'
    return 'success'


def place(what, loc, primary, data, h, root, remote, files, wrap, seeded):
    """Describe where `what`'s archive lives; fills files (paths relative to root or absolute under remote)."""
    fn = 'src.tar' if what == 'source' else 'patch.tar'
    wrap.append('%s_filename = %s' % (what, fn))
    if loc == 'primary':
        files[os.path.join(remote, fn)] = data
        wrap.append('%s_url = file://%s/%s' % (what, remote, fn))
    elif loc == 'fallback':
        if primary == 'corrupt':
            files[os.path.join(remote, 'primary-' + fn)] = variant(what, 'primarybad')
        wrap.append('%s_url = file://%s/primary-%s' % (what, remote, fn))
        files[os.path.join(remote, 'fb-' + fn)] = data
        wrap.append('%s_fallback_url = file://%s/fb-%s' % (what, remote, fn))
    elif loc == 'cache':
        wrap.append('%s_url = file://%s/missing-%s' % (what, remote, fn))
        files['subprojects/packagecache/' + fn] = data
        seeded['packagecache/' + fn] = sha(data)
    elif loc == 'packagefiles':
        files['subprojects/packagefiles/' + fn] = data
        seeded['packagefiles/' + fn] = sha(data)
    if h == 'right':
        wrap.append('%s_hash = %s' % (what, sha(good_archive(what))))
    elif h == 'wrong':
        wrap.append('%s_hash = %s' % (what, WRONG_HASH))


def listing(root):
    out = {}
    base = os.path.join(root, 'subprojects')
    for d, dirs, fs_ in os.walk(base):
        for f in fs_:
            p = os.path.join(d, f)
            rel = os.path.relpath(p, base)
            try:
                with open(p, 'rb') as fh:
                    b = fh.read()
                out[rel] = (len(b), sha(b))
            except OSError:
                out[rel] = (-1, '')
        for dd in dirs:
            if not os.listdir(os.path.join(d, dd)):
                out[os.path.relpath(os.path.join(d, dd), base) + '/'] = (0, '')
    return out


def markers(root):
    """Files anywhere under the source tree (outside the places the harness itself put archives) that carry content of
    an archive that must not have been unpacked."""
    hits = []
    for d, dirs, fs_ in os.walk(root):
        rel = os.path.relpath(d, root)
        if rel == '.':
            dirs[:] = [x for x in dirs if not x.startswith('bld')]
        if rel.startswith(os.path.join('subprojects', 'packagecache')) or rel.startswith(os.path.join('subprojects', 'packagefiles')):
            continue
        for f in fs_:
            p = os.path.join(d, f)
            if f.startswith('MARKER_'):
                hits.append(os.path.relpath(p, root))
                continue
            try:
                with open(p, 'rb') as fh:
                    b = fh.read(20000)
            except OSError:
                continue
            if re.search(rb'aaaaaXaaaa|bbbbbXbbbb|PATCH-OTHER|PATCH-PRIMARYBAD', b):
                hits.append(os.path.relpath(p, root))
    return hits


def acq_case(c):
    """Runs one case; returns (problems [(key, text)], observation dict)."""
    root = fresh_root('acq')
    remote = fresh_root('rem')
    files = {}
    seeded = {}
    wrap = ['[wrap-file]', 'directory = w']
    expect = acq_expect(c)
    expected_tree = dict((n[2:], sha(d if isinstance(d, bytes) else d.encode())) for n, d in GOOD_SRC_MEMBERS)
    sp_msg = SRC_TOKEN.decode() + '|none'
    if c['kind'] == 'fault':
        what = c['what']
        data = variant(what, c['content'])
        if what == 'source':
            place('source', c['loc'], c['primary'], data, c['hash'], root, remote, files, wrap, seeded)
        else:
            # the source itself is fine: from its primary URL, or (nodownload) from a pre-seeded cache entry
            place('source', 'primary' if c['wm'] == 'default' else 'cache', None, good_archive('source'), 'right', root, remote, files, wrap, seeded)
            place('patch', c['loc'], c['primary'], data, c['hash'], root, remote, files, wrap, seeded)
            expected_tree.update(dict((n[2:], sha(d if isinstance(d, bytes) else d.encode())) for n, d in GOOD_PATCH_MEMBERS))
            sp_msg = SRC_TOKEN.decode() + '|' + PATCH_TOKEN.decode()
    else:
        step = c['step']
        src = mk_tar(NOBUILD_SRC_MEMBERS) if step == 'no-buildfile' or step.startswith('io-copy') else good_archive('source')
        fn = 'src.tar'
        wrap.append('source_filename = src.tar')
        if c['srcloc'] == 'primary':
            files[os.path.join(remote, fn)] = src
            wrap.append('source_url = file://%s/%s' % (remote, fn))
        elif c['srcloc'] == 'cache':
            wrap.append('source_url = file://%s/missing-%s' % (remote, fn))
            files['subprojects/packagecache/' + fn] = src
            seeded['packagecache/' + fn] = sha(src)
        else:
            files['subprojects/packagefiles/' + fn] = src
            seeded['packagefiles/' + fn] = sha(src)
        wrap.append('source_hash = ' + sha(src))
        files['subprojects/packagefiles/ok.diff'] = OK_DIFF
        files['subprojects/packagefiles/bad.diff'] = BAD_DIFF
        files['subprojects/packagefiles/pd/patched.txt'] = PATCH_TOKEN + b'\n'
        for k in ('ok.diff', 'bad.diff', 'pd/patched.txt'):
            v = files['subprojects/packagefiles/' + k]
            seeded['packagefiles/' + k] = sha(v if isinstance(v, bytes) else v.encode())
        if step.startswith('io-copy'):
            # the overlay brings the only build file (top level: copied first) and two more files below it
            ov = {'meson.build': SP_W_BUILD, 'patched.txt': PATCH_TOKEN + b'\n', 'extra/fix.h': '/* fix */\n'}
            for k, v in ov.items():
                files['subprojects/packagefiles/pdio/' + k] = v
                seeded['packagefiles/pdio/' + k] = sha(v if isinstance(v, bytes) else v.encode())
            wrap.append('patch_directory = pdio')
            expected_tree = dict((n[2:], sha(d if isinstance(d, bytes) else d.encode())) for n, d in NOBUILD_SRC_MEMBERS)
            expected_tree.update({k: sha(v if isinstance(v, bytes) else v.encode()) for k, v in ov.items()})
            sp_msg = SRC_TOKEN.decode() + '|' + PATCH_TOKEN.decode()
        elif step == 'io-popen':
            wrap.append('diff_files = ok.diff')
            expected_tree['src.txt'] = sha(b'SRC-DIFFED\n')
            sp_msg = 'SRC-DIFFED|none'
        elif step == 'patchdir-missing':
            wrap.append('patch_directory = nosuchdir')
        elif step == 'diff-missing':
            wrap.append('diff_files = nosuch.diff')
        elif step == 'diff-noapply':
            wrap.append('diff_files = bad.diff')
        elif step == 'diff-second-noapply':
            wrap.append('diff_files = ok.diff, bad.diff')
        elif step == 'patchdir-ok':
            wrap.append('patch_directory = pd')
            expected_tree['patched.txt'] = sha(PATCH_TOKEN + b'\n')
            sp_msg = SRC_TOKEN.decode() + '|' + PATCH_TOKEN.decode()
        elif step == 'diff-ok':
            wrap.append('diff_files = ok.diff')
            expected_tree['src.txt'] = sha(b'SRC-DIFFED\n')
            sp_msg = 'SRC-DIFFED|none'
        elif step == 'no-buildfile':
            expected_tree = dict((n[2:], sha(d if isinstance(d, bytes) else d.encode())) for n, d in NOBUILD_SRC_MEMBERS)
    files['subprojects/w.wrap'] = '\n'.join(wrap) + '\n'
    files['meson.build'] = "project('acq')\nsp = subproject('w', required: false)\nmessage('VERIF-FOUND|@0@|'.format(sp.found()))\n"
    abs_files = {k: v for k, v in files.items() if os.path.isabs(k)}
    mp.write_tree(root, {k: v for k, v in files.items() if not os.path.isabs(k)})
    mp.write_tree('/', {k.lstrip('/'): v for k, v in abs_files.items()})
    os.makedirs(os.path.join(root, 'subprojects', 'packagefiles'), exist_ok=True)
    urllog = os.path.join(remote, 'urllog')
    env = mp.base_env(VERIF_URLLOG=urllog)
    good_hashes = {sha(good_archive('source')), sha(good_archive('patch'))}
    if c['kind'] == 'step':
        good_hashes.add(sha(src))
    bad_hashes = {sha(variant(w, k)): '%s-%s' % (w, k) for w in ('source', 'patch') for k in ('flip', 'trunc', 'other', 'primarybad')}
    problems = []
    obs = {'expect': expect, 'runs': []}

    def check_tree(run_no, found, spm, exp=None):
        e_ = exp or expect
        ls = listing(root)
        w_files = {k[2:]: v for k, v in ls.items() if k.startswith('w/')}
        rest = {k: v for k, v in ls.items() if not k.startswith('w/')}
        tag = 'run%d' % run_no
        for k, (size, h) in sorted(rest.items()):
            if k in ('w.wrap', '.wraplock') or k in ('packagecache/', 'packagefiles/'):
                continue
            if k in seeded:
                if h != seeded[k]:
                    problems.append(('C10:acq:harness', '%s: pre-seeded file %s changed' % (tag, k)))
                continue
            if k.startswith('packagecache/'):
                if size == 0:
                    continue                    # empty temporary files of failed URL opens: not archive content
                if h in good_hashes and k in ('packagecache/src.tar', 'packagecache/patch.tar') and c['wm'] != 'nodownload':
                    continue                    # a verified download
                if c['wm'] == 'nodownload':
                    problems.append(('C10:acq:fetched-under-nodownload', '%s: new package cache entry %s under wrap_mode=nodownload' % (tag, k)))
                elif h in bad_hashes:
                    problems.append(('C10:acq:rejected-archive-kept', '%s: archive %s whose hash differs from the recorded one is kept as %s' % (tag, bad_hashes[h], k)))
                else:
                    problems.append(('C10:acq:cache-stray', '%s: unexpected package cache entry %s (%d bytes)' % (tag, k, size)))
                continue
            problems.append(('C10:acq:unverified-content-unpacked' if 'MARKER' in k or k.startswith('zother') else 'C10:acq:stray-file',
                             '%s: unexpected %s in subprojects/' % (tag, k)))
        mk = markers(root)
        if mk:
            problems.append(('C10:acq:unverified-content-unpacked', '%s: content of an archive that failed (or never had) verification found at %s' % (tag, mk[:3])))
        exists = os.path.isdir(os.path.join(root, 'subprojects', 'w'))
        if e_ == 'refuse':
            if found:
                problems.append(('C10:acq:%s:%s' % ('second-run-accepts-half-prepared' if run_no == 2 else 'accepted-unverified', c.get('step') or c['what']),
                                 '%s: subproject configured although %s must be refused (message %r)' % (tag, describe(c), spm)))
            if exists and not (c['kind'] == 'step' and c['step'] == 'no-buildfile'):
                if c['kind'] == 'step':
                    problems.append(('C10:acq:dir-left-after-failed-step:' + c['step'], '%s: subprojects/w left behind: %s' % (tag, sorted(w_files)[:6])))
                elif c['what'] == 'patch':
                    problems.append(('C10:acq:dir-left-after-failed-patch', '%s: subprojects/w left behind after the overlay archive was refused: %s' % (tag, sorted(w_files)[:6])))
                else:
                    problems.append(('C10:acq:source-unpacked-unverified', '%s: subprojects/w exists although the source archive was refused: %s' % (tag, sorted(w_files)[:6])))
            if exists and c['kind'] == 'step' and c['step'] == 'no-buildfile':
                for k, (size, h) in w_files.items():
                    if expected_tree.get(k) != h:
                        problems.append(('C10:acq:stray-file', '%s: unexpected w/%s' % (tag, k)))
        elif e_ == 'success':
            if found is False or (found is None and not exists):
                problems.append(('C10:acq:good-refused:%s' % (c.get('loc') or c.get('step')), '%s: %s should configure but did not' % (tag, describe(c))))
            else:
                if found and spm != sp_msg:
                    problems.append(('C10:acq:wrong-content-used', '%s: subproject saw %r, expected %r' % (tag, spm, sp_msg)))
                for k, (size, h) in w_files.items():
                    if k == '.meson-subproject-wrap-hash.txt':
                        continue
                    if expected_tree.get(k) != h:
                        problems.append(('C10:acq:wrong-content-used', '%s: w/%s is not what the verified archives contain' % (tag, k)))
                for k in expected_tree:
                    if k not in w_files:
                        problems.append(('C10:acq:wrong-content-used', '%s: w/%s missing' % (tag, k)))
        if c['wm'] == 'nodownload' and os.path.exists(urllog) and os.path.getsize(urllog):
            problems.append(('C10:acq:fetched-under-nodownload', '%s: URL opened under wrap_mode=nodownload: %s' % (tag, open(urllog).read()[:200])))
        obs['runs'].append({'found': found, 'sp': spm, 'w_exists': exists, 'cache': sorted(k for k in ls if k.startswith('packagecache/'))})

    def run_setup(bld, env_=None, abort_ok=False):
        r = mp.run_meson(setup_argv(c['wm'], [], bld), root, env=env_ or env, pre=pre_hook, timeout=120)
        m = re.search(r'^Message: VERIF-FOUND\|(\w+)\|', r.out, re.M)
        sm = re.search(r'Message: VERIF-SP\|([^\n]*)\|$', r.out, re.M)
        if abort_ok and 'Unhandled python OSError' in r.out:
            pass        # the injected I/O error ended the run; meson reports it as a problem of the environment
        elif r.unhandled:
            problems.append(('C10:acq:unhandled-exception:%s' % exc_class(c),
                             'meson setup died with a Python traceback on %s: %s' % (describe(c), r.out[-400:])))
        elif m is None and abort_ok:
            pass        # an I/O error of the environment may end the whole run (reported as an error, not a traceback)
        elif m is None:
            problems.append(('C10:acq:setup-aborted', 'meson setup failed outright on %s although the subproject is optional: %s' % (describe(c), r.out[-300:])))
        return (m is not None and m.group(1) == 'true'), (sm.group(1) if sm else None)

    if c['driver'] == 'download':
        r = mp.run_meson(['subprojects', 'download'], root, env=env, pre=pre_hook, timeout=120)
        if r.unhandled:
            problems.append(('C10:acq:unhandled-exception:%s' % exc_class(c),
                             'meson subprojects download died with a Python traceback on %s: %s' % (describe(c), r.out[-400:])))
        if expect != 'unspecified':
            if (r.rc == 0) != (expect == 'success'):
                problems.append(('C10:acq:download-exit-status', 'meson subprojects download exit %d on %s (expected %s)' % (r.rc, describe(c), expect)))
            check_tree(1, None, None)
        else:
            obs['runs'].append({'download_rc': r.rc, 'found': r.rc == 0})
    elif expect == 'io-fault':
        fenv = dict(env)
        fenv['VERIF_IOFAULT'] = 'popen' if c['step'] == 'io-popen' else 'copy:' + c['step'].rsplit('-', 1)[1]
        f1, s1 = run_setup('bld', fenv, abort_ok=True)
        check_tree(1, f1, s1, 'refuse')
    else:
        f1, s1 = run_setup('bld')
        if expect != 'unspecified':
            check_tree(1, f1, s1)
        else:
            obs['runs'].append({'found': f1, 'sp': s1})
    f2, s2 = run_setup('bld2')
    if expect == 'io-fault':
        check_tree(2, f2, s2, 'success')
    elif expect != 'unspecified':
        check_tree(2, f2, s2)
    else:
        # no hash to verify against: only the hash-independent invariants apply (no traceback; what run 1 failed to prepare
        # is not accepted by run 2)
        obs['runs'].append({'found': f2, 'sp': s2})
        if not obs['runs'][0]['found'] and f2:
            problems.append(('C10:acq:second-run-accepts-half-prepared:%s-unpack-failed' % c['what'],
                             'run 1 failed to prepare the subproject from %s, run 2 (same inputs) configures the left-over tree (message %r)' % (describe(c), s2)))
        obs['markers'] = markers(root)[:3]
    shutil.rmtree(root, ignore_errors=True)
    shutil.rmtree(remote, ignore_errors=True)
    return problems, obs


# ---- (d) two wraps of one configuration that name the same archive file --------------------------------------------------
# "never unpacked or used" is per wrap: the hash recorded in wrap B decides about B, whatever the same run already found
# out about that file for wrap A (release tarballs of different projects are all called v1.0.tar.gz).
def shared_members(x):
    return [('meson.build', "project('w%s', version: '1.0')\nfs = import('fs')\nmessage('VERIF-SP|%s|' + fs.read('src.txt').strip() + '|')\n" % (x, x)),
            ('src.txt', 'SHARED-SRC-%s\n' % x)]


def shared_cases():
    return [{'what': what, 'loc': loc, 'order': order} for what in ('source', 'patch') for loc in ('cache', 'packagefiles', 'primary')
            for order in ('b', 'ab', 'ba')]


def shared_case(c):
    """File F (named by both wraps) holds A's archive; wa.wrap records its hash, wb.wrap records the hash of B's own archive."""
    root, remote = fresh_root('shr'), fresh_root('rem')
    what, loc = c['what'], c['loc']
    files = {}
    arch = {x: mk_tar(shared_members(x)) for x in 'ab'}
    patch = {x: mk_tar([('w%s/patched-%s.txt' % (x, x), 'SHARED-PATCH-%s\n' % x)]) for x in 'ab'}
    shared = arch['a'] if what == 'source' else patch['a']
    fn = 'v1.0.tar'
    for x in 'ab':
        w = ['[wrap-file]', 'directory = w' + x, 'lead_directory_missing = true']
        if what == 'source':
            w += ['source_filename = ' + fn, 'source_hash = ' + sha(arch[x])]
            if loc != 'packagefiles':       # a wrap without URL takes the file from subprojects/packagefiles
                w += ['source_url = file://%s/%s' % (remote, fn if (loc == 'primary' and x == 'a') else 'missing-' + fn)]
        else:
            files[os.path.join(remote, 'src-%s.tar' % x)] = arch[x]
            w += ['source_filename = src-%s.tar' % x, 'source_hash = ' + sha(arch[x]), 'source_url = file://%s/src-%s.tar' % (remote, x)]
            w += ['patch_filename = ' + fn, 'patch_hash = ' + sha(patch[x])]
            if loc != 'packagefiles':
                w += ['patch_url = file://%s/%s' % (remote, fn if (loc == 'primary' and x == 'a') else 'missing-' + fn)]
        files['subprojects/w%s.wrap' % x] = '\n'.join(w) + '\n'
    if loc == 'primary':
        files[os.path.join(remote, fn)] = shared
    else:
        files['subprojects/%s/%s' % ('packagecache' if loc == 'cache' else 'packagefiles', fn)] = shared
    body = ["project('shared')"]
    for x in c['order']:
        body.append("sp%s = subproject('w%s', required: false)\nmessage('VERIF-FOUND|%s|@0@|'.format(sp%s.found()))" % (x, x, x, x))
    files['meson.build'] = '\n'.join(body) + '\n'
    mp.write_tree(root, {k: v for k, v in files.items() if not os.path.isabs(k)})
    mp.write_tree('/', {k.lstrip('/'): v for k, v in files.items() if os.path.isabs(k)})
    os.makedirs(os.path.join(root, 'subprojects', 'packagefiles'), exist_ok=True)
    env = mp.base_env()
    problems, obs = [], {'runs': []}
    for run_no, bld in ((1, 'bld'), (2, 'bld2')):
        r = mp.run_meson(setup_argv('default', [], bld), root, env=env, pre=pre_hook, timeout=120)
        found = dict(re.findall(r'^Message: VERIF-FOUND\|(\w)\|(\w+)\|', r.out, re.M))
        used = re.findall(r'Message: VERIF-SP\|(\w)\|([^|\n]*)\|', r.out)
        wb = os.path.join(root, 'subprojects', 'wb')
        wb_files = sorted(os.listdir(wb)) if os.path.isdir(wb) else None
        obs['runs'].append({'found': found, 'subproject_messages': used, 'wb': wb_files})
        tag = 'run%d' % run_no
        if r.unhandled:
            problems.append(('C10:shared:unhandled-exception', '%s: meson setup died with a Python traceback: %s' % (tag, r.out[-300:])))
            continue
        if sorted(found) != sorted(c['order']):
            problems.append(('C10:shared:setup-aborted', '%s: meson setup failed outright although both subprojects are optional: %s' % (tag, r.out[-300:])))
            continue
        if 'a' in found and found['a'] != 'true':
            problems.append(('C10:shared:good-refused', '%s: wa (recorded hash matches the file) was not configured' % tag))
        if found['b'] == 'true':
            problems.append(('C10:shared:accepted-unverified:' + what, '%s: wb configured although the SHA-256 of %s differs from the %s_hash recorded in wb.wrap '
                             '(subproject messages %r)' % (tag, fn, what, used)))
        if wb_files is not None:
            problems.append(('C10:shared:%s' % ('source-unpacked-unverified' if what == 'source' else 'dir-left-after-failed-patch'),
                             '%s: subprojects/wb exists (%s) although wb.wrap records another hash for %s' % (tag, wb_files[:5], fn)))
        if any(x == 'b' or (x == 'a' and t != 'SHARED-SRC-a') for x, t in used):
            problems.append(('C10:shared:wrong-content-used', '%s: subproject messages %r' % (tag, used)))
    shutil.rmtree(root, ignore_errors=True)
    shutil.rmtree(remote, ignore_errors=True)
    return problems, obs


def part_shared(ck, classes):
    cases = shared_cases()
    n_a_ok = 0
    for (problems, obs), c in zip(pmap(shared_case, cases), cases):
        n_a_ok += any(r['found'].get('a') == 'true' for r in obs['runs'])
        classes.add(('shared', c['what'], c['loc'], c['order']))
        seen = set()
        for key, text in problems:
            if key not in seen:
                seen.add(key)
                ck.violation(key, 'two wraps naming %s archive %s at %s, order %s: %s' % (c['what'], 'v1.0.tar', c['loc'], c['order'], text),
                             {'part': 'shared', 'case': c, 'observed': obs})
    ck.part('shared_archive_name', cases=len(cases), meson_runs=2 * len(cases), first_wrap_accepted_in=n_a_ok)
    ck.require(n_a_ok >= 10 or ck.n_viol > 0, 'shared-archive part: the wrap whose hash matches was hardly ever accepted')
    return len(cases), 2 * len(cases)



def exc_class(c):
    if c['kind'] == 'step':
        return 'step-' + c['step']
    if acq_expect(c) == 'unspecified':
        return c['what'] + '-unpack-unverifiable'      # corrupt local archive with no recorded hash reaches the unpacker
    return '%s-%s-%s-%s' % (c['what'], c['loc'], c['content'], c['hash'])


def describe(c):
    if c['kind'] == 'step':
        return 'step failure %s (source from %s)' % (c['step'], c['srcloc'])
    return '%s archive at %s%s, content %s, hash %s, wrap_mode %s, via %s' % (
        c['what'], c['loc'], '(primary %s)' % c['primary'] if c['primary'] else '', c['content'], c['hash'], c['wm'], c['driver'])


def acq_job(c):
    return acq_case(c)


def part_acq(ck, classes):
    cases = acq_cases()
    n_unspec = 0
    hist = {}
    interesting = {'refuse_hash': 0, 'refuse_nodownload': 0, 'refuse_step': 0, 'success': 0}
    runs = 0
    unspec_obs = {}
    for (problems, obs), c in zip(pmap(acq_job, cases), cases):
        runs += 2
        e = obs['expect']
        hist[e] = hist.get(e, 0) + 1
        if e == 'unspecified':
            n_unspec += 1
            k = 'found=%s/%s' % tuple(r.get('found') for r in obs['runs'][:2]) if len(obs['runs']) >= 2 else 'n/a'
            unspec_obs['%s:%s' % (c['content'], k)] = unspec_obs.get('%s:%s' % (c['content'], k), 0) + 1
            problems = [p for p in problems if p[0].startswith(('C10:acq:harness', 'C10:acq:unhandled-exception', 'C10:acq:second-run-accepts',
                                                                'C10:acq:setup-aborted'))]
        elif e == 'success':
            interesting['success'] += 1
        elif c['kind'] == 'step':
            interesting['refuse_step'] += 1
        elif c['wm'] == 'nodownload' and c['loc'] in ('primary', 'fallback'):
            interesting['refuse_nodownload'] += 1
        else:
            interesting['refuse_hash'] += 1
        classes.add(('acq', e, c.get('what') or 'step', c.get('loc') or c.get('step')))
        seen = set()
        for key, text in problems:
            if key in seen:
                continue
            seen.add(key)
            if key == 'C10:acq:harness':
                ck.internal('acquisition harness: ' + text)
            ck.violation(key, describe(c) + ': ' + text, {'part': 'acq', 'case': c, 'observed': obs})
        if c['kind'] == 'fault' and c['content'] == 'flip' and c['hash'] == 'right' and c['loc'] == 'cache' and c['what'] == 'source' and c['wm'] == 'default' and c['driver'] == 'setup':
            ck.sample({'acquisition_case': c, 'expected': e, 'observed': obs})
    ck.part('acquisition', cases=len(cases), meson_runs=runs, skipped_unspecified=n_unspec, expected=hist, observed_in_unspecified=unspec_obs,
            **interesting)
    for k, v in interesting.items():
        ck.require(v > 5, 'acquisition part never exercised ' + k)
    return len(cases), n_unspec, runs


# =========================================================================================================
def replay(ck):
    d = json.load(open(ck.args.replay))
    part = d.get('part')
    print('replay of', d.get('key'), '-', d.get('what', '')[:300])
    if part in ('table', 'single'):
        cell = tuple(d['cell'])
        wm, ffb = d['wrap_mode'], d['force_fallback_for']
        out, _ = decide(*cell[:4], wm, ffb, *cell[4:])
        done, rc, unh, obs, tail = table_batch((wm, ffb, [(0, cell)]))
        o, src, sunh, stail = table_single(wm, ffb, cell, cold=bool(d.get('cold')))
        print('cell     :', cell_dict(wm, ffb, cell))
        print('expected :', out)
        print('observed : in a capsule %s ; stand-alone %s exit %d' % (obs.get(0), o, src))
        if ('sibling', 0) in obs:
            print('sibling  : the earlier lookup of the other name gave', obs[('sibling', 0)])
        if out[0] == 'unspecified':
            sys.exit(0)
        exp = expected_obs(out)
        bad = (not done) or obs.get(0) != exp or o != exp or ((src != 0) != (out[0] == 'error')) or unh or sunh
        sys.exit(1 if bad else 0)
    if part == 'names':
        c = d['cell']
        cell = (tuple(c[0]), c[1], c[2], c[3], c[4])
        wm, ffb = d['wrap_mode'], d['force_fallback_for']
        out = decide_names(cell[0], cell[1], cell[2], wm, ffb, cell[3], cell[4])
        done, rc, unh, obs, tail = names_batch((wm, ffb, [(0, cell)], d.get('where') == 'standalone'))
        print('cell     :', names_dict(wm, ffb, cell))
        print('expected :', out)
        print('observed :', obs.get(0), 'exit', rc, tail[-300:])
        if out[0] == 'unspecified':
            sys.exit(0)
        o = obs[0]
        bad = (not done) or unh or o[0] != expected_obs(out) or (out[0] in ('system', 'subproject', 'override') and any(x != o[0] for x in o[1:]))
        sys.exit(1 if bad else 0)
    if part == 'spell':
        sp, form, sysv, req = d['cell']
        done, unh, obs, tail = spell_batch((d['wrap_mode'], [(0, (sp, form, sysv, req))]))
        out, _ = decide(sysv, None, 'wrap' if form == 'wrap' else 'fallback', '2.5', d['wrap_mode'], 'none', req, None, downloaded=True)
        print('cell     :', d['cell'], d['wrap_mode'])
        print('expected :', out)
        print('observed :', obs.get(0), '' if done else tail[-300:])
        sys.exit(1 if not done or obs.get(0) != expected_obs(out) else 0)
    if part == 'seq':
        seq = [tuple(x) for x in d['seq']]
        done, unh, obs, tail = seq_batch((d['system'], d['provider'], d['spv'], [(0, seq)]))
        probs = judge_seq(d['system'], d['provider'], d['spv'], seq, obs[0]) if done else [('aborted', tail[-300:])]
        print('sequence :', seq)
        print('observed :', obs.get(0))
        print('problems :', probs)
        sys.exit(1 if probs else 0)
    if part == 'seqbatch':
        seqs = [tuple(tuple(x) for x in s) for s in d['seqs']]
        done, unh, obs, tail = seq_batch((d['system'], d['provider'], '2.5', list(enumerate(seqs))))
        print('batch done:', done, 'unhandled:', unh, tail[-600:])
        sys.exit(0 if done else 1)
    if part == 'acq':
        problems, obs = acq_case(d['case'])
        print('case     :', describe(d['case']))
        print('expected :', obs['expect'])
        print('observed :', json.dumps(obs['runs']))
        print('problems :', problems)
        if obs['expect'] == 'unspecified':
            problems = [p for p in problems if p[0].startswith(('C10:acq:unhandled-exception', 'C10:acq:second-run-accepts', 'C10:acq:setup-aborted'))]
        sys.exit(1 if problems else 0)
    if part == 'history':
        cell = tuple(d['cell'])
        (wm1, ffb1), (wm2, ffb2) = d['first'], d['second']
        done1, done2, unh, obs1, obs2, on_disk, tail = hist_batch((wm1, ffb1, wm2, ffb2, [(0, cell)]))
        out2, _ = decide(*cell[:4], wm2, ffb2, *cell[4:], downloaded=on_disk[0])
        print('cell     :', cell_dict(wm2, ffb2, cell), 'first configured with', wm1, ffb1)
        print('expected :', out2)
        print('observed : first', obs1.get(0), 'then', obs2.get(0), tail[-300:])
        sys.exit(1 if not (done1 and done2) or (out2[0] != 'unspecified' and obs2.get(0) != expected_obs(out2)) else 0)
    if part == 'ovr':
        bad = 0
        for rnd, pre, cons, o, done, unh, tail in ovr_batch(None):
            print(rnd, '|', pre, '|', cons, '|', o, '' if done else 'ABORTED ' + tail)
            bad += (not done) or o[0] != ('system', '1.0') or o[1] != o[0]
        sys.exit(1 if bad else 0)
    if part == 'shared':
        problems, obs = shared_case(d['case'])
        print('case     :', d['case'])
        print('observed :', json.dumps(obs['runs']))
        print('problems :', problems)
        sys.exit(1 if problems else 0)
    ck.internal('unknown replay file')


def main():
    ck = Check('C10', 'exploration')
    mp.preimport()
    if ck.args.replay:
        return replay(ck)
    classes = set()
    evals = 0
    skipped = 0
    runs = 0
    if ck.want('table'):
        t0 = time.time()
        n, compared, sk, setups = part_table(ck, classes)
        ck.part('table', wall_s=round(time.time() - t0, 1))
        evals += compared
        skipped += sk
        runs += setups
    if ck.want('names'):
        t0 = time.time()
        n, sk, setups = part_names(ck, classes)
        ck.part('names', wall_s=round(time.time() - t0, 1))
        evals += n
        skipped += sk
        runs += setups
    if ck.want('spell'):
        n, setups = part_spell(ck, classes)
        evals += n
        runs += setups
    if ck.want('history'):
        t0 = time.time()
        n, setups = part_hist(ck, classes)
        ck.part('history', wall_s=round(time.time() - t0, 1))
        evals += n
        runs += setups
    if ck.want('seq'):
        t0 = time.time()
        n, setups = part_seq(ck, classes)
        ck.part('sequences', wall_s=round(time.time() - t0, 1))
        evals += n
        runs += setups
    if ck.want('ovr'):
        n, r = part_ovr(ck, classes)
        evals += n
        runs += r
    if ck.want('acq'):
        t0 = time.time()
        n, sk, r = part_acq(ck, classes)
        ck.part('acquisition', wall_s=round(time.time() - t0, 1))
        evals += n - sk
        skipped += sk
        runs += r
    if ck.want('shared'):
        t0 = time.time()
        n, r = part_shared(ck, classes)
        ck.part('shared_archive_name', wall_s=round(time.time() - t0, 1))
        evals += n
        runs += r
    if os.environ.get('VERIF_C10_PARTS'):
        print(json.dumps(ck.parts, indent=1, sort_keys=True, default=repr), file=sys.stderr)
    ck.assume('the decision function and the acquisition expectations are my transcription of docs/yaml/functions/dependency.yaml, '
              'Subprojects.md and Wrap-dependency-system-manual.md (sentences quoted in checks/c10.py)')
    ck.assume('system dependencies are pkg-config files (pkg-config 1.8.1 on PATH) in a private PKG_CONFIG_LIBDIR; projects have no language, --backend=none')
    ck.assume('URLs are file:// URLs; time.sleep is a no-op in the meson child (download back-off), urllib.request.urlopen is wrapped by an observer')
    ck.assume('part (c) is fault enumeration over a fixed list of corruption classes and step failures, not a proof over all faults')
    ck.assume('unspecified corners (skipped, counted): ' + '; '.join('%s: %s' % kv for kv in sorted({**UNSPEC_REASONS, **NAMES_UNSPEC, **ACQ_UNSPEC}.items())))
    ck.finish(evaluations=evals, distinct_nontrivial=len(classes), skipped_unspecified=skipped, meson_runs=runs,
              rule='(a) every cell of system{absent,1.0,2.0} x constraint{none,>=1.5,>=3} x provider{none,fallback:,wrap [provide],subproject already configured {by subproject(), as the fallback of an earlier lookup of another name} '
                   'x {named by fallback:, by wrap [provide]},override_dependency} x subproject version%s x wrap_mode{default,nofallback,nodownload,forcefallback} x force_fallback_for{[],[dep],[subproject]} '
                   'x required x allow_fallback{unset,true,false}, one real dependency() per cell in its own capsule subproject, compared with the documented '
                   'decision function; a slice re-run as stand-alone projects (exit status; half of them in a cold process); the table again after '
                   'the build directory was first configured under another (wrap_mode, force_fallback_for) pair (quick: to and from the default pair; thorough: all 132 ordered pairs). '
                   "(a'') lookups with 2 (thorough: 3) names, every name absent / on the system in a low or high version / provided by a wrap (at most one) / overridden, x constraint{none,>=1.5} "
                   'x subproject version x required x allow_fallback x wrap_mode x force_fallback_for{[],[the provided name],[subproject]}, each followed by an optional lookup of every single name, which must give the same dependency. '
                   "(a3) 4 spellings of the name (lower case, capitals, punctuation) x {wrap [provide], fallback: [s, var], fallback: 's' with the variable from [provide]} x system x required x 3 wrap modes. "
                   '(b) every sequence <= 3 (see parts.sequences.max_len) of lookups of one name over constraint x required x allow_fallback x native, '
                   'extended only from prefixes that did not fail (a failing lookup ends its capsule). '
                   '(c) FAULT ENUMERATION: {source,patch} x {primary URL, fallback URL after missing/corrupt primary, package cache, packagefiles} x '
                   '{good, byte flipped, truncated, empty, different valid archive} x hash{right,wrong,absent where allowed} x wrap_mode{default,nodownload} '
                   'x driver{meson setup, meson subprojects download}, plus 7 step outcomes after a good fetch x 3 source locations; each followed by a '
                   'listing of subprojects/ + package cache and a second meson setup. (d) two wraps of one configuration naming the same archive file '
                   '(the file matches only the first wrap\'s hash) x {source,patch} x {cache,packagefiles,downloaded by the first} x order{b,ab,ba}. distinct_nontrivial = distinct (part, expected outcome, provider/'
                   'location) classes and distinct observed outcome vectors of lookup sequences' % ('{1.0,2.5}' if ck.thorough else '{2.5} (quick)'),
              exhaustive=True)


run_main(main)
