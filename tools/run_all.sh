#!/bin/bash
# tools/run_all.sh [quick|thorough] [ids...]  -- runs the registered checks one after another and prints one line each
tier="${1:-quick}"; shift || true
cd "$(dirname "$0")/.."
ids="$*"
[ -n "$ids" ] || ids=$(python3 -c "import json;print(' '.join(c['property_id'] for c in json.load(open('MANIFEST.json'))['checks']))")
tmp=$(mktemp /dev/shm/run_all.XXXXXX)
for id in $ids; do
  start=$(date +%s)
  ./check "$id" --tier "$tier" > "$tmp" 2>&1; rc=$?
  end=$(date +%s)
  echo "$id rc=$rc wall=$((end-start))s known=$(grep -c '^KNOWN-FINDING' "$tmp") viol=$(grep -c '^VIOLATION' "$tmp") :: $(tail -1 "$tmp" | cut -c1-160)"
  if [ "$rc" != 0 ]; then grep -A1 '^VIOLATION\|^INTERNAL' "$tmp" | cut -c1-400 | head -12 | sed 's/^/    /'; fi
done
rm -f "$tmp"
