# C13 - compiler argument lists honour the append/override/dedup contract.
#
# Explicit-state exploration of the REAL lazy structure (CLikeCompilerArgs bound to the gcc object that
# mesonbuild's own detection returns, the base CompilerArgs class and every other argument-list class of the tree -
# DCompilerArgs) against an EAGER reference list written from the property statement.
#
# The argument-list CLASS is a dimension of every part: the property quantifies over every way a command line is
# assembled, and what a given argument IS (goes in front or not; override-type, once-only or not de-dupable) is
# declared per class in its tables (prepend_prefixes, dedup2_*, dedup1_*).  Each class is driven with its own
# alphabet, chosen so that every combination (prepended yes/no) x (not de-dupable / override / once-only) that the
# class's tables can produce is represented (part classes: computed from the tables with probe arguments and
# required).  The eager algorithm is the same for every class; only the kind table it is given differs:
#   clike, base : the kinds the property statement names (-I/-L front-most wins; -D/-U/-isystem last wins; -lfoo,
#                 library files once) - cross-checked against the class tables (a contradiction is a violation);
#   d           : read from the tables of the class with table_kind() below (the tables are the documented contract
#                 of a class; table_kind is written from the comments on the attributes, it does not call the
#                 implementation's classifier): -I front override, -L<anything> front and NOT de-dupable (linker
#                 pass-through: -L-lfoo twice stays twice), -L<library file> front once-only, library files once.
#
#   part classes the class dimension itself: the argument-list classes defined anywhere under mesonbuild/ (source scan) must
#                be exactly the driven ones; for each class the kinds its tables can produce (probe arguments built from
#                every prefix/suffix/standalone entry of its tables) must all occur in its alphabet; the kinds the
#                property statement names must agree with the tables (else violation tables-contradict-statement).
#   part bfs     breadth-first search over operation sequences, de-duplicated on the product state
#                  (real _container, pre, post, needs_override_check of the live object and of every frozen
#                   original left behind by copy())  x  (reference list, reference lists of the originals).
#                Every transition replays the representative history of its source state on a FRESH real object
#                and then applies one more operation.  All operations are applied to every state of depth < D;
#                the three observers (list(), to_native(copy=True), to_native()) are applied to every state of
#                depth <= D, so every reachable state is read through each observer while its queues are still
#                in the condition the history left them in.
#   part flat    the same operations as plain sequences without any merging (every sequence executed from
#                scratch, compared at every read and at the end); validates that merging on the key loses nothing
#                (every final product state of a flat run must be a state the search knows).
#   part pair    histories over TWO objects: the operand of `+=` / extend() / extend_direct() / `+` / the constructor is
#                itself an argument-list object (register b) that was driven through every history <= Nb of
#                {+= [x] for 5 arguments, list(), copy()}; the left side (register a) through every history <= Na;
#                10 binary operations (a += b, a.extend(b), c = a + b, c = CompilerArgs(compiler, b), c = list + b,
#                c = a + list, a.extend_direct(b), a += a.copy(), a += a, c = a + a).  The eager reference treats the
#                operand as the list it denotes.  After the binary operation every object is read: the result must be
#                the eager sum, the operands must still denote what they denoted.  part pair_then_one_more appends
#                one further operation (any unary operation on a, b or c, or a second binary operation) before the
#                reads: later changes to one object must not show in another.
#   part seqread the other content reads of a MutableSequence - reversed(args) (used by the ninja backend), args[i],
#                args[-i], args[:] - after every operation sequence <= 2.
#   part native  to_native() on every argument list <= N over a linker/-isystem alphabet (group markers, default
#                include directory stripping).
#   part libfile "a library file" is a once-only argument whatever its file name looks like: the NAME SHAPE of the library
#                file is a dimension - (where it lies: bare name, /, absolute directory, relative directory, ../, backslash
#                separator) x (what it is called: .a, .so, name.so without lib prefix, lib*.so.N, .so.N.N, .so.N.N.N,
#                multi-digit components, dots inside the name, .dylib, .lib, .dll).  For every class and every shape L, all
#                sequences <= D over the operations that can add L (append, +=, extend, append_direct, extend_direct,
#                insert(0,)), `+=` of a plain and of a front argument, the two-element batches that hold L (with itself,
#                with the plain, with the front argument, both orders; through += and extend_direct), list() and copy();
#                every read compared with the eager reference and the history invariants.  For D the linker pass-through
#                form -L<L> takes part as a second argument (kind from the tables).  Only list() observes here: which
#                library shapes get --start-group/--end-group in to_native is not stated by the property (native part
#                covers the shapes of its alphabet).
#   part tail    the override kinds are named by the OPTION (-I/-L front-most wins, -D/-U/-isystem last wins); the VALUE of the option
#                is a dimension: for every class that declares override options and every library-file ending (.a .so .lib .dll
#                .dylib, path/libq.so.1) a variant alphabet in which the value of every override option ends that way (-Ia.a, -La.so,
#                -Dx=.so with -Ux as the contradicting setting, -isystemq.a), next to the unchanged once-only and plain arguments.
#                An argument that starts with an override option is that option's argument, not "a library file": kinds as in
#                the plain alphabet (C-like: from the statement; D: from its tables).  Breadth-first search to depth 3 over
#                {observers, copy, (+=, append_direct, insert(0,)) x every argument, += [x, y] for the override-type x, y}, all
#                observers on every state.  to_native: such an option is not a library, so it does not count for group markers.
#   part eqread  `a == b` is a read of BOTH objects: for every pair of histories <= 2 the comparison must say what the
#                comparison of the two eager lists says (in both directions, and against the plain list).
#
# Unspecified corners (never compared; counted where they occur):
#   * len() before a flush (may over-count pending duplicates)          -> counter len_differs_before_flush
#     (a number, not arguments; every read that yields ARGUMENTS - iteration in either direction, indexing, slices -
#      is compared, so reversed() failing because of that over-count IS reported)
#   * the content of an object after to_native() without copy (group markers are written into it)
#   * a bare `-isystem` that is not followed by a directory operand      -> skipped_unspecified (native part)
#   * a prepend prefix used as a bare option whose operand is the next argument (`-I dir`): the tables say "goes in
#     front" and "defined by what follows it" at the same time -> in no alphabet
#   * an argument that matches an override table and a once-only table of its class at once in a way the statement does
#     not resolve (an override SUFFIX/standalone entry against a once-only entry, an override option against a once-only
#     PREFIX): the tables do not say which wins -> in no alphabet (table_kind returns None, the probe counts it as
#     ambiguous).  NOT open: override option + library-file ending of its value (`-Ifoo.a`, `-DEXT=.so`) - part tail.
#   * a versioned shared-library name without the lib prefix (`z.so.1`) or with more than three numeric components
#     (`libz.so.1.2.3.4`): the contract names the form path/to/libfoo.so.0.1.0 only -> in no alphabet
#   (absolute paths given to append_direct/extend_direct are covered by one absolute library path, alone and in
#    two-element batches with every other argument)
#
# Checked independently of the reference list (from the operation history only): no argument lost or invented,
# non-dedupable arguments keep relative order and multiplicity (multiplicity = number of times added, whether the
# argument is appended or - D's -L pass-through - prepended; order = every batch's prepended ones in front, the others
# behind), the later-added of duplicated settings wins.
#
# One narrow defect class has its own key whatever observer shows it: once-only-argument-repeated-inside-one-batch-is-kept
# (the only difference is extra copies of a once-only argument whose first addition held it several times in one batch).
import argparse, collections, json, operator, os, re, sys
from verif.core import Check, pmap, run_main, scratch_root, NCPU, REPO

from mesonbuild.arglist import CompilerArgs
from mesonbuild.compilers.mixins.clike import CLikeCompilerArgs
from mesonbuild.compilers.d import DCompilerArgs

# ------------------------------------------------------------------------------------------------------------
# Alphabets and kinds.
#   front    : the argument's batch position: it goes in front of everything added earlier (-I/-L)
#   override : of identical ones only the highest-precedence occurrence survives
#   once     : a repeat of an argument already present is dropped
Kind = collections.namedtuple('Kind', 'front override once')
FRONT_OVR = Kind(True, True, False)      # -I -L (C-like), -I (D) : front-most wins
BACK_OVR = Kind(False, True, False)      # -D -U -isystem         : last wins
ONCE = Kind(False, False, True)          # -lfoo, library file
PLAIN = Kind(False, False, False)        # anything else: never de-duplicated, never reordered
FRONT_PLAIN = Kind(True, False, False)   # D: -L-lfoo, -L-L/dir   : goes in front, never de-duplicated
FRONT_ONCE = Kind(True, False, True)     # D: -L/x/libfoo.a       : goes in front, a repeat is dropped
KIND_NAMES = {FRONT_OVR: 'front', BACK_OVR: 'back', ONCE: 'once', PLAIN: 'plain', FRONT_PLAIN: 'frontplain', FRONT_ONCE: 'frontonce'}

CLASSES = ['clike', 'base', 'd']
CLS = {'clike': CLikeCompilerArgs, 'base': CompilerArgs, 'd': DCompilerArgs}

ALPHA = ['-Ia', '-Ib', '-La', '-Dx', '-Ux', '-isystemq', '-lfoo', 'libz.a', '-Wall']
# D: two front override, two front not-de-dupable (linker pass-through), one front once-only (a library file handed to
# the linker), one once-only at the back, one plain
ALPHA_D = ['-Ia', '-Ib', '-L-lfoo', '-L-lbar', '-L/x/libfoo.a', 'libz.a', '-O']
ALPHAS = {'clike': ALPHA, 'base': ALPHA, 'd': ALPHA_D}
# an absolute path to a library: only ever given to append_direct/extend_direct, whose contract is "no reordering or
# de-dup except for absolute paths, which can always be de-duped safely" = the ordinary append for that one element
ABS = '/q/libq.a'
# an option whose operand is the NEXT argument ("-isystem /a", "-D FOO"): the bare option is defined by what follows it, so it is
# never de-duplicated or moved (its operand neither): plain arguments, given as two-element batches
BARE = [('-isystem', '/a'), ('-isystem', '/b'), ('-D', 'FOO'), ('-D', 'BAR')]
BARE_ATOMS = ['-isystem', '/a', '/b', '-D', 'FOO', 'BAR']
# The kinds the property statement names (NOT read from the implementation's prefix tables).
STATED = {
    'clike': {'-Ia': FRONT_OVR, '-Ib': FRONT_OVR, '-La': FRONT_OVR, '-Dx': BACK_OVR, '-Ux': BACK_OVR,
              '-isystemq': BACK_OVR, '-lfoo': ONCE, 'libz.a': ONCE, '-Wall': PLAIN},
    # The base class declares no prepend/override prefixes at all; only library *files* are once-only.
    'base': {a: (ONCE if a == 'libz.a' else PLAIN) for a in ALPHA},
}
for _k in STATED.values():
    _k[ABS] = ONCE
    for _a in BARE_ATOMS:
        _k[_a] = PLAIN


# Library-file name shapes (part libfile).  "a library file" in the property statement; what counts as one is written down
# in the comments of mesonbuild/arglist.py ("Match a .so of the form path/to/libfoo.so.0.1.0. Only UNIX shared libraries
# require this. Others have a fixed extension.") and docs (library file extensions .a .so .dylib .dll .lib).
LIB_DIRS = collections.OrderedDict([('bare', ''), ('abs', '/usr/lib/'), ('rel', 'sub/'), ('root', '/'), ('parent', '../x/'),
                                    ('backslash', 'sub\\')])
LIB_NAMES = collections.OrderedDict([('a', 'libz.a'), ('so', 'libz.so'), ('so.N', 'libz.so.1'), ('so.N.N', 'libz.so.1.2'),
                                     ('so.N.N.N', 'libz.so.1.2.3'), ('so.NN.NN.N', 'libz.so.10.21.3'), ('dotted.so.N', 'libz-1.0.so.5'),
                                     ('nolib.so', 'z.so'), ('dylib', 'libz.dylib'), ('lib', 'z.lib'), ('dll', 'z.dll')])
LIB_SHAPES = [(d + ':' + n, LIB_DIRS[d] + LIB_NAMES[n]) for n in LIB_NAMES for d in LIB_DIRS]
LIB_PLAIN = {'clike': '-Wall', 'base': '-Wall', 'd': '-O'}
LIB_FRONT = '-Ia'


def stated_library_file(arg):
    """Is the argument a library file (from the statement/the documented name forms, NOT from the class tables)?"""
    if arg.startswith('-'):
        return False
    base = arg.replace('\\', '/').rsplit('/', 1)[-1]
    if base.endswith(('.a', '.so', '.dylib', '.dll', '.lib')):
        return True
    m = base.rsplit('.so.', 1)
    if len(m) == 2 and m[0].startswith('lib') and len(m[0]) > 3:
        comps = m[1].split('.')
        return 1 <= len(comps) <= 3 and all(c.isascii() and c.isdigit() for c in comps)
    return False


def table_kind(cls, arg):
    """The kind the TABLES of an argument-list class give an argument, read from the attribute comments of
    mesonbuild/arglist.py: prepend_prefixes = "arg prefixes that override by prepending instead of appending";
    dedup2_{prefixes,suffixes,args} = "must be de-duped by returning 2" (Dedup.OVERRIDDEN); dedup1_{prefixes,suffixes,
    args,regex} = "must be de-duped by returning 1" (Dedup.UNIQUE); "argument prefixes that are actually not used as a
    prefix must never be deduplicated because they are defined by what comes after them".
    None = the tables leave it open (both de-dup tables match, or a prepend prefix used as a bare option).
    One overlap is NOT open: an argument that begins with an override OPTION of the class (a dedup2 prefix: -I, -D ...)
    and whose only once-only match is the library-file TAIL of its value (`-Ivendor.a`, `-DEXT=.so`).  The property
    statement names the override kinds by the option and names as once-only "a library file"; an argument that starts
    with the option is that option's argument, not a library file -> override-type."""
    front = bool(cls.prepend_prefixes) and arg.startswith(tuple(cls.prepend_prefixes))
    if arg in cls.prepend_prefixes:
        return None
    if arg in cls.dedup1_prefixes or arg in cls.dedup2_prefixes:
        return Kind(front, False, False)
    ovr_option = any(arg.startswith(x) for x in cls.dedup2_prefixes)
    ovr = arg in cls.dedup2_args or ovr_option or any(arg.endswith(x) for x in cls.dedup2_suffixes)
    once_named = arg in cls.dedup1_args or any(arg.startswith(x) for x in cls.dedup1_prefixes)
    once_tail = any(arg.endswith(x) for x in cls.dedup1_suffixes) or bool(cls.dedup1_regex.search(arg))
    if ovr and (once_named or once_tail):
        if ovr_option and not once_named:
            return Kind(front, True, False)
        return None
    return Kind(front, ovr, once_named or once_tail)


def table_probe(cls):
    """Every (front, de-dup class) combination the tables of a class can produce, found with probe arguments built
    from the tables themselves: every prefix / standalone argument / suffix of any table, alone and combined."""
    heads = sorted(set(cls.prepend_prefixes) | set(cls.dedup1_prefixes) | set(cls.dedup2_prefixes)) + ['', '-q']
    tails = sorted(set(cls.dedup1_suffixes) | set(cls.dedup2_suffixes)) + ['', '.so.1']
    probes = [h + 'libq' + t for h in heads for t in tails] + sorted(set(cls.dedup1_args) | set(cls.dedup2_args))
    combos, ambiguous = {}, 0
    for a in probes:
        k = table_kind(cls, a)
        if k is None:
            ambiguous += 1
        else:
            combos.setdefault(k, a)
    return combos, len(probes), ambiguous


KINDS = {}


def build_kinds():
    """Kind table per class (the input of the eager reference). Returns the contradictions between the property
    statement and the class tables (none expected)."""
    bad = []
    for c in CLASSES:
        KINDS[c] = {}
        for a in ALPHAS[c] + [ABS] + BARE_ATOMS:
            tk = table_kind(CLS[c], a)
            st = STATED.get(c, {}).get(a)
            if st is not None and tk != st:
                bad.append((c, a, st, tk))
            KINDS[c][a] = st if st is not None else tk
    return bad


build_kinds()
# settings that contradict each other: the later-added one must take effect (come last)
SAME_SETTING = [('-Dx', '-Ux')]

# Value tails (part tail).  The override kinds are named by the OPTION (-I/-L: front-most wins; -D/-U/-isystem: last wins); what
# the option's VALUE looks like is a dimension of its own.  The values that matter are those that end like a library file
# (the once-only kind is recognised by the end of the argument): one variant alphabet per library-file ending, in which the value
# of every override option of the class ends that way, next to the unchanged once-only and plain arguments.
LIB_TAILS = collections.OrderedDict([('a', '.a'), ('so', '.so'), ('lib', '.lib'), ('dll', '.dll'), ('dylib', '.dylib'),
                                     ('path.so.N', '/libq.so.1')])
# the override options the property statement names, longest first
STATED_OPTIONS = [('-isystem', BACK_OVR), ('-I', FRONT_OVR), ('-L', FRONT_OVR), ('-D', BACK_OVR), ('-U', BACK_OVR)]


def tail_alphabet(clsname, t):
    if clsname == 'clike':
        # `-Ux` contradicts `-Dx=<value>` (a macro name has no value tail of its own)
        return ['-Ia' + t, '-Ib' + t, '-La' + t, '-Dx=' + t, '-Ux', '-isystemq' + t, '-lfoo', 'libz.a', '-Wall']
    if clsname == 'd':
        # D declares one override option (-I); its -L forms are linker pass-through (kinds from the tables, as in ALPHA_D)
        return ['-Ia' + t, '-Ib' + t, '-L-lfoo', '-L-lbar', '-L/x/libfoo.a', 'libz.a', '-O']
    raise AssertionError(clsname)


def tail_classes():
    """The classes that declare override options at all."""
    return [c for c in CLASSES if CLS[c].dedup2_prefixes]


def tail_register():
    """Enter the kinds of the tail alphabets into the kind tables: C-like from the property statement (by option), D from its
    tables.  Returns the contradictions between statement and tables, and the arguments the tables leave open."""
    bad, unspecified = [], []
    for c in tail_classes():
        for label, t in LIB_TAILS.items():
            for a in tail_alphabet(c, t):
                tk = table_kind(CLS[c], a)
                st = None
                if c == 'clike':
                    st = STATED[c].get(a) or next((k for o, k in STATED_OPTIONS if a.startswith(o) and a != o), None)
                if st is not None and tk != st:
                    bad.append((c, a, st, tk, label))
                if st is None and tk is None:
                    unspecified.append((c, a))
                KINDS[c][a] = st if st is not None else tk
            if c == 'clike' and ('-Dx=' + t, '-Ux') not in SAME_SETTING:
                SAME_SETTING.append(('-Dx=' + t, '-Ux'))
    return bad, unspecified


tail_register()
ENC = {a: chr(97 + i) for i, a in enumerate(dict.fromkeys(ALPHA + ALPHA_D + [ABS] + BARE_ATOMS))}
DEC = {v: k for k, v in ENC.items()}


def nondedup(k):
    return k is not None and not k.override and not k.once



def enc(seq):
    return ''.join([ENC.get(a) or '<%s>' % (a,) for a in seq])


def dec(s):
    return [DEC[c] for c in s]


# ------------------------------------------------------------------------------------------------------------
# Operations.  (name, args).  Simplest first.
def build_ops(alpha):
    ops = [('read', ()), ('tn_copy', ()), ('copy', ())]
    for name in ('append', 'iadd', 'extend', 'append_direct', 'extend_direct', 'insert0'):
        for a in alpha:
            ops.append((name, (a,)))
    for a in alpha:
        for b in alpha:
            ops.append(('iadd', (a, b)))
    for pair in BARE:
        ops.append(('iadd', pair))
        ops.append(('extend', pair))
    # direct insertion of an absolute path, alone and inside a batch on either side of every other argument
    ops.append(('append_direct', (ABS,)))
    ops.append(('extend_direct', (ABS, ABS)))
    for a in alpha:
        ops.append(('extend_direct', (ABS, a)))
        ops.append(('extend_direct', (a, ABS)))
    return ops


def build_tail_ops(alpha, kinds):
    """Operations of the tail part: the observers, copy, every argument alone through the three routes that classify
    differently (+=, direct insertion, insert(0,)), and the two-element batches of the override-type arguments."""
    ops = [('read', ()), ('tn_copy', ()), ('copy', ())]
    for name in ('iadd', 'append_direct', 'insert0'):
        for a in alpha:
            ops.append((name, (a,)))
    ovr = [a for a in alpha if kinds[a].override]
    for a in ovr:
        for b in ovr:
            ops.append(('iadd', (a, b)))
    return ops


OPS = []                # the operation list of the class being driven; set before every pmap (workers are forked per call)
OPSETS = {}             # class -> its full operation list; filled by main()
TERMINAL = ('to_native', ())
OBS_NAMES = ('read', 'tn_copy', 'to_native')
CC = None               # the detected compiler object
DEFDIRS = frozenset()   # realpath of the compiler's default include directories


def opname(op):
    n, a = op
    x = a[0] if a else None
    if n == 'iadd':
        return '+= %s' % list(a)
    if n in ('extend', 'extend_direct'):
        return '%s(%s)' % (n, list(a))
    if n in ('append', 'append_direct'):
        return '%s(%r)' % (n, x)
    if n == 'insert0':
        return 'insert(0, %r)' % (x,)
    return {'copy': 'copy() -> continue on the copy', 'read': 'list(args)', 'tn_copy': 'to_native(copy=True)',
            'to_native': 'to_native()'}[n]


# ------------------------------------------------------------------------------------------------------------
# Real side
def fresh(clsname, init=None):
    if clsname == 'clike':
        return CC.compiler_args(init)
    # base and D: bound to the same compiler object (it only matters to to_native: base-class conversion = the
    # compiler's unix_args_to_native, the identity for gcc)
    return CLS[clsname](CC, init)


def step_real(obj, origs, op):
    """Apply one operation to the real object. Returns (object to continue on, observation or None)."""
    n, a = op
    if n == 'iadd':
        obj = operator.iadd(obj, list(a))
    elif n == 'append':
        obj.append(a[0])
    elif n == 'extend':
        obj.extend(list(a))
    elif n == 'append_direct':
        obj.append_direct(a[0])
    elif n == 'extend_direct':
        obj.extend_direct(list(a))
    elif n == 'insert0':
        obj.insert(0, a[0])
    elif n == 'copy':
        new = obj.copy()
        origs.append(obj)
        obj = new
    elif n == 'read':
        return obj, list(obj)
    elif n == 'tn_copy':
        return obj, list(obj.to_native(copy=True))
    elif n == 'to_native':
        return obj, list(obj.to_native())
    else:
        raise AssertionError(n)
    return obj, None


def raw(obj):
    """The complete mutable state of a real object, without triggering a flush."""
    return '%s|%s|%s|%d' % (enc(obj._container), enc(obj.pre), enc(obj.post), 1 if obj.needs_override_check else 0)


# ------------------------------------------------------------------------------------------------------------
# Reference side (eager), from the property statement.
def ref_batch(lst, batch, kinds):
    """`+=`/append/extend of one batch: -I/-L of the batch, in batch order, in front of everything earlier; the
    rest appended in order; a once-only argument that is already there is dropped; then of every override-type
    argument of the batch only the highest-precedence identical occurrence is kept."""
    front, back = [], []
    for a in batch:
        k = kinds[a]
        if k.once and (a in lst or a in front or a in back):
            continue
        (front if k.front else back).append(a)
    out = front + list(lst) + back
    for a in dict.fromkeys(batch):
        k = kinds[a]
        if not k.override:
            continue
        if k.front:
            first = out.index(a)
            out = [x for i, x in enumerate(out) if x != a or i == first]
        else:
            last = len(out) - 1 - out[::-1].index(a)
            out = [x for i, x in enumerate(out) if x != a or i == last]
    return out


def ref_step(model, op, kinds):
    """Returns the new reference list."""
    n, a = op
    if n in ('iadd', 'append', 'extend'):
        return ref_batch(model, a, kinds)
    if n in ('append_direct', 'extend_direct'):
        out = list(model)
        for x in a:                     # element by element: an absolute path is an ordinary append, anything else goes in as is
            out = ref_batch(out, (x,), kinds) if os.path.isabs(x) else out + [x]
        return out
    if n == 'insert0':
        return [a[0]] + model
    return model                        # copy and the observers change nothing


LIBS = frozenset(['-lfoo', 'libz.a', '/q/libq.so.1', '-Wl,-lbar', ABS])


def ref_is_default_dir(d):
    return os.path.realpath(d) in DEFDIRS


NARROW_GROUP = 'to_native-group-markers-count-option-whose-value-has-library-suffix-as-library'


def option_with_library_tail(a):
    """An option (not -l.../-Wl,...) whose value ends like a library file."""
    return a.startswith('-') and not a.startswith(('-l', '-Wl,')) and stated_library_file(a.lstrip('-'))


def ref_native(lst, clsname, tails_as_libs=False):
    """to_native for a GNU-like linker: the list minus default -isystem directories, with one
    --start-group/--end-group pair around first..last library when there are at least two.
    tails_as_libs: NOT the expectation - the list one gets when every option whose value ends like a library file is
    counted as a library too; only used to give that one defect class its own key."""
    if clsname != 'clike':
        return list(lst)
    out = []
    i = 0
    while i < len(lst):
        a = lst[i]
        if a == '-isystem' and i + 1 < len(lst) and ref_is_default_dir(lst[i + 1]):
            i += 2
            continue
        if a.startswith('-isystem') and a != '-isystem' and ref_is_default_dir(a[len('-isystem'):]):
            i += 1
            continue
        out.append(a)
        i += 1
    libs = [i for i, a in enumerate(out) if a in LIBS or (tails_as_libs and option_with_library_tail(a))]
    if len(libs) >= 2:
        out = out[:libs[0]] + ['-Wl,--start-group'] + out[libs[0]:libs[-1] + 1] + ['-Wl,--end-group'] + out[libs[-1] + 1:]
    return out


# ------------------------------------------------------------------------------------------------------------
# Invariants derived from the history alone (independent of ref_batch).
def history_facts(ops, kinds):
    added = collections.Counter()
    plain_seq = []         # the non-dedupable arguments: every batch's prepended ones in front, the others behind, in order
    last_setting = {}      # setting group -> (arg, was_front_insert)
    last_front = None      # first prepended (not once-only) argument of the most recent `+=` batch / insert(0) that held one
    for n, a in ops:
        if n in ('iadd', 'append', 'extend', 'append_direct', 'extend_direct'):
            added.update(a)
            if n in ('iadd', 'append', 'extend'):
                plain_seq = ([x for x in a if nondedup(kinds[x]) and kinds[x].front] + plain_seq
                             + [x for x in a if nondedup(kinds[x]) and not kinds[x].front])
            else:
                for x in a:         # direct: stays where it is put (an absolute path is an ordinary append)
                    if nondedup(kinds[x]):
                        if os.path.isabs(x) and kinds[x].front:
                            plain_seq.insert(0, x)
                        else:
                            plain_seq.append(x)
            for x in a:
                for g in SAME_SETTING:
                    if x in g and kinds[x].override:
                        last_setting[g] = (x, False)
            if n in ('iadd', 'append', 'extend'):
                fr = [x for x in a if kinds[x].front and not kinds[x].once]
                if fr:
                    last_front = fr[0]
        elif n == 'insert0':
            x = a[0]
            added[x] += 1
            if nondedup(kinds[x]):
                plain_seq.insert(0, x)
            for g in SAME_SETTING:
                if x in g and kinds[x].override:
                    last_setting[g] = (x, True)
            if kinds[x].front and not kinds[x].once:
                last_front = x
    return added, plain_seq, last_setting, last_front


def check_invariants(ops, observed, kinds):
    """Returns list of (class, text)."""
    added, plain_seq, last_setting, last_front = history_facts(ops, kinds)
    bad = []
    got = collections.Counter(observed)
    for a in got:
        if a not in added:
            bad.append(('invented', 'argument %r was never added' % (a,)))
        elif got[a] > added[a]:
            bad.append(('invented', 'argument %r occurs %d times, added %d times' % (a, got[a], added[a])))
    for a in added:
        if a not in got:
            bad.append(('lost', 'argument %r was added but is absent' % (a,)))
    obs_plain = [a for a in observed if nondedup(kinds.get(a))]
    if collections.Counter(obs_plain) != collections.Counter(plain_seq):
        bad.append(('plain-multiplicity', 'non-dedupable arguments are %r, history says %r' % (obs_plain, plain_seq)))
    elif obs_plain != plain_seq:
        bad.append(('plain-order', 'non-dedupable arguments are %r, history says %r' % (obs_plain, plain_seq)))
    for g, (x, front_ins) in last_setting.items():
        if front_ins:
            continue
        ing = [a for a in observed if a in g]
        if ing and ing[-1] != x:
            bad.append(('later-wins', 'last added of %r is %r but %r comes last' % (g, x, ing[-1])))
    if last_front is not None:
        fr = [a for a in observed if kinds.get(a) is not None and kinds[a].front and not kinds[a].once]
        if fr and fr[0] != last_front:
            bad.append(('later-wins-front', 'most recent -I/-L batch starts with %r but %r is searched first' % (last_front, fr[0])))
    return bad


# ------------------------------------------------------------------------------------------------------------
def diff_class(expected, observed, kinds):
    """Narrow classifier of a list disagreement."""
    e, o = collections.Counter(expected), collections.Counter(observed)
    if e != o:
        miss = sorted((e - o).keys())
        extra = sorted((o - e).keys())
        tag = []
        if miss:
            tag.append('missing-' + '+'.join(sorted({kind_name(kinds, a) for a in miss})))
        if extra:
            tag.append('extra-' + '+'.join(sorted({kind_name(kinds, a) for a in extra})))
        return '-'.join(tag)
    moved = sorted({kind_name(kinds, a) for a, b in zip(expected, observed) if a != b for a in (a, b)})
    return 'order-' + '+'.join(moved)


def batch_repeat_tag(ops, expected, observed, kinds):
    """Narrows a disagreement: the ONLY difference is extra copies of once-only arguments whose first addition held
    them several times in ONE batch (nothing missing, every other argument in its place, and not more extra copies
    than that batch had repeats)."""
    extra = collections.Counter(observed) - collections.Counter(expected)
    if not extra or collections.Counter(expected) - collections.Counter(observed):
        return ''
    for x, nx in extra.items():
        if kinds.get(x) is None or not kinds[x].once:
            return ''
        first = next((o for o in ops if o[0] not in OBS_NAMES and x in o[1]), None)
        if first is None or first[0] not in ('iadd', 'extend') or first[1].count(x) <= nx:
            return ''
    if [x for x in observed if x not in extra] != [x for x in expected if x not in extra]:
        return ''
    return 'once-only-argument-repeated-inside-one-batch-is-kept:' + '+'.join(sorted({kind_name(kinds, x) for x in extra}))


def vkey(clsname, where, ops, expected, observed, kinds):
    """Key of a list disagreement: one key for the narrow defect class above wherever it is observed, otherwise
    (place of observation, classifier of the difference)."""
    tag = batch_repeat_tag(ops, expected, observed, kinds)
    if tag:
        return 'C13:%s:%s' % (clsname, tag)
    return 'C13:%s:%s:%s' % (clsname, where, diff_class(expected, observed, kinds))


def kind_name(kinds, a):
    k = kinds.get(a)
    if k is None:
        return 'marker' if a.startswith('-Wl,--') else 'foreign'
    return KIND_NAMES[k]


class Acc:
    """Per-worker accumulator: counters and a bounded list of violations."""
    def __init__(self):
        self.c = collections.Counter()
        self.v = []
        self.vn = collections.Counter()

    def viol(self, key, what, replay):
        self.vn[key] += 1
        if self.vn[key] <= 2:
            self.v.append((key, what, replay))


class ShapeAcc(Acc):
    """Accumulator that marks every key with the value class (library-file shape, value tail) of the case."""
    suffix = ''

    def viol(self, key, what, replay):
        Acc.viol(self, key if NARROW_GROUP in key else key + self.suffix, what, replay)


def run_case(clsname, ops, acc, compare_prefix, key_idx=None):
    """Execute ops (a list of operations, the last one possibly an observer) on a fresh real object next to the
    reference. If compare_prefix, every observer inside the sequence is compared; the last step always is.
    Returns (product-state key after the last op, reference list, reference lists of originals, ok)."""
    kinds = KINDS[clsname]
    obj = fresh(clsname)
    origs, orig_models = [], []
    model = []
    ok = True
    last = len(ops) - 1
    if key_idx is None:
        key_idx = last
    key = None
    for idx, op in enumerate(ops):
        is_last = idx == last
        n = op[0]
        check = is_last or compare_prefix
        if check and n in OBS_NAMES:
            pend = bool(obj.pre) or bool(obj.post)
            acc.c['observer_executions'] += 1
            if pend:
                acc.c['observed_with_pending_queue'] += 1
                acc.c[n + '_with_pending_queue'] += 1
                if obj.needs_override_check:
                    acc.c['observed_with_pending_override_check'] += 1
                    # the override merge must leave repeated non-dedupable arguments alone, wherever they wait
                    seq = [x for x in obj.pre if nondedup(kinds.get(x))]
                    if seq:
                        rest = [x for x in obj._container if nondedup(kinds.get(x))]
                        if len(set(seq)) < len(seq) or not set(seq).isdisjoint(rest):
                            acc.c['override_merge_with_repeated_non_dedupable_in_front_queue'] += 1
                    seq = [x for x in obj.post if nondedup(kinds.get(x))]
                    if seq:
                        rest = [x for x in obj._container if nondedup(kinds.get(x))]
                        if len(set(seq)) < len(seq) or not set(seq).isdisjoint(rest):
                            acc.c['override_merge_with_repeated_non_dedupable_in_back_queue'] += 1
            if len(obj) != len(model):
                acc.c['len_differs_before_flush(unspecified,not_compared)'] += 1
        elif is_last and n == 'copy' and (obj.pre or obj.post):
            acc.c['copy_with_pending_queue'] += 1
        elif is_last and n in ('insert0', 'append_direct', 'extend_direct') and (obj.pre or obj.post):
            acc.c['direct_insertion_with_pending_queue'] += 1
        try:
            obj, obs = step_real(obj, origs, op)
        except Exception as e:  # the real code must not fail on any of these operations
            acc.viol('C13:%s:exception:%s' % (clsname, type(e).__name__), '%s raised %r' % (opname(op), e),
                     {'cls': clsname, 'ops': [list(map(list_or, o)) for o in ops[:idx + 1]]})
            return None, model, orig_models, False
        if n == 'copy':
            orig_models.append(list(model))
        model = ref_step(model, op, kinds)
        if idx == key_idx:
            key = raw(obj) + '#' + enc(model) + ''.join('#%s=%s' % (raw(o), enc(m)) for o, m in zip(origs, orig_models))
        if not check or n not in OBS_NAMES:
            continue
        rep = {'cls': clsname, 'ops': [list(map(list_or, o)) for o in ops[:idx + 1]]}
        if n == 'read':
            exp = model
        else:
            exp = ref_native(model, clsname)
            if len(exp) > len(model):
                acc.c['native_with_group'] += 1
        if obs != exp:
            ok = False
            narrow = n != 'read' and any(option_with_library_tail(a) for a in model) and obs == ref_native(model, clsname, True)
            acc.viol('C13:%s:%s' % (clsname, NARROW_GROUP) if narrow else vkey(clsname, n, ops[:idx + 1], exp, obs, kinds),
                     'after %s: expected %r, observed %r' % ('; '.join(opname(o) for o in ops[:idx + 1]), exp, obs), rep)
        if n == 'tn_copy':
            after = list(obj)
            if after != model:
                ok = False
                acc.viol(vkey(clsname, 'tn_copy-changed-object', ops[:idx + 1], model, after, kinds),
                         'to_native(copy=True) changed the object: expected %r, observed %r' % (model, after), rep)
        if n == 'read':
            acc.c['invariant_checks'] += 1
            for cls_, text in check_invariants(ops[:idx + 1], obs, kinds):
                ok = False
                acc.viol('C13:%s:invariant:%s' % (clsname, cls_), text + ' after ' + '; '.join(opname(o) for o in ops[:idx + 1]), rep)
        for o, m in zip(origs, orig_models):
            acc.c['original_checks'] += 1
            lo = list(o)
            if lo != m:
                ok = False
                acc.viol(vkey(clsname, 'original-changed', ops[:idx + 1], m, lo, kinds),
                         'original of a copy() no longer equals its list: expected %r, observed %r' % (m, lo), rep)
    return key, model, orig_models, ok


def list_or(x):
    return list(x) if isinstance(x, tuple) else x


# ---- bfs worker ---------------------------------------------------------------------------------------------
BFS_SEEN = {}
BFS_SUFFIX = ''         # appended to every violation key of a search (the tail part: the value tail of the alphabet)


def expand_chunk(arg):
    clsname, frontier_only, states = arg
    acc = ShapeAcc()
    acc.suffix = BFS_SUFFIX
    succ = {}
    seen = BFS_SEEN
    obs_ids = [i for i, o in enumerate(OPS) if o[0] in OBS_NAMES]
    for hist in states:
        prefix = [OPS[h] for h in hist]
        for oi in (obs_ids if frontier_only else range(len(OPS))):
            acc.c['transitions'] += 1
            key, model, om, ok = run_case(clsname, prefix + [OPS[oi]], acc, False)
            if ok and key is not None and key not in succ and key not in seen:
                succ[key] = hist + bytes([oi])
        acc.c['transitions'] += 1
        run_case(clsname, prefix + [TERMINAL], acc, False)
    if frontier_only:
        succ = dict.fromkeys(succ, b'')      # never expanded: only counted
    return succ, dict(acc.c), acc.v, dict(acc.vn)


def bfs(ck, clsname, depth, ops, key_suffix=''):
    """Search to `depth` with the operation list `ops`. Returns counts and the dict of known product states."""
    global OPS, BFS_SEEN, BFS_SUFFIX
    OPS = ops
    BFS_SUFFIX = key_suffix
    seen = {'|||0#': b''}   # product-state key -> representative (first found, shortest) history
    frontier = [b'']
    tot = collections.Counter()
    vn_tot = collections.Counter()
    per_level = []
    for d in range(0, depth + 1):
        frontier_only = d == depth
        BFS_SEEN = seen      # workers are forked per level and inherit it
        nchunks = max(1, min(len(frontier), NCPU * 8))
        size = (len(frontier) + nchunks - 1) // nchunks
        chunks = [(clsname, frontier_only, frontier[i:i + size]) for i in range(0, len(frontier), size)]
        nxt = []
        for succ, c, v, vn in pmap(expand_chunk, chunks):
            tot.update(c)
            vn_tot.update(vn)
            for key, what, replay in v:
                ck.violation(key, what, replay)
            for key, hist in succ.items():
                if key not in seen:
                    seen[key] = hist
                    nxt.append(hist)
        per_level.append({'depth': d, 'states_at_depth': len(frontier), 'operations_applied': 4 if frontier_only else len(ops) + 1,
                          'new_states': len(nxt)})
        frontier = nxt
    n = 0
    for k, h in seen.items():
        if len(h) >= 2 and (n := n + 1) % 977 == 1:
            ck.sample({'class': clsname, 'history': [opname(OPS[x]) for x in h], 'product_state(container|pre|post|check#reference)': k}, cap=6)
    return {'states': len(seen), 'counters': tot, 'violation_counts': vn_tot, 'levels': per_level, 'keys': seen}


# ---- flat worker --------------------------------------------------------------------------------------------
FLAT_KNOWN = None


def flat_chunk(arg):
    clsname, depth, firsts, deep_firsts = arg
    acc = Acc()
    nops = len(OPS)
    n = 0
    unknown = []
    read_op = ('read', ())

    def rec(seq):
        nonlocal n
        if seq:
            n += 1
            ops = [OPS[i] for i in seq]
            # the whole sequence, every observer compared, then the end state is read
            key, model, om, ok = run_case(clsname, ops + [read_op], acc, True, key_idx=len(ops) - 1)
            acc.c['steps'] += len(ops) + 1
            if ok and key is not None and FLAT_KNOWN is not None and key not in FLAT_KNOWN and len(unknown) < 3:
                unknown.append(([opname(o) for o in ops], key))
        if len(seq) < (depth if seq[0] in deep_firsts else depth - 1):
            for i in range(nops):
                rec(seq + [i])
    for f in firsts:
        rec([f])
    return n, unknown, dict(acc.c), acc.v, dict(acc.vn)


# ---- pair part: histories over TWO argument-list objects ---------------------------------------------------
# "dependency ... arguments added in any number of increments": the thing that is added is very often itself an
# argument-list OBJECT (generate_basic_compiler_args() returns one, dependency/compiler-check arguments are collected
# in one and then added to the command line under construction).  Its eager meaning as an operand is the list it
# denotes at that moment, whatever the condition of its queues.
#   register a : the list under construction     register b : the operand object     register c : result of a `+` / copy-construction
# One case = (history of a) (history of b) (one binary operation) [one more operation on any register or a second
# binary operation]; then every register is read (the changed one first) and compared with its reference list:
# the result with ref_batch(list of a, list of b), the operands with the lists they denoted before (being used as an
# operand changes nothing, and nothing done to one object afterwards shows in another).
PAIR_ALPHAS = {
    'clike': ['-Ia', '-Ib', '-Dx', 'libz.a', '-Wall'],      # two front, one back-override, one once-only, one plain
    'base': ['-Ia', '-Ib', '-Dx', 'libz.a', '-Wall'],
    'd': ['-Ia', '-L-lfoo', '-L/x/libfoo.a', 'libz.a', '-O'],   # front override, front not de-dupable, front once-only, once-only, plain
}
PAIR_UNARYS = {c: [('iadd', (a,)) for a in al] + [('read', ()), ('copy', ())] for c, al in PAIR_ALPHAS.items()}
# name -> (text, registers used as operands, register that holds the result)
PAIR_BIN = collections.OrderedDict([
    ('iadd_obj', ('a += b', 'ab', 'a')),
    ('extend_obj', ('a.extend(b)', 'ab', 'a')),
    ('add_obj', ('c = a + b', 'ab', 'c')),
    ('init_obj', ('c = CompilerArgs(compiler, b)', 'b', 'c')),
    ('radd_list_obj', ('c = <the plain list a denotes> + b', 'b', 'c')),
    ('add_list', ('c = a + <the plain list b denotes>', 'a', 'c')),
    ('extend_direct_obj', ('a.extend_direct(b)', 'ab', 'a')),
    # the operand is the object itself / a copy of it: b takes no part (run with the empty history of b only)
    ('iadd_selfcopy', ('a += a.copy()', 'a', 'a')),
    ('iadd_self', ('a += a', 'a', 'a')),
    ('add_self', ('c = a + a', 'a', 'c')),
])
PAIR_SOLO = ('iadd_selfcopy', 'iadd_self', 'add_self')
PAIR_POSTS = {c: [(r, u) for r in 'abc' for u in un] + [('bin', b) for b in PAIR_BIN] for c, un in PAIR_UNARYS.items()}
PAIR_HIST = {}          # (class, depth) -> list of histories (tuples of unary operations), shortest first


def pair_histories(clsname, depth):
    if (clsname, depth) not in PAIR_HIST:
        import itertools
        PAIR_HIST[clsname, depth] = [h for n in range(depth + 1) for h in itertools.product(PAIR_UNARYS[clsname], repeat=n)]
    return PAIR_HIST[clsname, depth]


def pair_opname(step):
    r, o = step
    if r == 'bin':
        return PAIR_BIN[o][0]
    return '%s: %s' % (r, opname(o))


def pair_bin(R, M, name, clsname, kinds):
    """One binary operation on the real registers R and on the reference lists M."""
    a, b, ma, mb = R['a'], R['b'], M['a'], M['b']
    if name == 'iadd_obj':
        R['a'] = operator.iadd(a, b)
        M['a'] = ref_batch(ma, mb, kinds)
    elif name == 'extend_obj':
        a.extend(b)
        M['a'] = ref_batch(ma, mb, kinds)
    elif name == 'extend_direct_obj':
        a.extend_direct(b)
        M['a'] = ref_step(ma, ('extend_direct', tuple(mb)), kinds)
    elif name == 'add_obj':
        R['c'] = a + b
        M['c'] = ref_batch(ma, mb, kinds)
    elif name == 'add_list':
        R['c'] = a + list(mb)
        M['c'] = ref_batch(ma, mb, kinds)
    elif name == 'radd_list_obj':
        R['c'] = list(ma) + b
        M['c'] = ref_batch(ma, mb, kinds)
    elif name == 'init_obj':
        R['c'] = fresh(clsname, b)
        M['c'] = list(mb)
    elif name == 'iadd_selfcopy':
        R['a'] = operator.iadd(a, a.copy())
        M['a'] = ref_batch(ma, ma, kinds)
    elif name == 'iadd_self':
        R['a'] = operator.iadd(a, a)
        M['a'] = ref_batch(ma, ma, kinds)
    elif name == 'add_self':
        R['c'] = a + a
        M['c'] = ref_batch(ma, ma, kinds)
    else:
        raise AssertionError(name)


def pair_sum_facts(left, right, observed, kinds, direct):
    """What the property says about a sum without going through ref_batch: nothing lost, nothing invented, the
    non-dedupable arguments of both sides in order, left before right."""
    bad = []
    have, want = set(observed), set(left) | set(right)
    for x in sorted(want - have):
        bad.append(('lost', 'argument %r of %s is absent from the sum' % (x, 'the operand' if x in right else 'the left side')))
    for x in sorted(have - want):
        bad.append(('invented', 'argument %r is in neither side' % (x,)))
    got, lc, rc = collections.Counter(observed), collections.Counter(left), collections.Counter(right)
    for x in sorted(have & want):
        if got[x] > lc[x] + rc[x]:
            bad.append(('invented', 'argument %r occurs %d times, the two sides hold it %d times' % (x, got[x], lc[x] + rc[x])))
    if direct:
        pl, op = list(left) + list(right), list(observed)
    else:
        pl = ([x for x in right if nondedup(kinds[x]) and kinds[x].front] + [x for x in left if nondedup(kinds[x])]
              + [x for x in right if nondedup(kinds[x]) and not kinds[x].front])
        op = [x for x in observed if nondedup(kinds.get(x))]
    if collections.Counter(pl) != collections.Counter(op):
        bad.append(('plain-multiplicity', 'non-dedupable arguments are %r, the two sides say %r' % (op, pl)))
    elif pl != op:
        bad.append(('plain-order', 'non-dedupable arguments are %r, the two sides say %r' % (op, pl)))
    return bad


def run_pair(clsname, ha, hb, binop, post, acc):
    """ha, hb: tuples of unary operations; binop: a name of PAIR_BIN; post: None or a step of PAIR_POST."""
    kinds = KINDS[clsname]
    R = {'a': fresh(clsname), 'b': fresh(clsname), 'c': None}
    M = {'a': [], 'b': [], 'c': None}
    steps = [('a', o) for o in ha] + [('b', o) for o in hb] + [('bin', binop)] + ([post] if post is not None else [])
    rep = {'cls': clsname, 'pair': {'a': [list(map(list_or, o)) for o in ha], 'b': [list(map(list_or, o)) for o in hb], 'bin': binop,
                                    'post': None if post is None else [post[0], post[1] if post[0] == 'bin' else list(map(list_or, post[1]))]}}
    text = '; '.join(pair_opname(s) for s in steps)
    changed = None
    nbin = 0
    sides = None
    for r, o in steps:
        try:
            if r == 'bin':
                a, b = R['a'], R['b']
                uses = PAIR_BIN[o][1]
                if nbin == 0:
                    pa, pb = bool(a.pre or a.post), bool(b.pre or b.post)
                    if 'b' in uses and o != 'add_list':
                        acc.c['operand_is_object'] += 1
                        if pb:
                            acc.c['operand_object_with_pending_queue'] += 1
                            if b._container:
                                acc.c['operand_object_with_pending_queue_and_merged_part'] += 1
                            if b.needs_override_check:
                                acc.c['operand_object_with_pending_override_check'] += 1
                            if pa:
                                acc.c['both_objects_with_pending_queue'] += 1
                        elif b._container:
                            acc.c['operand_object_fully_merged'] += 1
                        else:
                            acc.c['operand_object_empty'] += 1
                    elif o in PAIR_SOLO:
                        acc.c['operand_is_the_object_itself_or_its_copy'] += 1
                        if pa:
                            acc.c['self_operand_with_pending_queue'] += 1
                    sides = (list(M['a']), list(M['a'] if o in PAIR_SOLO else M['b']))
                pair_bin(R, M, o, clsname, kinds)
                changed = PAIR_BIN[o][2]
                nbin += 1
            else:
                if R[r] is None:
                    return False            # no third object yet: not a case
                R[r], _ = step_real(R[r], [], o)
                M[r] = ref_step(M[r], o, kinds)
                changed = r
        except Exception as e:  # none of these operations may fail
            acc.viol('C13:%s:pair:%s:exception:%s' % (clsname, binop, type(e).__name__),
                     '%s raised %r after %s' % (pair_opname((r, o)), e, text), rep)
            return True
    acc.c['cases'] += 1
    acc.c['steps'] += len(steps)
    res = PAIR_BIN[binop][2]
    if post is None and binop != 'init_obj' and len(M[res]) < len(sides[0]) + len(sides[1]):
        acc.c['sum_shorter_than_concatenation(dedup_across_objects)'] += 1
    then = '' if post is None else ':then-%s' % (post[1] if post[0] == 'bin' else post[0] + '.' + post[1][0])
    for r in [changed] + [x for x in 'abc' if x != changed]:
        if R[r] is None:
            continue
        try:
            obs = list(R[r])
        except Exception as e:
            acc.viol('C13:%s:pair:%s:exception:%s' % (clsname, binop, type(e).__name__),
                     'list(%s) raised %r after %s' % (r, e, text), rep)
            return True
        acc.c['register_reads'] += 1
        if obs != M[r]:
            role = 'result' if r == res else 'operand-changed' if r in PAIR_BIN[binop][1] else 'bystander-changed'
            acc.viol('C13:%s:pair:%s:%s%s:%s' % (clsname, binop, role, then, diff_class(M[r], obs, kinds)),
                     'after %s: %s expected %r, observed %r' % (text, r, M[r], obs), rep)
        elif r == res and post is None and binop != 'init_obj':
            acc.c['invariant_checks'] += 1
            for cls_, what in pair_sum_facts(sides[0], sides[1], obs, kinds, binop == 'extend_direct_obj'):
                acc.viol('C13:%s:pair:%s:invariant:%s' % (clsname, binop, cls_), what + ' after ' + text, rep)
    return True


def pair_chunk(arg):
    clsname, da, db, with_post, hb_slice = arg
    acc = Acc()
    has = pair_histories(clsname, da)
    posts = ([None] + PAIR_POSTS[clsname]) if with_post else [None]
    for hb in hb_slice:
        for binop in PAIR_BIN:
            if binop in PAIR_SOLO and hb:
                continue
            # the solo operations have only one object to prepare: it gets the longer of the two history bounds
            for ha in (pair_histories(clsname, max(da, db)) if binop in PAIR_SOLO else has):
                for post in posts:
                    run_pair(clsname, ha, hb, binop, post, acc)
    return dict(acc.c), acc.v, dict(acc.vn)


# ---- libfile part: the name shape of a library file is a dimension ---------------------------------------------
def lib_args(clsname, lib):
    """The arguments of one libfile alphabet: the library file, (D only) its linker pass-through form, a plain and a
    front override argument."""
    return [lib] + (['-L' + lib] if clsname == 'd' else []) + [LIB_PLAIN[clsname], LIB_FRONT]


def lib_register(clsname, lib):
    """Enter the kinds of one libfile alphabet into the kind table of the class.  Returns (contradictions between the
    statement and the tables, arguments the tables leave open)."""
    kinds = KINDS[clsname]
    bad, unspecified = [], []
    tk = table_kind(CLS[clsname], lib)
    st = ONCE if stated_library_file(lib) else None
    if st is not None and tk != st:
        bad.append((clsname, lib, st, tk))
    kinds[lib] = st if st is not None else tk
    if clsname == 'd':
        tk = table_kind(CLS[clsname], '-L' + lib)
        if tk is None:
            unspecified.append('-L' + lib)
        kinds['-L' + lib] = tk
    return bad, unspecified


def lib_ops(clsname, lib):
    kinds = KINDS[clsname]
    ops = [('read', ()), ('copy', ())]
    libs = [a for a in lib_args(clsname, lib)[:-2] if kinds.get(a) is not None]
    comp = lib_args(clsname, lib)[-2:]
    for a in libs:
        for name in ('append', 'iadd', 'extend', 'append_direct', 'extend_direct', 'insert0'):
            ops.append((name, (a,)))
    for a in comp:
        ops.append(('iadd', (a,)))
    for a in libs:
        ops.append(('iadd', (a, a)))
        ops.append(('extend_direct', (a, a)))
        for b in comp + [x for x in libs if x != a]:
            ops.append(('iadd', (a, b)))
            if b in comp:
                ops.append(('iadd', (b, a)))
        ops.append(('extend_direct', (a, comp[0])))
        ops.append(('extend_direct', (comp[0], a)))
    return ops


def libfile_chunk(arg):
    import itertools
    clsname, depth, shapes = arg
    acc = ShapeAcc()
    read_op = ('read', ())
    n = 0
    for label, lib in shapes:
        acc.suffix = ':libfile:' + label
        ops = lib_ops(clsname, lib)
        for ln in range(1, depth + 1):
            for seq in itertools.product(ops, repeat=ln):
                n += 1
                adds = sum(o[1].count(lib) for o in seq)
                if adds >= 2:
                    acc.c['sequences_offering_the_library_file_more_than_once'] += 1
                key, model, om, ok = run_case(clsname, list(seq) + [read_op], acc, True, key_idx=ln - 1)
                acc.c['steps'] += ln + 1
                if adds >= 2 and model.count(lib) == 1:
                    acc.c['repeat_expected_to_be_dropped'] += 1
                elif adds >= 2:
                    acc.c['repeat_expected_to_stay(direct_insertion)'] += 1
    return n, dict(acc.c), acc.v, dict(acc.vn)


# ---- eqread part: a == b reads both objects ---------------------------------------------------------------------
def eqread_chunk(arg):
    clsname, depth, has = arg
    acc = Acc()
    kinds = KINDS[clsname]
    for ha in has:
        for hb in pair_histories(clsname, depth):
            for how in ('a == b', 'b == a', 'a == list', 'a != b'):
                # every comparison on freshly built objects: a comparison merges queues, the next one would see another state
                R = {'a': fresh(clsname), 'b': fresh(clsname)}
                M = {'a': [], 'b': []}
                for r, h in (('a', ha), ('b', hb)):
                    for o in h:
                        R[r], _ = step_real(R[r], [], o)
                        M[r] = ref_step(M[r], o, kinds)
                pa, pb = bool(R['a'].pre or R['a'].post), bool(R['b'].pre or R['b'].post)
                if how == 'a == b':
                    obs, exp = R['a'] == R['b'], M['a'] == M['b']
                elif how == 'b == a':
                    obs, exp = R['b'] == R['a'], M['a'] == M['b']
                elif how == 'a != b':
                    obs, exp = R['a'] != R['b'], M['a'] != M['b']
                else:
                    obs, exp = R['a'] == list(M['a']), True
                acc.c['comparisons'] += 1
                if exp:
                    acc.c['comparisons_expected_equal'] += 1
                if how == 'a == b' and pb:
                    acc.c['right_operand_with_pending_queue'] += 1
                if how == 'a == b' and pa:
                    acc.c['left_operand_with_pending_queue'] += 1
                if obs is not exp:
                    # one defect class: the operand that is not `self` of the comparison still has additions pending
                    other_pending = pa if how == 'b == a' else pb if how != 'a == list' else False
                    acc.viol('C13:eqread:other-operand-with-pending-queue-compared-stale' if other_pending
                             else 'C13:%s:eqread:%s:wrong' % (clsname, how.replace(' ', '')),
                             '%s gave %r, the eager lists %r and %r say %r, after a: %s; b: %s' % (
                                 how, obs, M['a'], M['b'], exp, '; '.join(opname(o) for o in ha), '; '.join(opname(o) for o in hb)),
                             {'cls': clsname, 'eqread': {'a': [list(map(list_or, o)) for o in ha], 'b': [list(map(list_or, o)) for o in hb]}})
    return dict(acc.c), acc.v, dict(acc.vn)


# ---- seqread part: the other ways of reading a MutableSequence --------------------------------------------------
# list(args) goes through __iter__; the backends also read through reversed(args) (last --edition=... wins), args[i]
# and slices.  Each of them yields ARGUMENTS, so each must yield the eager list.  len() yields a number and stays on
# the unspecified list (see the header); it is only used here to classify a failure.
SEQ_READERS = ('reversed', 'index', 'slice')


def seq_read(obj, model, reader):
    if reader == 'reversed':
        return list(reversed(obj)), list(model[::-1])
    if reader == 'index':
        return [obj[i] for i in range(len(model))] + [obj[-i - 1] for i in range(len(model))], list(model) + list(model[::-1])
    if reader == 'slice':
        return list(obj[:]), list(model)
    raise AssertionError(reader)


def run_seqread(clsname, ops, reader, acc):
    kinds = KINDS[clsname]
    obj, origs, model = fresh(clsname), [], []
    for op in ops:
        obj, _ = step_real(obj, origs, op)
        model = ref_step(model, op, kinds)
    rep = {'cls': clsname, 'ops': [list(map(list_or, o)) for o in ops], 'reader': reader}
    text = '; '.join(opname(o) for o in ops)
    pend = bool(obj.pre or obj.post)
    nlen = len(obj)
    over = nlen != len(model)
    acc.c['reads'] += 1
    if pend:
        acc.c['reads_with_pending_queue'] += 1
        acc.c[reader + '_with_pending_queue'] += 1
    if over:
        acc.c['len_differs_before_flush(unspecified,not_compared)'] += 1
    try:
        obs, exp = seq_read(obj, model, reader)
    except Exception as e:
        acc.viol('C13:%s:seqread:%s:exception:%s%s' % (clsname, reader, type(e).__name__, ':len-overcounts-pending-duplicate' if over else ''),
                 '%s raised %r after %s (eager list %r, len() said %d)' % (reader, e, text, model, nlen), rep)
        return
    if obs != exp:
        acc.viol(('C13:%s:%s' % (clsname, batch_repeat_tag(ops, model, list(obj), kinds))) if batch_repeat_tag(ops, model, list(obj), kinds)
                 else 'C13:%s:seqread:%s:%s' % (clsname, reader, diff_class(exp, obs, kinds)),
                 '%s after %s: expected %r, observed %r' % (reader, text, exp, obs), rep)


def seqread_chunk(arg):
    clsname, firsts = arg
    acc = Acc()
    for f in firsts:
        for seq in [(f,)] + [(f, g) for g in range(len(OPS))]:
            ops = [OPS[i] for i in seq]
            for reader in SEQ_READERS:
                run_seqread(clsname, ops, reader, acc)
    return dict(acc.c), acc.v, dict(acc.vn)


# ---- native part --------------------------------------------------------------------------------------------
NATIVE_ALPHA = []


def native_chunk(arg):
    import itertools
    clsname, n, firsts = arg
    acc = Acc()
    cnt = 0
    skipped = 0
    classes = set()
    for f in firsts:
        for rest in itertools.product(NATIVE_ALPHA, repeat=n - 1):
            lst = [f] + list(rest)
            # unspecified corner: a bare `-isystem` that is not followed by a directory operand
            unspec = any(a == '-isystem' and (i + 1 >= len(lst) or lst[i + 1].startswith('-') or lst[i + 1] in LIBS)
                         for i, a in enumerate(lst))
            if unspec:
                skipped += 1
                continue
            cnt += 1
            exp = ref_native(lst, clsname)
            classes.add((len(exp) - len(lst)))
            for how in ('tn_copy', 'to_native'):
                obj = fresh(clsname, list(lst))
                try:
                    obs = list(obj.to_native(copy=True) if how == 'tn_copy' else obj.to_native())
                except Exception as e:
                    acc.viol('C13:%s:native-list:exception:%s' % (clsname, type(e).__name__), '%r raised %r' % (lst, e),
                             {'cls': clsname, 'init': lst, 'ops': [[how, []]]})
                    continue
                if obs != exp:
                    acc.viol('C13:%s:native-list:%s:%s' % (clsname, how, diff_class(exp, obs, {})),
                             '%s of %r: expected %r, observed %r' % (how, lst, exp, obs),
                             {'cls': clsname, 'init': lst, 'ops': [[how, []]]})
                elif how == 'tn_copy' and list(obj) != lst:
                    acc.viol('C13:%s:native-list:tn_copy-changed-object' % clsname,
                             'to_native(copy=True) changed %r into %r' % (lst, list(obj)),
                             {'cls': clsname, 'init': lst, 'ops': [[how, []]]})
    return cnt, skipped, sorted(classes), acc.v, dict(acc.vn)


# ------------------------------------------------------------------------------------------------------------
def detect_compiler(ck):
    global CC, DEFDIRS
    from mesonbuild.environment import Environment
    from mesonbuild.compilers.detect import detect_c_compiler
    from mesonbuild.mesonlib import MachineChoice
    from mesonbuild.linkers.linkers import GnuLikeDynamicLinkerMixin
    sr = scratch_root()
    src, bld = os.path.join(sr, 'src'), os.path.join(sr, 'bld')
    os.makedirs(src, exist_ok=True)
    os.makedirs(bld, exist_ok=True)
    opts = argparse.Namespace(native_file=[], cross_file=None, wrap_mode=None, prefix='', cmd_line_options={})
    env = Environment(src, bld, opts)
    CC = detect_c_compiler(env, MachineChoice.HOST)
    ck.require(CC.get_id() == 'gcc', 'detected C compiler is %r, expected gcc' % CC.get_id())
    ck.require(type(CC.compiler_args()) is CLikeCompilerArgs, 'compiler_args() is not a CLikeCompilerArgs')
    ck.require(isinstance(CC.linker, GnuLikeDynamicLinkerMixin), 'linker is not GNU-like: no group markers to check')
    dd = CC.get_default_include_dirs()
    ck.require(len(dd) > 0, 'compiler reports no default include directories')
    DEFDIRS = frozenset(os.path.realpath(d) for d in dd)
    return dd


def repo_arglist_classes():
    """Names of all classes under mesonbuild/ that derive (directly or not) from CompilerArgs, found in the source text."""
    pat = re.compile(r'^class\s+(\w+)\s*\(([^)]*)\)\s*:', re.M)
    decls = []
    for root, dirs, files in os.walk(os.path.join(REPO, 'mesonbuild')):
        dirs.sort()
        for f in sorted(files):
            if f.endswith('.py'):
                with open(os.path.join(root, f), encoding='utf-8') as fh:
                    txt = fh.read()
                if 'CompilerArgs' in txt:
                    for m in pat.finditer(txt):
                        decls.append((m.group(1), [b.strip().split('.')[-1] for b in m.group(2).split(',')]))
    found = {'CompilerArgs'}
    while True:
        more = {n for n, bases in decls if n not in found and found & set(bases)}
        if not more:
            return sorted(found)
        found |= more


def classes_part(ck):
    """The class dimension: which classes exist, what their tables can produce, what the alphabets hold."""
    names = repo_arglist_classes()
    driven = {CLS[c].__name__: c for c in CLASSES}
    ck.require(set(names) == set(driven), 'argument-list classes of the tree %r, driven %r' % (names, sorted(driven)))
    for c, a, st, tk in build_kinds():
        ck.violation('C13:%s:tables-contradict-statement:%s' % (c, kind_name(STATED[c], a)),
                     'the property statement makes %r %s, the tables of %s make it %s'
                     % (a, KIND_NAMES[st], CLS[c].__name__, KIND_NAMES.get(tk, 'undetermined')), {'cls': c, 'table_kind': a})
    for c in CLASSES:
        combos, nprobes, ambiguous = table_probe(CLS[c])
        have = {}
        for a in ALPHAS[c]:
            have.setdefault(KINDS[c][a], []).append(a)
        ck.require(None not in have, '%s: an argument of the alphabet is left open by the tables' % c)
        missing = [KIND_NAMES[k] for k in combos if k not in have]
        ck.require(not missing, '%s: the tables can produce the kinds %r (e.g. %r) but the alphabet has none' % (
            c, missing, [combos[k] for k in combos if k not in have]))
        ck.require(all(k in combos for k in have), '%s: the alphabet holds a kind that the probe of the tables does not produce' % c)
        ck.part('classes', **{c: {'class': CLS[c].__name__, 'prepend_prefixes': list(CLS[c].prepend_prefixes),
                                  'dedup2_prefixes': list(CLS[c].dedup2_prefixes), 'dedup1_prefixes': list(CLS[c].dedup1_prefixes),
                                  'probe_arguments': nprobes, 'probe_arguments_left_open_by_tables(unspecified)': ambiguous,
                                  'kinds_the_tables_can_produce': sorted(KIND_NAMES[k] for k in combos),
                                  'alphabet_by_kind': {KIND_NAMES[k]: v for k, v in sorted(have.items(), key=lambda kv: KIND_NAMES[kv[0]])},
                                  'operations': len(OPSETS[c])}})
    ck.part('classes', classes_in_tree=names, classes_driven=len(CLASSES))


def main():
    global OPS, NATIVE_ALPHA, FLAT_KNOWN
    ck = Check('C13', 'model_checking')
    dd = detect_compiler(ck)
    for c in CLASSES:
        OPSETS[c] = build_ops(ALPHAS[c])
    FULL = OPSETS['clike']
    OPS = FULL
    if ck.args.replay:
        return replay(ck)
    classes_part(ck)
    ck.assume('compiler object: %s %s (%s), linker %s, detected through mesonbuild.compilers.detect.detect_c_compiler on a '
              'real Environment' % (CC.get_id(), CC.version, ' '.join(CC.get_exelist()), CC.linker.id))
    ck.assume('argument kinds (front/override/once/plain) of the 9-argument alphabet are taken from the property statement; '
              'for the base CompilerArgs class (no prepend/override prefixes declared) everything is plain except library files')
    ck.assume('the argument-list class is a dimension: every CompilerArgs subclass defined under mesonbuild/ is driven (part '
              'classes); the kinds of the D class come from its tables (prepend_prefixes, dedup2_prefixes, inherited dedup1_*), '
              'which are its documented contract; the eager algorithm is the one of the property statement for every class')
    ck.assume('no D compiler is installed: DCompilerArgs objects are bound to the detected gcc object like the base class; the '
              'compiler object only takes part in to_native (base-class conversion = compiler.unix_args_to_native, the identity '
              'for gcc), the D-specific translation of arguments is not part of this property')
    ck.assume('default include directories used by the to_native oracle are the ones the real compiler object reports')
    ck.assume('to_native() without copy is only ever the last operation on an object (it writes group markers into it)')
    ck.assume('merging: two histories with the same product key have the same futures because the key holds every mutable '
              'field of the real objects and the whole reference state (validated by the flat part)')

    # search plan: (class, label, depth, operation list).  "depth" = number of arbitrary operations; one observer follows.
    BASE4 = ['-Ia', '-Dx', 'libz.a', '-Wall']
    DRED = ['-Ia', '-L-lfoo', '-L/x/libfoo.a', 'libz.a', '-O']
    plan = [('clike', 'clike', ck.q(3, 4), FULL), ('base', 'base', 3, OPSETS['base']), ('d', 'd', 3, OPSETS['d'])]
    if ck.thorough:
        # the base class treats 8 of the 9 arguments identically (plain); depth 4 there uses one argument of each
        # CLike kind (4 arguments, all 16 pairs) - the full alphabet at depth 4 would be ~60 M states.
        plan.append(('base', 'base_depth4_reduced_alphabet', 4, build_ops(BASE4)))
        # D: one argument of each of its five kinds
        plan.append(('d', 'd_depth4_reduced_alphabet', 4, build_ops(DRED)))
    fdepth = 3
    total_states = total_trans = traces = 0
    pending_reads = 0
    classes = list(CLASSES)
    known = {}
    bounds = []
    if ck.want('bfs') or any(ck.want('bfs_' + p[1]) for p in plan):
        for clsname, label, depth, ops in plan:
            if not ck.want('bfs') and not ck.want('bfs_' + label):
                continue
            r = bfs(ck, clsname, depth, ops)
            c = r['counters']
            if label == clsname:
                known[clsname] = r['keys']
            total_states += r['states']
            total_trans += c['transitions']
            traces += c['transitions']
            pending_reads += c['observed_with_pending_queue']
            bounds.append('%s: depth %d over %d operations' % (label, depth, len(ops)))
            ck.part('bfs_' + label, depth=depth, operations=len(ops), states=r['states'], levels=r['levels'],
                    violating_transitions=sum(r['violation_counts'].values()),
                    **{k: v for k, v in sorted(c.items())})
            if not ck.n_viol:
                ck.require(c['observed_with_pending_queue'] > 0, label + ': no observer ran with a non-empty pending queue')
                ck.require(c['copy_with_pending_queue'] > 0, label + ': copy() never ran with a pending queue')
                ck.require(c['direct_insertion_with_pending_queue'] > 0, label + ': no direct insertion with a pending queue')
                ck.require(c['original_checks'] > 0, label + ': no original of a copy was ever re-read')
                if clsname == 'clike':
                    ck.require(c['native_with_group'] > 0, 'group markers never expected')
                if any(k.override for k in KINDS[clsname].values()):
                    ck.require(c['observed_with_pending_override_check'] > 0, label + ': override merge never pending at a read')
                    # the override merge runs over queues that hold the same non-dedupable argument several times (or
                    # once more than the merged part): in the back queue for every class, in the front queue for the
                    # classes whose tables make a prepended argument non-dedupable
                    ck.require(c['override_merge_with_repeated_non_dedupable_in_back_queue'] > 0,
                               label + ': override merge never ran over a repeated non-dedupable appended argument')
                    if FRONT_PLAIN in KINDS[clsname].values():
                        ck.require(c['override_merge_with_repeated_non_dedupable_in_front_queue'] > 0,
                                   label + ': override merge never ran over a repeated non-dedupable prepended argument')
            r = None

    if ck.want('flat'):
        for clsname in classes:
            OPS = OPSETS[clsname]
            FLAT_KNOWN = known.get(clsname) if not ck.n_viol else None
            # quick: all sequences <= 2, and of those of length 3 the quarter whose first operation index = seed mod 4
            deep = frozenset(i for i in range(len(OPS)) if ck.thorough or i % 4 == ck.seed % 4)
            chunks = [(clsname, fdepth, [i], deep) for i in sorted(range(len(OPS)), key=lambda i: (i not in deep, i))]
            n = 0
            tot = collections.Counter()
            vcount = 0
            for cnt, unknown, c, v, vn in pmap(flat_chunk, chunks):
                n += cnt
                tot.update(c)
                vcount += sum(vn.values())
                for key, what, rp in v:
                    ck.violation(key, what, rp)
                if unknown:
                    ck.internal('flat run reached a product state the search does not know: %r' % (unknown[0],))
            traces += n
            total_trans += tot['steps']
            pending_reads += tot['observed_with_pending_queue']
            ck.part('flat_' + clsname, depth=fdepth, complete_to_depth=fdepth if ck.thorough else fdepth - 1,
                    first_operations_taken_to_full_depth=len(deep), operations=len(OPS), sequences=n, violating=vcount,
                    all_end_states_known_to_search=FLAT_KNOWN is not None, **{k: v for k, v in sorted(tot.items())})
            if not ck.n_viol:
                ck.require(tot['observed_with_pending_queue'] > 0, 'flat: no read with a pending queue')
    known = None
    FLAT_KNOWN = None

    pair_cases = 0
    if ck.want('pair'):
        # (label, history bound of a, history bound of b, with one more operation after the binary one)
        pplan = [('pair', ck.q(2, 3), ck.q(3, 4), False), ('pair_then_one_more', 1, 3, True)]
        for clsname in classes:
            for label, da, db, with_post in pplan:
                hbs = pair_histories(clsname, db)
                pair_histories(clsname, max(da, db))
                nchunks = max(1, min(len(hbs), NCPU * 8))
                # histories are ordered shortest first; deal them round-robin so that every chunk costs the same
                chunks = [(clsname, da, db, with_post, hbs[i::nchunks]) for i in range(nchunks)]
                tot = collections.Counter()
                vcount = 0
                found = []
                for c, v, vn in pmap(pair_chunk, chunks):
                    tot.update(c)
                    vcount += sum(vn.values())
                    found.extend(v)
                # shortest case first (the chunks interleave the histories)
                found.sort(key=lambda x: len(x[2]['pair']['a']) + len(x[2]['pair']['b']) + (x[2]['pair']['post'] is not None))
                for key, what, rp in found:
                    ck.violation(key, what, rp)
                pair_cases += tot['cases']
                traces += tot['cases']
                total_trans += tot['steps']
                ck.part('%s_%s' % (label, clsname), arguments=PAIR_ALPHAS[clsname], unary_operations=len(PAIR_UNARYS[clsname]), binary_operations=len(PAIR_BIN),
                        following_operations=len(PAIR_POSTS[clsname]) if with_post else 0,
                        histories_of_a=len(pair_histories(clsname, da)), histories_of_b=len(hbs), max_history_a=da, max_history_b=db,
                        violating=vcount, **{k: v for k, v in sorted(tot.items())})
                bounds.append('%s_%s: histories <= %d (a) x <= %d (b) over %d unary operations x %d binary operations%s'
                              % (label, clsname, da, db, len(PAIR_UNARYS[clsname]), len(PAIR_BIN), ' x %d following operations' % len(PAIR_POSTS[clsname]) if with_post else ''))
                if not ck.n_viol:
                    ck.require(tot['operand_object_with_pending_queue'] > 0, label + ': no operand object had a pending queue')
                    ck.require(tot['operand_object_with_pending_queue_and_merged_part'] > 0,
                               label + ': no operand object had additions pending after an earlier read')
                    ck.require(tot['operand_object_fully_merged'] > 0 and tot['operand_object_empty'] > 0, label + ': operand states missing')
                    ck.require(tot['both_objects_with_pending_queue'] > 0, label + ': never both objects pending')
                    ck.require(tot['self_operand_with_pending_queue'] > 0, label + ': a += a never with a pending queue')
                    ck.require(tot['register_reads'] > 2 * tot['cases'], label + ': operands were not re-read')
                    if not with_post:
                        ck.require(tot['sum_shorter_than_concatenation(dedup_across_objects)'] > 0, label + ': no de-duplication across the two objects')
                    if clsname == 'clike':
                        ck.require(tot['operand_object_with_pending_override_check'] > 0, label + ': operand never had an override merge pending')
        ck.sample({'pair_case': [pair_opname(s) for s in [('b', ('iadd', ('-Dx',))), ('b', ('read', ())), ('b', ('iadd', ('-Ia',))),
                                                           ('a', ('iadd', ('-Ia',))), ('a', ('iadd', ('-Wall',))), ('bin', 'iadd_obj')]],
                   'expected': {'a': ref_batch(['-Ia', '-Wall'], ['-Ia', '-Dx'], KINDS['clike']), 'b': ['-Ia', '-Dx']}})

    seq_reads = 0
    if ck.want('seqread'):
        for clsname in classes:
            OPS = OPSETS[clsname]
            chunks = [(clsname, [i]) for i in range(len(OPS))]
            tot = collections.Counter()
            vcount = 0
            for c, v, vn in pmap(seqread_chunk, chunks):
                tot.update(c)
                vcount += sum(vn.values())
                for key, what, rp in v:
                    ck.violation(key, what, rp)
            seq_reads += tot['reads']
            traces += tot['reads']
            total_trans += tot['reads']
            pending_reads += tot['reads_with_pending_queue']
            ck.part('seqread_' + clsname, readers=list(SEQ_READERS), operations=len(OPS), max_len=2, violating=vcount,
                    **{k: v for k, v in sorted(tot.items())})
            if not ck.n_viol:
                for rd in SEQ_READERS:
                    ck.require(tot[rd + '_with_pending_queue'] > 0, 'seqread: %s never ran with a pending queue' % rd)
        bounds.append('seqread: all sequences <= 2 over the operations of each class x %d readers' % (len(SEQ_READERS),))

    lib_cases = 0
    lib_reported = set()
    if ck.want('libfile'):
        ldepth = ck.q(2, 3)
        for clsname in classes:
            open_args = []
            for label, lib in LIB_SHAPES:
                ck.require(stated_library_file(lib), 'libfile: %r is not a library file by the documented name forms' % lib)
                bad, unspec = lib_register(clsname, lib)
                open_args += unspec
                for c, a, st, tk in bad:
                    ck.violation('C13:%s:tables-contradict-statement:once:libfile:%s' % (c, label),
                                 'the property statement makes the library file %r once-only, the tables of %s make it %s'
                                 % (a, CLS[c].__name__, KIND_NAMES.get(tk, 'undetermined')), {'cls': c, 'table_kind': a})
            # one chunk per shape, dealt so that the cheap and the expensive ones mix
            chunks = [(clsname, ldepth, [sh]) for sh in LIB_SHAPES]
            n = 0
            tot = collections.Counter()
            vcount = 0
            for cnt, c, v, vn in pmap(libfile_chunk, chunks):
                n += cnt
                tot.update(c)
                vcount += sum(vn.values())
                for key, what, rp in v:
                    if key not in lib_reported:     # the first (shortest) case of every key; all are counted in `violating`
                        lib_reported.add(key)
                        ck.violation(key, what, rp)
            lib_cases += n
            traces += n
            total_trans += tot['steps']
            pending_reads += tot['observed_with_pending_queue']
            ck.part('libfile_' + clsname, shapes=len(LIB_SHAPES), locations=list(LIB_DIRS), names=list(LIB_NAMES.values()),
                    operations_per_shape=len(lib_ops(clsname, LIB_SHAPES[0][1])), depth=ldepth, sequences=n, violating=vcount,
                    pass_through_forms_left_open_by_tables=len(open_args),
                    pass_through_kinds=sorted({KIND_NAMES[KINDS[clsname]['-L' + lib]] for _, lib in LIB_SHAPES
                                               if KINDS[clsname].get('-L' + lib) is not None}),
                    **{k: v for k, v in sorted(tot.items())})
            if not ck.n_viol:
                ck.require(tot['repeat_expected_to_be_dropped'] > 0, 'libfile: no library file was ever offered twice')
                ck.require(tot['observed_with_pending_queue'] > 0, 'libfile: no read with a pending queue')
        bounds.append('libfile: %d library-file name shapes x all sequences <= %d over the operations that add the file' % (len(LIB_SHAPES), ldepth))
        ck.sample({'libfile_case': ['+= %r' % [LIB_SHAPES[13][1], '-Wall'], '+= %r' % ['-Ia', LIB_SHAPES[13][1]], 'list(args)'],
                   'expected': ['-Ia', LIB_SHAPES[13][1], '-Wall']})

    tail_states = 0
    if ck.want('tail'):
        tdepth = 3
        bad, open_args = tail_register()
        for c, a, st, tk, label in bad:
            ck.violation('C13:%s:tables-contradict-statement:%s:tail:%s' % (c, KIND_NAMES[st], label),
                         'the property statement makes %r %s (an argument of the option it starts with), the tables of %s make it %s'
                         % (a, KIND_NAMES[st], CLS[c].__name__, KIND_NAMES.get(tk, 'undetermined')), {'cls': c, 'table_kind': a})
        ck.require(not open_args, 'tail: arguments of a tail alphabet are left open by the tables: %r' % (open_args,))
        ck.require(set(tail_classes()) == {c for c in CLASSES if any(k.override for k in KINDS[c].values())},
                   'tail: the classes with override options are not the classes whose alphabet holds an override-type argument')
        for clsname in tail_classes():
            kinds = KINDS[clsname]
            tot = collections.Counter()
            vcount = 0
            per_tail = {}
            nops = 0
            for label, t in LIB_TAILS.items():
                alpha = tail_alphabet(clsname, t)
                tailed = [a for a in alpha if a.endswith(t)]
                # every override option of the class has a value with this tail; the kinds are those of the plain alphabet
                ck.require(sorted(KIND_NAMES[kinds[a]] for a in alpha) == sorted(KIND_NAMES[kinds[a]] for a in ALPHAS[clsname]),
                           'tail: the %s alphabet of %s does not hold the kinds of the plain alphabet' % (label, clsname))
                ck.require(all(kinds[a].override for a in tailed if a.startswith('-') and a not in ALPHAS[clsname])
                           and sum(1 for a in tailed if kinds[a].override) >= 2,
                           'tail: %s/%s: the arguments with the tail are not override-type' % (clsname, label))
                ck.require(all(stated_library_file(a.lstrip('-')) for a in tailed), 'tail: %r do not end like a library file' % (tailed,))
                ops = build_tail_ops(alpha, kinds)
                nops = len(ops)
                r = bfs(ck, clsname, tdepth, ops, key_suffix=':tail:' + label)
                c = r['counters']
                tot.update(c)
                vcount += sum(r['violation_counts'].values())
                per_tail[label] = {'alphabet': alpha, 'states': r['states'], 'transitions': c['transitions']}
                tail_states += r['states']
                total_states += r['states']
                total_trans += c['transitions']
                traces += c['transitions']
                pending_reads += c['observed_with_pending_queue']
                if not ck.n_viol:
                    ck.require(c['observed_with_pending_override_check'] > 0, 'tail %s/%s: override merge never pending at a read' % (clsname, label))
                    ck.require(c['copy_with_pending_queue'] > 0 and c['direct_insertion_with_pending_queue'] > 0,
                               'tail %s/%s: no copy / direct insertion with a pending queue' % (clsname, label))
                r = None
            ck.part('tail_' + clsname, tails=list(LIB_TAILS.values()), depth=tdepth, operations=nops, per_tail=per_tail,
                    violating_transitions=vcount, **{k: v for k, v in sorted(tot.items())})
            if not ck.n_viol:
                ck.require(tot['observed_with_pending_queue'] > 0, 'tail: no observer ran with a non-empty pending queue')
        bounds.append('tail: %d value tails x depth %d over the tail operations (observers, copy, 3 routes x every argument, '
                      'two-element batches of the override-type arguments) for the classes with override options' % (len(LIB_TAILS), tdepth))
        ck.sample({'tail_case': ["+= ['-Dx=.so']", "+= ['-Ux']", "+= ['-Dx=.so']", 'list(args)'],
                   'expected': ref_batch(ref_batch(ref_batch([], ['-Dx=.so'], KINDS['clike']), ['-Ux'], KINDS['clike']), ['-Dx=.so'], KINDS['clike'])})

    eq_cases = 0
    eq_reported = set()
    if ck.want('eqread'):
        for clsname in classes:
            has = pair_histories(clsname, 2)
            nchunks = max(1, min(len(has), NCPU * 2))
            tot = collections.Counter()
            vcount = 0
            found = []
            for c, v, vn in pmap(eqread_chunk, [(clsname, 2, has[i::nchunks]) for i in range(nchunks)]):
                tot.update(c)
                vcount += sum(vn.values())
                found.extend(v)
            found.sort(key=lambda x: len(x[2]['eqread']['a']) + len(x[2]['eqread']['b']))
            for key, what, rp in found:
                if key not in eq_reported:          # the shortest case of every key
                    eq_reported.add(key)
                    ck.violation(key, what, rp)
            eq_cases += tot['comparisons']
            traces += tot['comparisons']
            total_trans += tot['comparisons']
            ck.part('eqread_' + clsname, histories_per_object=len(has), max_history=2, violating=vcount, **{k: v for k, v in sorted(tot.items())})
            ck.require(tot['right_operand_with_pending_queue'] > 0 and tot['left_operand_with_pending_queue'] > 0,
                       'eqread: no comparison with a pending queue')
            ck.require(0 < tot['comparisons_expected_equal'] < tot['comparisons'], 'eqread: only one outcome expected')
        bounds.append('eqread: all pairs of histories <= 2 x 4 comparisons')

    if ck.want('native'):
        import itertools
        d0 = dd[-1]
        NATIVE_ALPHA = ['-lfoo', 'libz.a', '/q/libq.so.1', '-Wl,-lbar', '-Wall', '-Ia', '-isystemq', '-isystem' + d0,
                        '-isystem', d0, 'qdir']
        nmax = ck.q(4, 5)
        lists = skipped = 0
        cl = set()
        for clsname in classes:
            for n in range(1, nmax + 1):
                chunks = [(clsname, n, [f]) for f in NATIVE_ALPHA]
                for cnt, sk, cs, v, vn in pmap(native_chunk, chunks):
                    lists += cnt
                    skipped += sk
                    cl |= {(clsname, x) for x in cs}
                    for key, what, rp in v:
                        ck.violation(key, what, rp)
        ck.part('native', alphabet=NATIVE_ALPHA, max_len=nmax, lists=lists, skipped_unspecified=skipped,
                length_change_classes=sorted(cl))
        traces += 2 * lists
        total_trans += 2 * lists
        if not ck.n_viol:
            ck.require(('clike', 2) in cl and ('clike', -1) in cl and ('clike', -2) in cl and ('clike', 1) in cl,
                       'native part did not exercise markers and both default -isystem forms')
        ck.sample({'native_list': ['-isystem' + d0, '-lfoo', '-Wall', 'libz.a'],
                   'expected': ref_native(['-isystem' + d0, '-lfoo', '-Wall', 'libz.a'], 'clike')})

    ck.finish(states=total_states, transitions=total_trans, traces_validated_against_impl=traces,
              reads_with_nonempty_pending_queue=pending_reads,
              skipped_unspecified=ck.parts.get('native', {}).get('skipped_unspecified', 0),
              bounds=bounds,
              rule='breadth-first search over %s operations (read, to_native(copy=True), copy, {append, +=[x], extend([x]), '
                   'append_direct, extend_direct([x]), insert(0,x)} x the arguments of the class (9 C-like/base, 7 D), += [x,y] for all '
                   'ordered pairs) + terminal '
                   'to_native(): all operations on every product state of depth < D, the 4 observers/terminal on every state of '
                   'depth <= D (bounds: %s), for CLikeCompilerArgs, base CompilerArgs and DCompilerArgs (every argument-list class of '
                   'the tree, each with an alphabet covering every kind its tables can produce) bound to the detected gcc; states = distinct '
                   '(real _container, pre, post, needs_override_check [+ same for originals of copies], reference list); every '
                   'transition = replay of the representative history on a fresh real object + one operation; flat part = all '
                   'sequences <= %d over the same operations without merging, each followed by a read; pair part = every '
                   '(history of the left object) x (history of the operand object) over {+= [x] (5 arguments), list(), copy()} x '
                   '10 binary operations whose operand is an argument-list object (+=, extend, extend_direct, +, constructor, '
                   'list + object, the object itself and its copy) [x one following operation on any object], every object '
                   're-read afterwards; seqread part = reversed()/indexing/slicing after every sequence <= 2; native part = all '
                   'lists <= N over 11 linker/-isystem tokens; libfile part = every library-file name shape (location x name form) x all '
                   'sequences <= D over the operations that add it, alone and in two-element batches; tail part = for the classes with '
                   'override options, one variant alphabet per library-file ending in which the value of every override option ends that '
                   'way (-Ia.a, -Dx=.so ...), searched breadth-first to depth 3 with all observers; eqread part = a == b after every pair of histories <= 2' % ('/'.join('%d' % len(OPSETS[c]) for c in CLASSES), '; '.join(bounds), fdepth),
              two_object_cases=pair_cases, sequence_protocol_reads=seq_reads, library_file_shape_sequences=lib_cases,
              equality_comparisons=eq_cases, value_tail_states=tail_states,
              exhaustive=True)


def replay(ck):
    d = json.load(open(ck.args.replay))
    clsname = d['cls']
    kinds = KINDS[clsname]
    # arguments of the libfile part: library-file name shapes (and their D pass-through form) get their kind as in that part
    for o in d.get('ops', []):
        for a in o[1]:
            if a not in kinds:
                lib = a[2:] if a.startswith('-L') else a
                lib_register(clsname, lib)
                print('replay: %r is %s' % (a, KIND_NAMES.get(kinds.get(a), 'left open by the tables')))
    if 'table_kind' in d:
        a = d['table_kind']
        st, tk = STATED.get(clsname, {}).get(a) or (ONCE if stated_library_file(a) else None), table_kind(CLS[clsname], a)
        print('replay: class=%s argument %r: the property statement says %s, the tables of %s say %s'
              % (clsname, a, KIND_NAMES.get(st), CLS[clsname].__name__, KIND_NAMES.get(tk, 'undetermined')))
        print('replay verdict: %s' % ('violation reproduced' if st != tk else 'no violation'))
        sys.exit(1 if st != tk else 0)
    if 'eqread' in d:
        ha = tuple((o[0], tuple(o[1])) for o in d['eqread']['a'])
        hb = tuple((o[0], tuple(o[1])) for o in d['eqread']['b'])
        print('replay: class=%s, a: %s; b: %s; then the comparisons, each on freshly built objects' % (
            clsname, '; '.join(opname(o) for o in ha), '; '.join(opname(o) for o in hb)))
        PAIR_HIST[clsname, 2] = [hb]
        c, v, vn = eqread_chunk((clsname, 2, [ha]))
        for k, what, rp in v:
            print('  STILL VIOLATES %s: %s' % (k, what))
        print('replay verdict: %s' % ('violation reproduced' if v else 'no violation'))
        sys.exit(1 if v else 0)
    if 'pair' in d:
        p = d['pair']
        ha = tuple((o[0], tuple(o[1])) for o in p['a'])
        hb = tuple((o[0], tuple(o[1])) for o in p['b'])
        post = p.get('post')
        if post is not None:
            post = (post[0], post[1] if post[0] == 'bin' else (post[1][0], tuple(post[1][1])))
        steps = [('a', o) for o in ha] + [('b', o) for o in hb] + [('bin', p['bin'])] + ([post] if post is not None else [])
        print('replay: class=%s, two objects a and b (both start empty)' % clsname)
        R = {'a': fresh(clsname), 'b': fresh(clsname), 'c': None}
        M = {'a': [], 'b': [], 'c': None}
        try:
            for r, o in steps:
                print('  ' + pair_opname((r, o)))
                if r == 'bin':
                    pair_bin(R, M, o, clsname, kinds)
                else:
                    R[r], _ = step_real(R[r], [], o)
                    M[r] = ref_step(M[r], o, kinds)
            for r in 'abc':
                if R[r] is not None:
                    print('  %s: expected %r\n     observed %r' % (r, M[r], list(R[r])))
        except Exception as e:
            print('  raised %r' % (e,))
        acc = Acc()
        run_pair(clsname, ha, hb, p['bin'], post, acc)
        for k, what, rp in acc.v:
            print('  STILL VIOLATES %s: %s' % (k, what))
        print('replay verdict: %s' % ('violation reproduced' if acc.v else 'no violation'))
        sys.exit(1 if acc.v else 0)
    ops = [(o[0], tuple(o[1])) for o in d['ops']]
    if 'reader' in d:
        print('replay: class=%s reader=%s' % (clsname, d['reader']))
        for o in ops:
            print('  ' + opname(o))
        acc = Acc()
        run_seqread(clsname, ops, d['reader'], acc)
        for k, what, rp in acc.v:
            print('  STILL VIOLATES %s: %s' % (k, what))
        print('replay verdict: %s' % ('violation reproduced' if acc.v else 'no violation'))
        sys.exit(1 if acc.v else 0)
    print('replay: class=%s init=%r' % (clsname, d.get('init')))
    bad = False
    if 'init' in d:
        lst = d['init']
        obj = fresh(clsname, list(lst))
        exp = ref_native(lst, clsname)
        how = ops[0][0]
        try:
            obs = list(obj.to_native(copy=True) if how == 'tn_copy' else obj.to_native())
        except Exception as e:
            obs = 'raised %r' % (e,)
        print('  %s(%r)\n    expected %r\n    observed %r' % (how, lst, exp, obs))
        bad = obs != exp or (how == 'tn_copy' and list(obj) != lst)
    else:
        acc = Acc()
        for o in ops:
            print('  ' + opname(o))
        key, model, om, ok = run_case(clsname, ops, acc, True)
        if ops[-1][0] not in OBS_NAMES:
            run_case(clsname, ops + [('read', ())], acc, False)
        print('  reference list: %r' % (model,))
        obj = fresh(clsname)
        origs = []
        try:
            for o in ops:
                obj, obs = step_real(obj, origs, o)
            print('  real object   : %r (last observation %r)' % (list(obj) if ops[-1][0] != 'to_native' else obs, obs))
        except Exception as e:
            print('  real object raised %r' % (e,))
        for k, what, rp in acc.v:
            print('  STILL VIOLATES %s: %s' % (k, what))
        bad = bool(acc.v)
    print('replay verdict: %s' % ('violation reproduced' if bad else 'no violation'))
    sys.exit(1 if bad else 0)


run_main(main)
