#!/bin/bash
# Offline setup: build the small C helpers. Everything else is plain Python run by /venv/bin/python.
set -e
cd "$(dirname "$0")"
mkdir -p tools/bin evidence replays
for src in tools/*.c; do
  [ -f "$src" ] || continue
  name="$(basename "$src" .c)"
  case "$name" in
    fsfault) gcc -O2 -shared -fPIC -o tools/bin/fsfault.so "$src" -ldl ;;
    *) gcc -O2 -o "tools/bin/$name" "$src" ;;
  esac
done
echo "setup ok"
