/* argv_dump: records exactly what it was started with.
 *   --dump=FILE   write the record to FILE (else $ARGV_DUMP_OUT, else stdout)
 *   --env=NAME    additionally record the value of environment variable NAME
 *   --tap         print a one-test TAP stream on stdout (for protocol: 'tap' tests)
 * Record format:  "A <argc>\n" then per argument (all of argv[1..], the options above included)
 * "<len>\n<bytes>\n", then per --env: "E <name> <len|-1>\n<bytes>\n".  Binary safe.
 */
#include <stdio.h>
#include <stdlib.h>
#include <string.h>

int main(int argc, char **argv) {
    const char *out = getenv("ARGV_DUMP_OUT");
    int tap = 0;
    for (int i = 1; i < argc; i++) {
        if (strncmp(argv[i], "--dump=", 7) == 0) out = argv[i] + 7;
        else if (strcmp(argv[i], "--tap") == 0) tap = 1;
    }
    FILE *f = out ? fopen(out, "wb") : stdout;
    if (!f) { perror("argv_dump: fopen"); return 3; }
    fprintf(f, "A %d\n", argc - 1);
    for (int i = 1; i < argc; i++) {
        size_t n = strlen(argv[i]);
        fprintf(f, "%zu\n", n);
        fwrite(argv[i], 1, n, f);
        fputc('\n', f);
    }
    for (int i = 1; i < argc; i++) {
        if (strncmp(argv[i], "--env=", 6) == 0) {
            const char *v = getenv(argv[i] + 6);
            if (!v) fprintf(f, "E %s -1\n\n", argv[i] + 6);
            else { fprintf(f, "E %s %zu\n", argv[i] + 6, strlen(v)); fwrite(v, 1, strlen(v), f); fputc('\n', f); }
        }
    }
    if (f != stdout) fclose(f);
    if (tap) { printf("1..1\nok 1\n"); }
    return 0;
}
