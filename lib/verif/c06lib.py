# Helper of checks/c06.py only.
#
# bdio_project(): a project whose *configuration* creates files in the build directory and names / reads them again while
# configuring: the full grid  writer x reader x order  of the documented ways to do either, once in the root
# meson.build and once in a subdir() (so once with an empty and once with a non-empty current subdir).
#
#   writers (how configuration creates file F in the current build dir)
#     cfg    configure_file(output: F, configuration: ...)
#     cap    configure_file(output: F, command: ..., capture: true)
#     cmd    configure_file(output: F, command: [..., '@OUTPUT@'])          (the command writes F itself)
#     copy   configure_file(input: 'in.txt', output: F, copy: true)
#     run    run_command(..., meson.current_build_dir() / F)                 (the command writes F)
#   readers (how configuration names F)
#     none     nobody but the writer
#     runstr   run_command(cat, meson.current_build_dir() / F)              (a string path)
#     runfile  run_command(cat, <file object returned by the writer>)
#     cfgin    configure_file(input: F, output: F.cfgin, configuration: ...)
#     cmdin    configure_file(input: F, output: F.cmdin, command: [..., '@INPUT@', '@OUTPUT@'])
#     depfile  configure_file(..., depfile:) whose command writes a depfile that lists F as a dependency
#   order
#     after    F is named after it was created (it exists whenever it is named)
#     before   F is named by a statement in front of the one that creates it (string paths only: in a fresh build
#              directory F does not exist yet when it is named, in a reconfigured one it does); the reader tolerates a
#              missing file and its result is not used, so the project's meaning does not depend on it
#
# Every cell uses its own file name <writer>_<reader>_<order>.txt, so a difference in generated text names its cell.
import itertools
import typing as T

WRITERS = ['cfg', 'cap', 'cmd', 'copy', 'run']
READERS = ['none', 'runstr', 'runfile', 'cfgin', 'cmdin', 'depfile']
ORDERS = ['after', 'before']


def cells() -> T.List[T.Tuple[str, str, str]]:
    out = []
    for w, r, o in itertools.product(WRITERS, READERS, ORDERS):
        if r == 'none' and o == 'before':
            continue
        if o == 'before' and r not in ('runstr', 'depfile'):
            continue            # a file object / an input must exist when it is named
        if r in ('runfile', 'cfgin', 'cmdin') and w == 'run':
            continue            # run_command() returns no file object (and naming a generated input by string is deprecated)
        out.append((w, r, o))
    return out


def _writer(w: str, var: str, fn: str) -> str:
    if w == 'cfg':
        return "%s = configure_file(output: '%s', configuration: {'K': 'v'})" % (var, fn)
    if w == 'cap':
        return "%s = configure_file(output: '%s', command: [sh, '-c', 'echo cap'], capture: true)" % (var, fn)
    if w == 'cmd':
        return "%s = configure_file(output: '%s', command: [sh, '-c', 'echo cmd > \"$0\"', '@OUTPUT@'])" % (var, fn)
    if w == 'copy':
        return "%s = configure_file(input: 'in.txt', output: '%s', copy: true)" % (var, fn)
    if w == 'run':
        return "run_command(sh, '-c', 'echo run > \"$0\"', bd / '%s', check: true)" % fn
    raise AssertionError(w)


def _reader(r: str, var: str, fn: str, prefix: str) -> str:
    if r == 'none':
        return ''
    if r == 'runstr':
        return "run_command(sh, '-c', 'cat \"$0\" 2>/dev/null; true', bd / '%s', check: true)" % fn
    if r == 'runfile':
        return "run_command(sh, '-c', 'cat \"$0\"', %s, check: true)" % var
    if r == 'cfgin':
        return "configure_file(input: %s, output: '%s.cfgin', configuration: {'K': 'v'})" % (var, fn)
    if r == 'cmdin':
        return "configure_file(input: %s, output: '%s.cmdin', command: [sh, '-c', 'cat \"$0\" > \"$1\"', '@INPUT@', '@OUTPUT@'])" % (var, fn)
    if r == 'depfile':
        return ("configure_file(input: 'in.txt', output: '%s.dep', depfile: '%s.d', command: [sh, '-c', "
                "'cp \"$0\" \"$1\"; echo \"$(basename \"$1\"): $3\" > \"$2\"', '@INPUT@', '@OUTPUT@', '@DEPFILE@', bd / '%s'])" % (fn, prefix + fn, fn))
    raise AssertionError(r)


def _grid(prefix: str, only: T.Optional[T.Sequence[T.Tuple[str, str, str]]]) -> T.Tuple[T.List[str], T.List[str]]:
    lines, owned = [], []
    for w, r, o in (cells() if only is None else only):
        cid = '%s_%s_%s' % (w, r, o)
        fn, var = cid + '.txt', prefix + cid
        ws, rs = _writer(w, var, fn), _reader(r, var, fn, prefix)
        lines += [rs, ws] if o == 'before' else [ws, rs]
        # outputs written by meson itself (held to the "not touched when unchanged" clause); the others are written by
        # the project's own commands, which rewrite them on every configuration
        if w in ('cfg', 'cap', 'copy'):
            owned.append(fn)
        if r == 'cfgin':
            owned.append(fn + '.cfgin')
    return [l for l in lines if l], owned


def bdio_project(lang: T.Optional[str] = None, only: T.Optional[T.Sequence[T.Tuple[str, str, str]]] = None,
                 subgrid: bool = True) -> T.Tuple[T.Dict[str, str], T.List[str]]:
    """-> (files, build-dir relative paths of the configure-time outputs that meson itself writes)"""
    top, owned_top = _grid('r_', only)
    sub, owned_sub = _grid('s_', only) if subgrid else ([], [])
    head = ["project('bdio'%s, meson_version: '>=1.0')" % (", '%s'" % lang if lang else ''), "sh = find_program('sh')"]
    files = {'in.txt': 'x\n', 'sub/in.txt': 'y\n'}
    tail = []
    if lang == 'c':
        files['main.c'] = '#include "conf.h"\nint lf(void); int main(void) { return lf(); }\n'
        files['sub/l.c'] = 'int lf(void) { return 0; }\n'
        head.append("configure_file(output: 'conf.h', configuration: {'CONF': 1})")
        tail = ["executable('e', 'main.c', link_with: l, include_directories: include_directories('.', 'sub'))"]
        sub = sub + ["l = static_library('l', 'l.c')"]
    files['meson.build'] = '\n'.join(head + ['bd = meson.current_build_dir()'] + top + ["subdir('sub')"] + tail) + '\n'
    files['sub/meson.build'] = '\n'.join(['bd = meson.current_build_dir()'] + sub) + '\n'
    return files, owned_top + ['sub/' + p for p in owned_sub]


# A language-less project whose lookups go through wrap files whose `directory =` differs from the wrap name, by wrap name and by
# directory name, with fallback allowed: what is found must not depend on the order in which subprojects/ is listed.
WRAPS_PROJECT = {
    'meson.build': """project('wraps', meson_version: '>=1.0')
cd = configuration_data()
foreach n : ['wfoo', 'wfoo-1.0', 'wbar-2', 'wbar', 'zz-3', 'zz', 'aa', 'aa-0', 'nothere']
  d = dependency(n, required: false, allow_fallback: true)
  cd.set('HAVE_' + n.underscorify(), d.found())
endforeach
configure_file(output: 'have.h', configuration: cd)
""",
    'subprojects/wfoo.wrap': "[wrap-file]\ndirectory = wfoo-1.0\n\n[provide]\nwfoo = wfoo_dep\n",
    'subprojects/wbar.wrap': "[wrap-file]\ndirectory = wbar-2\n\n[provide]\nwbar = wbar_dep\n",
    'subprojects/zz.wrap': "[wrap-file]\ndirectory = zz-3\n\n[provide]\nzz = zz_dep\n",
    'subprojects/aa.wrap': "[wrap-file]\ndirectory = aa-0\n\n[provide]\naa = aa_dep\n",
    'subprojects/wfoo-1.0/meson.build': "project('wfoo', version: '1.0')\nwfoo_dep = declare_dependency()\n",
    'subprojects/wbar-2/meson.build': "project('wbar', version: '2')\nwbar_dep = declare_dependency()\n",
    'subprojects/zz-3/meson.build': "project('zz', version: '3')\nzz_dep = declare_dependency()\n",
    'subprojects/aa-0/meson.build': "project('aa', version: '0')\naa_dep = declare_dependency()\n",
}


# ---------------------------------------------------------------------------------------------------------------------
# Earlier-revision family ("the build directory's history" = it was configured from an earlier revision of the project).
#
# A project is two ordered lists of declarations: the option declarations of meson.options and the statements of
# meson.build that register something with the configuration (dependency lookups, build targets).  The PRESENT revision
# is fixed; an EARLIER revision differs from it by one elementary edit of one of the lists:
#     insert@i   declaration i of the present list did not exist yet            (i in 0..n-1)
#     delete@i   a further declaration stood in front of position i              (i in 0..n)
#     swap@i     declarations i and i+1 stood in the other order                 (i in 0..n-2)
#     retype@i   option i was declared with another type that holds the same value (options that have such a form)
# No edit changes the value any option has (defaults are equal across a retype and a declared default is never edited,
# because a changed default is documented not to reach an existing build directory).  meson.build reads every option
# the revision declares and writes the values into a configure_file output, so that revision and output stay in step.
# Names are chosen so that declaration order is neither alphabetical nor reverse alphabetical.
REV_OPTIONS = [     # (name, declaration, same-valued declaration of another type | None)
    ('mid', "option('mid', type: 'boolean', value: true, description: 'm')", None),
    ('zeta', "option('zeta', type: 'string', value: 'b', description: 'z')",
     "option('zeta', type: 'combo', choices: ['b', 'c'], value: 'b', description: 'z')"),
    ('alpha', "option('alpha', type: 'integer', value: 3, description: 'a')", None),
]
REV_EXTRA_OPTION = ('kappa', "option('kappa', type: 'array', value: ['k'], description: 'k')", None)
REV_SUB_OPTIONS = [
    ('sp_b', "option('sp_b', type: 'string', value: 's', description: 'sb')",
     "option('sp_b', type: 'combo', choices: ['s', 't'], value: 's', description: 'sb')"),
    ('sp_a', "option('sp_a', type: 'boolean', value: false, description: 'sa')", None),
]
REV_EXTRA_SUB_OPTION = ('sp_k', "option('sp_k', type: 'integer', value: 1, description: 'sk')", None)
# statements: (kind, name, text); pkg-config packages come with the project (PKG_CONFIG_PATH names <src>/pc)
REV_STATEMENTS = [
    ('dependency', 'revm', "d_revm = dependency('revm')"),
    ('dependency', 'revz', "d_revz = dependency('revz')"),
    ('dependency', 'reva', "d_reva = dependency('reva')"),
]
REV_EXTRA_STATEMENT = ('dependency', 'revk', "d_revk = dependency('revk')")
REV_C_STATEMENTS = [
    ('target', 'em', "executable('em', 'e.c', dependencies: d_revm)"),
    ('target', 'ez', "executable('ez', 'e.c')"),
]
REV_EXTRA_C_STATEMENT = ('target', 'ek', "executable('ek', 'e.c')")
# languages of project() beyond the one the targets are written in (order neither alphabetical nor reverse); the C project only
REV_LANGUAGES = [('language', 'fortran', ''), ('language', 'cpp', '')]
REV_EXTRA_LANGUAGE = ('language', 'objc', '')
REV_LISTS = ['options', 'suboptions', 'statements', 'languages']


def rev_present(lang: T.Optional[str]) -> T.Dict[str, list]:
    return {'options': list(REV_OPTIONS), 'suboptions': list(REV_SUB_OPTIONS),
            'statements': list(REV_STATEMENTS) + (list(REV_C_STATEMENTS) if lang else []),
            'languages': list(REV_LANGUAGES) if lang else []}


def rev_extra(lang: T.Optional[str], which: str):
    return {'options': REV_EXTRA_OPTION, 'suboptions': REV_EXTRA_SUB_OPTION,
            'statements': REV_EXTRA_C_STATEMENT if lang else REV_EXTRA_STATEMENT, 'languages': REV_EXTRA_LANGUAGE}[which]


def rev_edits(lang: T.Optional[str], which: str) -> T.List[T.Tuple[str, int]]:
    """all elementary edits of list `which`, simplest first"""
    decls = rev_present(lang)[which]
    n = len(decls)
    out = [('insert', i) for i in range(n)] + [('swap', i) for i in range(n - 1)]
    if which not in ('statements', 'languages'):
        out += [('retype', i) for i in range(n) if decls[i][2] is not None]
    out += [('delete', i) for i in range(n + 1)]
    if which == 'statements' and lang:
        # a target that uses a dependency cannot stand in front of its lookup, nor exist without it
        def ok(e):
            names = [d[1] for d in rev_apply(decls, e, rev_extra(lang, which))]
            return 'em' not in names or ('revm' in names and names.index('revm') < names.index('em'))
        out = [e for e in out if ok(e)]
    return out


def rev_apply(decls: list, edit: T.Tuple[str, int], extra) -> list:
    """the earlier form of the list `decls`"""
    k, i = edit
    if k == 'insert':
        return decls[:i] + decls[i + 1:]
    if k == 'delete':
        return decls[:i] + [extra] + decls[i:]
    if k == 'swap':
        return decls[:i] + [decls[i + 1], decls[i]] + decls[i + 2:]
    if k == 'retype':
        return decls[:i] + [(decls[i][0], decls[i][2], decls[i][1])] + decls[i + 1:]
    raise AssertionError(edit)


def rev_edited_kind(decls: list, edit: T.Tuple[str, int], extra, which: str) -> str:
    """kind of the declaration the edit is about: option / dependency / target"""
    if which == 'languages':
        return 'language'
    if which != 'statements':
        return 'option' if which == 'options' else 'subproject-option'
    k, i = edit
    return extra[0] if k == 'delete' else decls[i][0]


def rev_project(lang: T.Optional[str], lists: T.Dict[str, list]) -> T.Dict[str, str]:
    opts, sub, stmts = lists['options'], lists['suboptions'], lists['statements']
    files = {'meson.options': ''.join(d[1] + '\n' for d in opts),
             'subprojects/sp/meson.options': ''.join(d[1] + '\n' for d in sub)}
    for n in ('revm', 'revz', 'reva', 'revk'):
        files['pc/%s.pc' % n] = 'Name: %s\nDescription: %s\nVersion: 1.0\nCflags: -DHAVE_%s\nLibs:\n' % (n, n, n.upper())
    langs = ([lang] if lang else []) + [d[1] for d in lists.get('languages', [])]
    mb = ["project('rev'%s, version: '1.0', meson_version: '>=1.1')" % ''.join(", '%s'" % x for x in langs), 'cd = configuration_data()']
    for name, decl, _ in opts:
        if "'array'" in decl:
            mb.append("cd.set_quoted('O_%s', ' '.join(get_option('%s')))" % (name.upper(), name))
        elif "'string'" in decl or "'combo'" in decl:
            mb.append("cd.set_quoted('O_%s', get_option('%s'))" % (name.upper(), name))
        else:
            mb.append("cd.set('O_%s', get_option('%s'))" % (name.upper(), name))
    mb.append("configure_file(output: 'revconf.h', configuration: cd)")
    mb += [s[2] for s in stmts]
    mb.append("subproject('sp')")
    files['meson.build'] = '\n'.join(mb) + '\n'
    sb = ["project('sp', version: '0.1')", 'scd = configuration_data()']
    for name, decl, _ in sub:
        sb.append(("scd.set_quoted('S_%s', get_option('%s'))" if ("'string'" in decl or "'combo'" in decl) else "scd.set('S_%s', get_option('%s'))") % (name.upper(), name))
    sb.append("configure_file(output: 'spconf.h', configuration: scd)")
    files['subprojects/sp/meson.build'] = '\n'.join(sb) + '\n'
    if lang:
        files['e.c'] = 'int main(void) { return 0; }\n'
    return files
