# Arming side of tools/fsfault.c (E7).  `arm` is used as a mesonproc pre-hook: it runs in the forked child that is
# about to execute a meson command; the shim must already be loaded (Server(ld_preload=SHIM)).
import ctypes, os
from .core import VERIF

SHIM = os.path.join(VERIF, 'tools', 'bin', 'fsfault.so')


def arm(prefix: str, kill_at: int, logpath: str, tear: int = 0) -> None:
    lib = ctypes.CDLL(None)
    lib.verif_arm.argtypes = [ctypes.c_char_p, ctypes.c_int, ctypes.c_char_p, ctypes.c_int]
    lib.verif_arm(prefix.encode(), int(kill_at), (logpath or '').encode(), int(tear))


def read_log(logpath: str):
    """-> list of (index, op, size, path)"""
    out = []
    try:
        with open(logpath, 'r', errors='replace') as f:
            for l in f:
                parts = l.rstrip('\n').split(' ', 3)
                if len(parts) == 4:
                    out.append((int(parts[0]), parts[1], int(parts[2]), parts[3]))
    except OSError:
        pass
    return out


def arm_sorted(prefix: str, kill_at: int, logpath: str, tear: int = 0) -> None:
    """Like arm(), but first pins the directory-listing order (sorted): the order in which e.g. `--wipe` deletes files
    follows readdir order, which on tmpfs depends on the creation history of the directory and so differs between a
    directory and its restored snapshot.  Pinning it makes the mutation sequence of a command reproducible."""
    from . import hooks
    hooks.dirlist_order('sorted')
    arm(prefix, kill_at, logpath, tear)
