# C09 - a killed meson command never bricks the build directory.
# Fault enumeration: for every (history, mutating command) pair one counting run under the LD_PRELOAD shim
# tools/fsfault.c lists the N file-system mutations the command issues below the build directory; then for EVERY
# k in 1..N the command is re-run from the same directory snapshot and the process is killed (_exit) immediately
# before mutation k (thorough: additionally torn in the middle of every write); the prescribed recovery
# (`meson setup`, with --reconfigure iff coredata.dat exists) must succeed and every tracked option must have its
# old value or the value the interrupted command was setting.
import json, os, re, shutil, sys
from verif.core import Check, pmap, run_main, scratch_root, NCPU
from verif import fsutil

PROJECT = {
    'meson.build': '''project('crash', default_options: ['warning_level=1'])
if get_option('boom')
  error('boom requested')
endif
message('VOPT|x|' + get_option('x') + '|END')
message('VOPT|c|' + get_option('c') + '|END')
configure_file(output: 'conf.h', configuration: {'X': get_option('x')})
subproject('sub')
''',
    'meson.options': "option('x', type: 'string', value: 'xdef')\noption('c', type: 'combo', choices: ['a', 'b', 'c'], value: 'a')\noption('boom', type: 'boolean', value: false)\n",
    'subprojects/sub/meson.build': "project('sub')\nmessage('VOPT|sub_wl|' + get_option('warning_level') + '|END')\nmessage('VOPT|sub_y|' + get_option('y') + '|END')\n",
    'subprojects/sub/meson.options': "option('y', type: 'string', value: 'ydef')\n",
}
NF_INI = "[project options]\nx = 'nat'\nc = 'b'\n\n[sub:project options]\ny = 'ynat'\n\n[sub:built-in options]\nwarning_level = '2'\n"
PROJECT['nf.ini'] = NF_INI
CPROJECT = {
    'meson.build': PROJECT['meson.build'].replace("project('crash',", "project('crash', 'c',") + "executable('e', 'e.c')\nstatic_library('l', 'l.c')\n",
    'meson.options': PROJECT['meson.options'],
    'e.c': 'int main(void) { return 0; }\n', 'l.c': 'int l(void) { return 0; }\n', 'nf.ini': NF_INI,
    'subprojects/sub/meson.build': PROJECT['subprojects/sub/meson.build'],
    'subprojects/sub/meson.options': PROJECT['subprojects/sub/meson.options'],
}

# a Fortran project with the ninja backend: the backend keeps per-target scan data (<target>.p/*.dat, *.json) besides the manifest
FPROJECT = dict(CPROJECT)
FPROJECT['meson.build'] = PROJECT['meson.build'].replace("project('crash',", "project('crash', 'fortran',") + "executable('fe', 'fe.f90', 'fm.f90')\nstatic_library('fl', 'fm.f90')\n"
FPROJECT['fe.f90'] = 'program fe\n  use fm\n  call hello()\nend program fe\n'
FPROJECT['fm.f90'] = 'module fm\ncontains\n  subroutine hello()\n  end subroutine hello\nend module fm\n'

# the same language-less project with the ninja backend (a custom target gives the manifest something to say): the recovery
# has to leave a build.ninja that ninja can read
NPROJECT = dict(PROJECT)
NPROJECT['meson.build'] = PROJECT['meson.build'] + "custom_target('ct', output: 'ct.txt', command: ['touch', '@OUTPUT@'], build_by_default: true)\n"

# histories: lists of commands (argv after 'meson') run before the command under test; 'B' stands for the build dir
HISTORIES = {
    'fresh': [],
    'configured': [['setup', 'B', '-Dx=old', '-Dsub:warning_level=3', '-Dsub:y=yold']],
    'configured+configure': [['setup', 'B', '-Dx=old', '-Dsub:warning_level=3', '-Dsub:y=yold'], ['configure', 'B', '-Dc=b']],
    # values that live in coredata.dat only (a machine file is read when the directory is first configured)
    'native-file': [['setup', 'B', '--native-file', 'NF']],
    # the machine file arrives through a pipe: meson keeps a private copy inside the build directory and records that
    'native-pipe': [['setup', 'B', '--native-file', 'PIPE']],
    'failed-reconfigure': [['setup', 'B', '-Dx=old', '-Dsub:warning_level=3', '-Dsub:y=yold'], ['setup', '--reconfigure', 'B', '-Dboom=true'], ['configure', 'B', '-Dboom=false']],
}
# commands under test: name -> (argv, {option: set of allowed values after recovery, given the value before})
COMMANDS = {
    'setup-fresh': (['setup', 'B', '-Dx=new', '-Dsub:warning_level=3'], {'x': 'new', 'sub_wl': '3'}),
    'reconfigure-D': (['setup', '--reconfigure', 'B', '-Dx=new'], {'x': 'new'}),
    'wipe': (['setup', '--wipe', 'B'], {}),
    'wipe-pipe': (['setup', '--wipe', 'B', '--native-file', 'PIPE'], {}),
    'configure-D': (['configure', 'B', '-Dx=new', '-Dc=c'], {'x': 'new', 'c': 'c'}),
    'configure-U': (['configure', 'B', '-Usub:warning_level'], {'sub_wl': '1'}),
    'configure-D-sub': (['configure', 'B', '-Dsub:y=ynew'], {'sub_y': 'ynew'}),
}
PAIRS = [('fresh', 'setup-fresh')] + [(h, c) for h in ('configured', 'configured+configure', 'failed-reconfigure', 'native-file') for c in ('reconfigure-D', 'wipe', 'configure-D', 'configure-U', 'configure-D-sub')]
PAIRS += [('native-pipe', c) for c in ('wipe-pipe', 'wipe', 'reconfigure-D', 'configure-D')]


def feed_pipe(argv, root):
    """'PIPE' in argv -> a fresh FIFO fed with the machine file by a helper process (to be killed by the caller afterwards)"""
    if 'PIPE' not in argv:
        return argv, None
    import subprocess
    fifo = os.path.join(root, 'nf.fifo')
    if os.path.lexists(fifo):
        os.unlink(fifo)
    os.mkfifo(fifo)
    feeder = subprocess.Popen(['sh', '-c', 'exec cat "$0" > "$1"', os.path.join(root, 'src', 'nf.ini'), fifo], stdin=subprocess.DEVNULL, stdout=subprocess.DEVNULL, stderr=subprocess.DEVNULL)
    return [fifo if x == 'PIPE' else x for x in argv], feeder


def stop_feeder(feeder):
    if feeder is not None:
        feeder.kill()
        feeder.wait()

_server = None
_states = {}
FOLLOW_WIPE = False      # thorough: the follow-up commands end with setup --wipe


def server():
    global _server
    if _server is None:
        from verif import mesonproc as mp, fsfault
        _server = mp.Server(ld_preload=fsfault.SHIM)
    return _server


def observe(out):
    return {m.group(1): m.group(2) for m in re.finditer(r'Message: VOPT\|(\w+)\|(.*?)\|END', out)}


BNAMES = {'nolang-glob': 'b[1]*?x'}      # project variant -> name of the build directory (characters glob treats specially)


def bname_of(pname):
    return BNAMES.get(pname, 'b')


def prepare(root, proj, backend, history, bname='b'):
    """build the state before the command under test; returns (snapshot of B, observed option values)"""
    from verif import mesonproc as mp
    src = os.path.join(root, 'src')
    bdir = os.path.join(root, bname)
    shutil.rmtree(root, ignore_errors=True)
    mp.write_tree(src, proj)
    env = mp.base_env(home=os.path.join(root, 'home'))
    vals = {}
    for argv in HISTORIES[history]:
        a = [bdir if x == 'B' else os.path.join(src, 'nf.ini') if x == 'NF' else x for x in argv]
        if a[0] == 'setup' and '--reconfigure' not in a:
            a = a[:2] + [src] + a[2:] + ['--backend=' + backend]
        a, feeder = feed_pipe(a, root)
        r = mp.run_meson(a, src, env=env)
        stop_feeder(feeder)
        vals.update(observe(r.out))
    snap = fsutil.snapshot(bdir)
    if snap is not None:
        # ground truth of the state before the command under test: what the build files see on a plain reconfigure
        # (observed on the directory itself, which is then restored from the snapshot)
        r = mp.run_meson(['setup', '--reconfigure', bdir], src, env=env)
        if r.rc == 0:
            vals = observe(r.out)
        fsutil.restore(bdir, snap)
    return snap, vals


def argv_for(cmdname, root, backend, bname='b'):
    argv, _ = COMMANDS[cmdname]
    bdir = os.path.join(root, bname)
    a = [bdir if x == 'B' else x for x in argv]
    if cmdname == 'setup-fresh':
        a = a[:2] + [os.path.join(root, 'src')] + a[2:] + ['--backend=' + backend]
    return a


def trial(job):
    """one kill point: restore, run killed, recover, judge"""
    from verif import mesonproc as mp
    pname, proj, backend, history, cmdname, k, tear = job
    root = os.path.join(scratch_root(), 'c09.%d' % os.getpid())
    src = os.path.join(root, 'src')
    bname = bname_of(pname)
    bdir = os.path.join(root, bname)
    # the state before the command is prepared once per worker at the worker's own path (a build directory records
    # absolute paths, so a snapshot is only valid where it was made)
    ck_ = (pname, history)
    if ck_ not in _states:
        _states[ck_] = prepare(root, proj, backend, history, bname)
    snap, before = _states[ck_]
    if not os.path.isdir(src):
        mp.write_tree(src, proj)
    fsutil.restore(bdir, snap)
    env = mp.base_env(home=os.path.join(root, 'home'))
    cargv, feeder = feed_pipe(argv_for(cmdname, root, backend, bname), root)
    r = server().run(cargv, src, env=env, pre=('verif.fsfault', 'arm_sorted', (bdir, k, '', tear)))
    stop_feeder(feeder)
    killed = r.rc == 137
    # recovery as the property prescribes
    if os.path.exists(os.path.join(bdir, 'meson-private', 'coredata.dat')):
        rec = ['setup', '--reconfigure', bdir]
    else:
        rec = argv_for('setup-fresh', root, backend, bname) if cmdname == 'setup-fresh' else ['setup', bdir, src, '--backend=' + backend]
    rr = mp.run_meson(rec, src, env=env)
    res = {'k': k, 'killed': killed, 'rec_rc': rr.rc, 'viol': None, 'outcome': None}
    what = '%s / %s / %s killed before mutation %d%s' % (pname, history, cmdname, k, ' (torn write)' if tear else '')
    if rr.unhandled:
        kind = 'unhandled-exception'
        m = re.search(r'(\w+(?:Error|Exception)): (.*)', rr.out[rr.out.find('Traceback'):] if 'Traceback' in rr.out else rr.out)
        exc = m.group(1) if m else 'unknown'
        res['viol'] = ('C09:recovery-crashes:%s:%s' % (cmdname, exc), '%s: recovery `%s` dies with an unhandled exception: %s' % (what, ' '.join(rec[:2]), rr.out[-300:]))
        return res
    if rr.rc != 0:
        res['viol'] = ('C09:recovery-fails:%s' % cmdname, '%s: recovery `%s` fails (rc %d): %s' % (what, ' '.join(rec[:2]), rr.rc, rr.out[-300:]))
        return res
    if backend == 'ninja':
        # "no state file is left unreadable": the manifest the recovery wrote is a valid Ninja manifest
        from verif import refninja as rn
        try:
            mf = rn.parse_file(os.path.join(bdir, 'build.ninja'))
            errs = list(mf.errors) + mf.validate(bdir)
        except (rn.NinjaError, OSError) as e:
            errs = [str(e)]
        if errs:
            res['viol'] = ('C09:recovery-leaves-invalid-manifest:%s' % cmdname, '%s: after the recovery build.ninja is not a valid manifest: %s' % (what, '; '.join(errs[:3])[:300]))
            return res
    after = observe(rr.out)
    _, newvals = COMMANDS[cmdname]
    bad = []
    sig = []
    for opt in ('x', 'c', 'sub_wl', 'sub_y'):
        allowed = {before.get(opt, {'x': 'xdef', 'c': 'a', 'sub_wl': '1', 'sub_y': 'ydef'}[opt])}
        if opt in newvals:
            allowed.add(newvals[opt])
        if after.get(opt) not in allowed:
            bad.append('%s=%r (allowed %s)' % (opt, after.get(opt), sorted(allowed)))
        sig.append(after.get(opt))
    res['outcome'] = tuple(sig)
    if bad:
        res['viol'] = ('C09:option-value:%s' % cmdname, '%s: after recovery %s' % (what, ', '.join(bad)))
        return res
    # "never bricks": the recovered directory is a build directory like any other - the next commands work on it and keep
    # the values the recovery arrived at
    follow = [['configure', bdir, '-Dc=b'], ['setup', '--reconfigure', bdir]] + ([['setup', '--wipe', bdir]] if FOLLOW_WIPE else [])
    for fa in follow:
        fr = mp.run_meson(fa, src, env=env)
        fname = ' '.join(fa[:2])
        if fr.unhandled:
            m = re.search(r'(\w+(?:Error|Exception)): (.*)', fr.out[fr.out.find('Traceback'):] if 'Traceback' in fr.out else fr.out)
            res['viol'] = ('C09:after-recovery:crashes:%s:%s' % (fa[0] + ('-wipe' if '--wipe' in fa else ''), m.group(1) if m else 'unknown'),
                           '%s: the recovery succeeded, but the next `%s` dies with an unhandled exception: %s' % (what, fname, fr.out[-300:]))
            return res
        if fr.rc != 0:
            res['viol'] = ('C09:after-recovery:fails:%s' % (fa[0] + ('-wipe' if '--wipe' in fa else '')),
                           '%s: the recovery succeeded, but the next `%s` fails (rc %d): %s' % (what, fname, fr.rc, fr.out[-300:]))
            return res
        if fa[0] == 'setup':
            later = observe(fr.out)
            exp = dict(after, c='b')
            diff = ['%s=%r (was %r)' % (o, later.get(o), exp.get(o)) for o in ('x', 'c', 'sub_wl', 'sub_y') if later.get(o) != exp.get(o)]
            if diff:
                res['viol'] = ('C09:after-recovery:option-value:%s' % ('wipe' if '--wipe' in fa else 'reconfigure'),
                               '%s: after recovery, `configure -Dc=b` and `%s`: %s' % (what, ' '.join(fa[:2]), ', '.join(diff)))
                return res
    return res


def count_points(job):
    from verif import mesonproc as mp, fsfault
    pname, proj, backend, history, cmdname = job
    root = os.path.join(scratch_root(), 'c09c.%d' % os.getpid())
    bname = bname_of(pname)
    snap, before = prepare(root, proj, backend, history, bname)
    bdir = os.path.join(root, bname)
    log = os.path.join(root, 'mut.log')
    env = mp.base_env(home=os.path.join(root, 'home'))
    src = os.path.join(root, 'src')
    cargv, feeder = feed_pipe(argv_for(cmdname, root, backend, bname), root)
    r = server().run(cargv, src, env=env, pre=('verif.fsfault', 'arm_sorted', (bdir, 0, log, 0)))
    stop_feeder(feeder)
    points = fsfault.read_log(log)
    # a second counting run must list the same mutations (determinism of the enumeration)
    fsutil.restore(bdir, snap)
    cargv, feeder = feed_pipe(argv_for(cmdname, root, backend, bname), root)
    r2 = server().run(cargv, src, env=env, pre=('verif.fsfault', 'arm_sorted', (bdir, 0, log, 0)))
    stop_feeder(feeder)
    points2 = fsfault.read_log(log)
    # (names made by tempfile.mkstemp/mkdtemp - compiler checks - differ between any two runs)
    def norm(path):
        path = re.sub(r'/[0-9a-f]{8}-[0-9a-f]{4}-[0-9a-f]{4}-[0-9a-f]{4}-[0-9a-f]{12}(?=\.)', '/<uuid>', path)    # private copy of a piped machine file
        return re.sub(r'/tmp[A-Za-z0-9_]{8}(?=/|$|\.)', '/tmp*', path)
    same = [(p[1], norm(p[3])) for p in points] == [(p[1], norm(p[3])) for p in points2]
    if not same:
        import difflib
        a = ['%s %s' % (p[1], norm(p[3])) for p in points]
        b = ['%s %s' % (p[1], norm(p[3])) for p in points2]
        sys.stderr.write('mutation sequences differ (%s/%s/%s):\n' % (job[0], job[3], job[4]) + '\n'.join(list(difflib.unified_diff(a, b, lineterm='', n=1))[:40]) + '\n')
    shutil.rmtree(root, ignore_errors=True)
    return (job, snap, before, points, r.rc, same)


def main():
    ck = Check('C09', 'fault_enumeration')
    from verif import mesonproc as mp, fsfault
    if not os.path.exists(fsfault.SHIM):
        ck.internal('tools/bin/fsfault.so missing: run ./setup.sh')
    mp.preimport()
    projects = [('nolang', PROJECT, 'none'), ('nolang-ninja', NPROJECT, 'ninja'), ('nolang-glob', PROJECT, 'none')]
    if shutil.which('gfortran'):
        projects.append(('fortran-ninja', FPROJECT, 'ninja'))
    if ck.thorough:
        projects.append(('c-ninja', CPROJECT, 'ninja'))
        global FOLLOW_WIPE
        FOLLOW_WIPE = True
    if ck.args.replay:
        d = json.load(open(ck.args.replay))
        proj = {'nolang': PROJECT, 'nolang-ninja': NPROJECT, 'nolang-glob': PROJECT, 'fortran-ninja': FPROJECT}.get(d['project'], CPROJECT)
        backend = 'none' if d['project'] in ('nolang', 'nolang-glob') else 'ninja'
        job, snap, before, points, rc, same = count_points((d['project'], proj, backend, d['history'], d['command']))
        res = trial((d['project'], proj, backend, d['history'], d['command'], d['k'], d.get('tear', 0)))
        print(res)
        sys.exit(1 if res['viol'] else 0)
    # the ninja-backend variant of the language-less project: in quick only the commands that write the manifest, on two histories
    NPAIRS = [('fresh', 'setup-fresh'), ('configured', 'reconfigure-D'), ('configured', 'wipe'), ('failed-reconfigure', 'reconfigure-D')]
    # a build directory whose name holds characters that glob treats specially: in quick the commands that list / delete files
    GPAIRS = [('fresh', 'setup-fresh'), ('configured', 'wipe'), ('native-file', 'wipe'), ('configured', 'reconfigure-D')]
    # the Fortran project: in quick the commands that write the backend's per-target scan data
    FPAIRS = [('fresh', 'setup-fresh'), ('configured', 'reconfigure-D')]
    cjobs = [(pn, pj, be, h, c) for pn, pj, be in projects for h, c in PAIRS
             if ck.thorough or (pn == 'nolang') or (pn == 'nolang-ninja' and (h, c) in NPAIRS) or (pn == 'nolang-glob' and (h, c) in GPAIRS)
             or (pn == 'fortran-ninja' and (h, c) in FPAIRS)]
    trials = []
    tot = {'pairs': 0, 'mutation_points': 0, 'trials': 0, 'killed': 0, 'log_only_points_grouped': 0}
    per_pair = {}
    for job, snap, before, points, rc, same in pmap(count_points, cjobs, chunksize=1):
        pn, pj, be, h, c = job
        if not same:
            ck.internal('mutation sequence of %s/%s/%s is not deterministic' % (pn, h, c))
        if rc != 0:
            ck.internal('command under test fails without a fault: %s/%s/%s' % (pn, h, c))
        tot['pairs'] += 1
        tot['mutation_points'] += len(points)
        per_pair['%s/%s/%s' % (pn, h, c)] = len(points)
        ks = []
        if ck.thorough:
            ks = [(p[0], 0) for p in points] + [(p[0], 1) for p in points if p[1] == 'write' and p[2] > 1]
        else:
            # reduction (argument in DESIGN.md): between two kill points that are separated only by mutations of
            # meson-logs/* the directory differs only inside meson-logs, which recovery never reads; of each such run of
            # log-only mutations only the first and last are explored
            i = 0
            n = len(points)
            while i < n:
                is_log = '/meson-logs/' in points[i][3]
                if not is_log:
                    ks.append((points[i][0], 0))
                    i += 1
                    continue
                j = i
                while j + 1 < n and '/meson-logs/' in points[j + 1][3]:
                    j += 1
                ks.append((points[i][0], 0))
                if j > i:
                    ks.append((points[j][0], 0))
                    tot['log_only_points_grouped'] += j - i - 1
                i = j + 1
        for k, tear in ks:
            trials.append((pn, pj, be, h, c, k, tear))
    outcomes = set()
    for t, res in zip(trials, pmap(trial, trials, chunksize=4)):
        tot['trials'] += 1
        tot['killed'] += 1 if res['killed'] else 0
        if res['outcome']:
            outcomes.add((t[4], res['outcome']))
        if res['viol']:
            key, what = res['viol']
            ck.violation(key, what, {'project': t[0], 'history': t[3], 'command': t[4], 'k': t[5], 'tear': t[6]})
    ck.part('enumeration', **tot)
    ck.part('points_per_pair', **per_pair)
    ck.sample({'pair': 'nolang/configured/configure-D', 'trial': 'restore snapshot; run under shim killed before mutation k; recover; read VOPT messages'})
    ck.require(tot['killed'] > tot['trials'] * 0.9 and len(outcomes) >= 6, 'kills did not happen or too few distinct recovery outcomes (%d)' % len(outcomes))
    ck.assume('process-kill consistency at libc-call granularity (tools/fsfault.c); power-loss semantics (lost unsynced pages) are not modelled')
    ck.assume('only mutations issued by the meson process itself are kill points (compilers and other children run to completion)')
    ck.finish(evaluations=tot['trials'], distinct_nontrivial=len(outcomes),
              rule='every mutation point of each (history, command) pair: %d pairs over histories %s and commands %s on %s; quick explores the first and last point of every run of '
                   'log-only mutations and every other point, thorough every point plus a torn variant of every write. distinct_nontrivial = distinct (command, recovered option tuple) outcomes'
                   % (len(PAIRS), sorted(HISTORIES), sorted(COMMANDS), [p[0] for p in projects]),
              exhaustive=True)


run_main(main)
