# C02, part "pairs": one process parses many files (the root build file, every subdir() file, option files).  The verdict
# for a text must not depend on what the same process parsed before: every ordered pair (A, B) of a set of texts is run in a
# brand-new interpreter (A, then B) and B's outcome is compared with B alone in a brand-new interpreter.
import json, os, subprocess, sys
from .core import REPO, InternalError

ML = "'" * 3
PAIR_TEXTS = [
    "x = 1\n",
    "# SPDX-License-Identifier: Apache-2.0\n\nproject('p', 'c')\n",
    "\n\n  x = f(a, [1, 2])\n",
    "\t# indented comment\nif a\n  y = [\n    1,  # c\n  ]\nendif\n",
    "x = " + ML + "m\nl" + ML + "\ny = f(x)\n",
    "x = (\n",                         # rejected at end of input
    "x = f(a: 1, b\n",                 # rejected
    "  # only a comment",
    "",
    "x = a ? b : c\n\n\n# trailing\n",
    "foreach i : l\n  continue\nendforeach\n",
    "x = 1 +\n",
    "\\\n x = [ 'a' , 'b' ] \n",
    "x = f'@a@' not in d\n",
]
_SNIPPET = """
import json, sys
sys.path.insert(0, %r); sys.path.insert(0, %r)
from verif import c02core as cc
texts = json.loads(sys.argv[1])
out = None
for t in texts:
    o = cc.evaluate(t, False)
    out = [o.cls, o.sig, list(o.errpos) if o.errpos else None, sorted(k for k, _ in o.viol), [w for _, w in o.viol][:2]]
print(json.dumps(out))
"""


def fresh_outcome(texts):
    """Outcome of the LAST text after the others were evaluated, all in one brand-new interpreter.
    -> [cls, sig, errpos, violation keys, first violation texts]"""
    lib = os.path.dirname(os.path.dirname(os.path.abspath(__file__)))
    env = dict(os.environ)
    env['VERIF_REPO'] = REPO
    r = subprocess.run([sys.executable, '-X', 'utf8', '-c', _SNIPPET % (REPO, lib), json.dumps(texts)],
                       capture_output=True, text=True, env=env, timeout=300)
    if r.returncode != 0:
        raise InternalError('fresh interpreter failed: ' + r.stderr[-400:])
    return json.loads(r.stdout.strip().splitlines()[-1])


def pairs_job(item):
    i, j = item
    if i is None:
        return (i, j, fresh_outcome([PAIR_TEXTS[j]]))
    return (i, j, fresh_outcome([PAIR_TEXTS[i], PAIR_TEXTS[j]]))
