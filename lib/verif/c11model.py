# C11 helper: generator of install-rule projects and the *reference install model*.
#
# Everything here is written from the documentation (docs/markdown/Installing.md, docs/yaml/functions/install_*.yaml,
# shared_library.yaml, Builtin-options.md, IDE-integration.md "Install plan") and the C11 property text.  Nothing is
# read from install.dat and nothing is imported from mesonbuild.  The model of one generated project is a list of
# Entry objects (what must exist, where, with which type / mode / link target / content source / tag / subproject).
from __future__ import annotations
import os
import typing as T

STYLES = ('plain', 'space', 'uni')
MODES = ('unset', 'sym', 'suid')
UMASKS = ('022', '077', 'preserve')
PREFIXES = ('/usr', '/opt/x y')
DESTDIRS = ('abs', 'rel', 'none')

MODE_SRC = {'unset': None, 'sym': "'r-xr-x---'", 'suid': "['rwsr-x---', 0, 0]"}
MODE_BITS = {'unset': None, 'sym': 0o550, 'suid': 0o4750}

UNSPEC = None   # "mode not specified by the docs": never compared


def nm(style: str, base: str, ext: str = '') -> str:
    if style == 'plain':
        s = base
    elif style == 'space':
        s = base[:2] + ' ' + base[2:]
    else:
        s = base + 'é漢'
    return s + ext


def q(s: str) -> str:
    assert "'" not in s and '\\' not in s and '\n' not in s
    return "'" + s + "'"


class Entry:
    """One thing the install step must create.
    where: ('rel', path below the prefix) | ('abs', absolute system path, re-rooted under DESTDIR)
    kind:  'file' | 'link' | 'dir'
    src:   ('src', path relative to the source root) | ('build', path relative to the build root) | None
    mode:  explicit install_mode bits or None (=> default permissions masked by install_umask)
    """
    __slots__ = ('where', 'kind', 'src', 'mode', 'target', 'tag', 'tag_spec', 'sub', 'rule', 'alias', 'oc_unspec', 'cands',
                 'dirlink')

    def __init__(self, where, kind, rule, src=None, mode=None, target=None, tag=None, tag_spec=True, sub='', alias=False,
                 oc_unspec=False, cands=None, dirlink=None):
        self.where = where
        self.kind = kind
        self.src = src
        self.mode = mode
        self.target = target
        self.tag = tag
        self.tag_spec = tag_spec      # False: the docs do not say which tag this entry carries
        self.sub = sub
        self.rule = rule
        self.alias = alias            # library alias symlink: only the resolution is compared, not the literal target
        self.oc_unspec = oc_unspec    # behaviour under --only-changed not specified (symlink copied as a link)
        # no install_tag given: the set of tags the documentation allows for this entry (None in the set = "untagged").
        # One element: the tag is specified; several: the documented rules overlap / are silent, any of them is accepted.
        self.cands = cands
        # 'follow' | 'nofollow': the entry stands for a symlink to a DIRECTORY inside an install_subdir() source tree
        self.dirlink = dirlink


class Rule:
    def __init__(self, rid: str, style: str, mode: str):
        self.rid = rid
        self.style = style
        self.mode = mode
        self.snippet = ''
        self.files: T.Dict[str, T.Tuple[str, int]] = {}     # source-relative path -> (content, mode)
        self.links: T.Dict[str, str] = {}                    # source-relative symlinks
        self.entries: T.List[Entry] = []
        self.plan: T.List[T.Tuple[str, T.Tuple[str, str], T.Tuple[str, str], T.Optional[str]]] = []
        #            (section, ('src'|'build', rel), where, tag)
        self.needs_c = False
        self.has_mode = True
        self.guess: T.Optional[str] = None      # destination id within the implicit-tag family (see guess_rules)
        self.gkind: T.Optional[str] = None
        self.gone_after_setup: T.List[str] = []             # source-relative paths that disappear between `meson setup` and the install
        self.optional_dirs: T.List[T.Tuple[str, str]] = []  # directories that the docs neither demand nor forbid (see _r_dotdot)
        self.may_reject = False                 # `meson setup` may refuse the rule (counted, nothing is compared then)
        self.key_class: T.Optional[str] = None  # input class that names the violation keys of the projects holding this rule
        self.key_whole = False                  # the class is the whole key (no symptom): used where one defect derails the whole install


def _modekw(mode: str) -> str:
    return '' if mode == 'unset' else ', install_mode: ' + MODE_SRC[mode]


def r_data_default(s, m, ab):
    r = Rule('data_default', s, m)
    f = nm(s, 'dflt', '.txt')
    r.snippet = 'install_data(%s%s)' % (q(f), _modekw(m))
    r.files[f] = ('default data\n', 0o640)
    w = ('rel', 'share/proj/' + f)          # {datadir}/{projectname}, datadir defaults to share
    r.entries.append(Entry(w, 'file', r, src=('src', f), mode=MODE_BITS[m], tag=None))
    r.plan.append(('data', ('src', f), w, None))
    return r


def r_data_rename(s, m, ab):
    r = Rule('data_rename', s, m)
    f1, f2 = nm(s, 'rena', '.txt'), nm(s, 'renb', '.sh')
    n1, n2 = nm(s, 'newa', '.txt'), 'sub/' + nm(s, 'newb', '.sh')
    d = 'share/' + nm(s, 'pkg')
    r.snippet = 'install_data(%s, %s, rename: [%s, %s], install_dir: %s, install_tag: \'custom\'%s)' % (
        q(f1), q(f2), q(n1), q(n2), q(d), _modekw(m))
    r.files[f1] = ('renamed one\n', 0o640)
    r.files[f2] = ('#!/bin/sh\necho renamed two\n', 0o750)
    for f, n in ((f1, n1), (f2, n2)):
        w = ('rel', d + '/' + n)
        r.entries.append(Entry(w, 'file', r, src=('src', f), mode=MODE_BITS[m], tag='custom'))
        r.plan.append(('data', ('src', f), w, 'custom'))
    return r


def r_data_abs(s, m, ab):
    r = Rule('data_abs', s, m)
    f = nm(s, 'conf', '.ini')
    d = ab + '/etc/' + nm(s, 'cfg')
    r.snippet = 'install_data(%s, install_dir: %s%s)' % (q(f), q(d), _modekw(m))
    r.files[f] = ('[conf]\n', 0o640)
    w = ('abs', d + '/' + f)
    r.entries.append(Entry(w, 'file', r, src=('src', f), mode=MODE_BITS[m], tag=None))
    r.plan.append(('data', ('src', f), w, None))
    return r


def r_headers_default(s, m, ab):
    r = Rule('headers_default', s, m)
    h1, h2 = nm(s, 'hone', '.h'), nm(s, 'htwo', '.h')
    r.snippet = 'install_headers(%s, %s%s)' % (q(h1), q('hs/' + h2), _modekw(m))
    r.files[h1] = ('#define HONE 1\n', 0o644)
    r.files['hs/' + h2] = ('#define HTWO 2\n', 0o644)
    for src, dst in ((h1, h1), ('hs/' + h2, h2)):
        w = ('rel', 'include/' + dst)
        r.entries.append(Entry(w, 'file', r, src=('src', src), mode=MODE_BITS[m], tag='devel'))
        r.plan.append(('headers', ('src', src), w, 'devel'))
    return r


def r_headers_subdir(s, m, ab):
    r = Rule('headers_subdir', s, m)
    h = nm(s, 'hthree', '.h')
    sd = nm(s, 'hsub')
    r.snippet = 'install_headers(%s, subdir: %s%s)' % (q(h), q(sd), _modekw(m))
    r.files[h] = ('#define HTHREE 3\n', 0o644)
    w = ('rel', 'include/' + sd + '/' + h)
    r.entries.append(Entry(w, 'file', r, src=('src', h), mode=MODE_BITS[m], tag='devel'))
    r.plan.append(('headers', ('src', h), w, 'devel'))
    return r


def r_headers_preserve(s, m, ab):
    r = Rule('headers_preserve', s, m)
    h1, h2 = nm(s, 'hfour', '.h'), nm(s, 'hp') + '/' + nm(s, 'hfive', '.h')
    r.snippet = 'install_headers(%s, %s, preserve_path: true%s)' % (q(h1), q(h2), _modekw(m))
    r.files[h1] = ('#define HFOUR 4\n', 0o644)
    r.files[h2] = ('#define HFIVE 5\n', 0o644)
    for src in (h1, h2):
        w = ('rel', 'include/' + src)
        r.entries.append(Entry(w, 'file', r, src=('src', src), mode=MODE_BITS[m], tag='devel'))
        r.plan.append(('headers', ('src', src), w, 'devel'))
    return r


def r_man_plain(s, m, ab):
    r = Rule('man_plain', s, m)
    f = nm(s, 'mana', '.1')
    r.snippet = 'install_man(%s%s)' % (q(f), _modekw(m))
    r.files[f] = ('.TH MANA 1\n', 0o644)
    w = ('rel', 'share/man/man1/' + f)
    r.entries.append(Entry(w, 'file', r, src=('src', f), mode=MODE_BITS[m], tag='man'))
    r.plan.append(('man', ('src', f), w, 'man'))
    return r


def r_man_locale(s, m, ab):
    r = Rule('man_locale', s, m)
    base = nm(s, 'man.frb')      # the locale text also occurs elsewhere in the name: only the component before the section is stripped
    f = base + '.fr.2'
    r.snippet = 'install_man(%s, locale: \'fr\'%s)' % (q(f), _modekw(m))
    r.files[f] = ('.TH MANB 2\n', 0o644)
    w = ('rel', 'share/man/fr/man2/' + base + '.2')     # {mandir}/{locale}/man{num}/foo.1 with the locale stripped
    r.entries.append(Entry(w, 'file', r, src=('src', f), mode=MODE_BITS[m], tag='man'))
    r.plan.append(('man', ('src', f), w, 'man'))
    return r


def _tree(r, top, s, with_link=True):
    """A small source tree: files with and without x bit, nested directories, one symlink to a file."""
    a, x, b, c = nm(s, 'fa', '.txt'), nm(s, 'fx', '.sh'), nm(s, 'fb', '.txt'), nm(s, 'fc', '.txt')
    r.files[top + '/' + a] = ('tree file a of %s\n' % top, 0o640)
    r.files[top + '/' + x] = ('#!/bin/sh\necho x\n', 0o750)
    r.files[top + '/sub/' + b] = ('tree file b\n', 0o644)
    r.files[top + '/sub/deep/' + c] = ('tree file c\n', 0o644)
    if with_link:
        r.links[top + '/' + nm(s, 'lnk')] = a
    return a, x, b, c


def r_subdir_plain(s, m, ab):
    r = Rule('subdir_plain', s, m)
    top = nm(s, 'treea')
    a, x, b, c = _tree(r, top, s)
    d = 'share/' + nm(s, 'sdir')
    r.snippet = 'install_subdir(%s, install_dir: %s%s)' % (q(top), q(d), _modekw(m))
    base = d + '/' + top
    for sub in ('', '/sub', '/sub/deep'):
        r.entries.append(Entry(('rel', base + sub), 'dir', r))
    for rel in (a, x, 'sub/' + b, 'sub/deep/' + c):
        r.entries.append(Entry(('rel', base + '/' + rel), 'file', r, src=('src', top + '/' + rel), mode=MODE_BITS[m]))
    # follow_symlinks defaults to true: "dereferences links and copies their target instead"
    r.entries.append(Entry(('rel', base + '/' + nm(s, 'lnk')), 'file', r, src=('src', top + '/' + a), mode=MODE_BITS[m]))
    r.plan.append(('install_subdirs', ('src', top), ('rel', base), None))
    return r


def r_subdir_strip(s, m, ab):
    r = Rule('subdir_strip', s, m)
    top = nm(s, 'treeb')
    a, x, b, c = _tree(r, top, s, with_link=False)
    d = 'share/' + nm(s, 'pkg')
    r.snippet = 'install_subdir(%s, install_dir: %s, strip_directory: true%s)' % (q(top), q(d), _modekw(m))
    for sub in ('/sub', '/sub/deep'):
        r.entries.append(Entry(('rel', d + sub), 'dir', r))
    for rel in (a, x, 'sub/' + b, 'sub/deep/' + c):
        r.entries.append(Entry(('rel', d + '/' + rel), 'file', r, src=('src', top + '/' + rel), mode=MODE_BITS[m]))
    r.plan.append(('install_subdirs', ('src', top), ('rel', d), None))
    return r


def r_subdir_excl(s, m, ab):
    r = Rule('subdir_excl', s, m)
    top = nm(s, 'treec')
    a, b, e, c = nm(s, 'ea', '.txt'), nm(s, 'eb', '.txt'), nm(s, 'ee', '.txt'), nm(s, 'ec', '.txt')
    dp = nm(s, 'deep')
    for rel in (a, b, 'sub/' + b, 'sub/' + e, 'sub/' + dp + '/' + e, 'other/' + dp + '/' + c):
        r.files[top + '/' + rel] = ('excl %s\n' % rel.replace('/', ':'), 0o644)
    d = 'share/' + nm(s, 'xdir')
    # names are "paths relative to the subdir_name location": e and <deep> exist only below the top level, so
    # listing their bare names excludes nothing.
    r.snippet = ('install_subdir(%s, install_dir: %s, exclude_files: [%s, %s], exclude_directories: [%s, %s], '
                 'install_tag: \'doc\'%s)') % (q(top), q(d), q('sub/' + b), q(e), q('other/' + dp), q(dp), _modekw(m))
    base = d + '/' + top
    for sub in ('', '/sub', '/sub/' + dp, '/other'):
        r.entries.append(Entry(('rel', base + sub), 'dir', r, tag='doc'))
    for rel in (a, b, 'sub/' + e, 'sub/' + dp + '/' + e):
        r.entries.append(Entry(('rel', base + '/' + rel), 'file', r, src=('src', top + '/' + rel), mode=MODE_BITS[m], tag='doc'))
    r.plan.append(('install_subdirs', ('src', top), ('rel', base), 'doc'))
    return r


def r_subdir_nofollow(s, m, ab):
    r = Rule('subdir_nofollow', s, m)
    top = nm(s, 'treed')
    a = nm(s, 'na', '.txt')
    r.files[top + '/' + a] = ('nofollow a\n', 0o640)
    r.links[top + '/' + nm(s, 'nlnk')] = a
    d = 'share/' + nm(s, 'ndir')
    r.snippet = 'install_subdir(%s, install_dir: %s, follow_symlinks: false%s)' % (q(top), q(d), _modekw(m))
    base = d + '/' + top
    r.entries.append(Entry(('rel', base), 'dir', r))
    r.entries.append(Entry(('rel', base + '/' + a), 'file', r, src=('src', top + '/' + a), mode=MODE_BITS[m]))
    r.entries.append(Entry(('rel', base + '/' + nm(s, 'nlnk')), 'link', r, target=a, oc_unspec=True))
    r.plan.append(('install_subdirs', ('src', top), ('rel', base), None))
    return r


def r_emptydir(s, m, ab):
    r = Rule('emptydir', s, m)
    d = 'share/' + nm(s, 'pkg') + '/' + nm(s, 'empty')
    # a directory is where the sticky bit means something (and the one rule for which meson keeps it)
    dsrc = {'unset': None, 'sym': "'rwxrwxrwt'", 'suid': "['rwsr-x--T', 0, 0]"}[m]
    dbits = {'unset': None, 'sym': 0o1777, 'suid': 0o5750}[m]
    r.snippet = 'install_emptydir(%s%s)' % (q(d), '' if dsrc is None else ', install_mode: ' + dsrc)
    r.entries.append(Entry(('rel', d), 'dir', r, mode=dbits))
    return r


def r_symlink_rel(s, m, ab):
    r = Rule('symlink_rel', s, m)
    r.has_mode = False
    d = 'share/' + nm(s, 'pkg')
    ln = nm(s, 'lrel')
    tg = '../' + nm(s, 'ltarget')
    r.snippet = 'install_symlink(%s, pointing_to: %s, install_dir: %s)' % (q(ln), q(tg), q(d))
    r.entries.append(Entry(('rel', d + '/' + ln), 'link', r, target=tg))
    return r


def r_symlink_abs(s, m, ab):
    r = Rule('symlink_abs', s, m)
    r.has_mode = False
    d = ab + '/etc/' + nm(s, 'ladir')
    ln = nm(s, 'labs')
    tg = '/opt/' + nm(s, 'atarget')
    r.snippet = 'install_symlink(%s, pointing_to: %s, install_dir: %s, install_tag: \'custom\')' % (q(ln), q(tg), q(d))
    r.entries.append(Entry(('abs', d + '/' + ln), 'link', r, target=tg, tag='custom'))
    return r


def r_exe(s, m, ab):
    r = Rule('exe', s, m)
    r.needs_c = True
    n = nm(s, 'prog')
    r.snippet = 'executable(%s, \'prog_main.c\', install: true%s)' % (q(n), _modekw(m))
    r.files['prog_main.c'] = ('int main(void) { return 0; }\n', 0o644)
    w = ('rel', 'bin/' + n)
    r.entries.append(Entry(w, 'file', r, src=('build', n), mode=MODE_BITS[m], tag='runtime'))
    r.plan.append(('targets', ('build', n), w, 'runtime'))
    return r


def r_shlib(s, m, ab):
    r = Rule('shlib', s, m)
    r.needs_c = True
    n = nm(s, 'shl')
    r.snippet = 'shared_library(%s, \'shl_src.c\', version: \'1.2.3\', install: true%s)' % (q(n), _modekw(m))
    r.files['shl_src.c'] = ('int shl_fn(void) { return 7; }\n', 0o644)
    real = 'lib%s.so.1.2.3' % n
    w = ('rel', 'lib/' + real)
    r.entries.append(Entry(w, 'file', r, src=('build', real), mode=MODE_BITS[m], tag='runtime'))
    # aliases: libfoo.so.<soversion> and libfoo.so; which tag they carry is not documented
    r.entries.append(Entry(('rel', 'lib/lib%s.so.1' % n), 'link', r, target=real, tag='runtime', tag_spec=False, alias=True))
    r.entries.append(Entry(('rel', 'lib/lib%s.so' % n), 'link', r, target=real, tag='devel', tag_spec=False, alias=True))
    r.plan.append(('targets', ('build', real), w, 'runtime'))
    return r


def r_stlib(s, m, ab):
    r = Rule('stlib', s, m)
    r.needs_c = True
    n = nm(s, 'stl')
    r.snippet = 'static_library(%s, \'stl_src.c\', install: true%s)' % (q(n), _modekw(m))
    r.files['stl_src.c'] = ('int stl_fn(void) { return 9; }\n', 0o644)
    real = 'lib%s.a' % n
    w = ('rel', 'lib/' + real)
    r.entries.append(Entry(w, 'file', r, src=('build', real), mode=MODE_BITS[m], tag='devel'))
    r.plan.append(('targets', ('build', real), w, 'devel'))
    return r


def r_custom2(s, m, ab):
    r = Rule('custom2', s, m)
    r.needs_c = True      # needs the ninja backend (a real build); no compiler involved
    n = nm(s, 'ct')
    o1, o2 = nm(s, 'outa', '.dat'), nm(s, 'outb', '.txt')
    d1 = 'share/' + nm(s, 'pkg') + '/one'
    d2 = ab + '/etc/' + nm(s, 'ctetc')
    r.snippet = ('custom_target(%s, output: [%s, %s], command: [\'sh\', files(\'ct_gen.sh\'), \'@OUTPUT0@\', \'@OUTPUT1@\'], '
                 'install: true, install_dir: [%s, %s], install_tag: [\'runtime\', \'custom\']%s)') % (
                     q(n), q(o1), q(o2), q(d1), q(d2), _modekw(m))
    r.files['ct_gen.sh'] = ('echo "output one" > "$1"\necho "output two" > "$2"\n', 0o644)
    w1, w2 = ('rel', d1 + '/' + o1), ('abs', d2 + '/' + o2)
    r.entries.append(Entry(w1, 'file', r, src=('build', o1), mode=MODE_BITS[m], tag='runtime'))
    r.entries.append(Entry(w2, 'file', r, src=('build', o2), mode=MODE_BITS[m], tag='custom'))
    r.plan.append(('targets', ('build', o1), w1, 'runtime'))
    r.plan.append(('targets', ('build', o2), w2, 'custom'))
    return r


BUILDERS: T.Dict[str, T.Callable] = {
    'data_default': r_data_default, 'data_rename': r_data_rename, 'data_abs': r_data_abs,
    'headers_default': r_headers_default, 'headers_subdir': r_headers_subdir, 'headers_preserve': r_headers_preserve,
    'man_plain': r_man_plain, 'man_locale': r_man_locale,
    'subdir_plain': r_subdir_plain, 'subdir_strip': r_subdir_strip, 'subdir_excl': r_subdir_excl,
    'subdir_nofollow': r_subdir_nofollow,
    'emptydir': r_emptydir, 'symlink_rel': r_symlink_rel, 'symlink_abs': r_symlink_abs,
    'exe': r_exe, 'shlib': r_shlib, 'stlib': r_stlib, 'custom2': r_custom2,
}
RULE_IDS = list(BUILDERS)


def _r_subdir_dirlink(follow: str):
    """install_subdir() of a tree that holds a symlink to one of its own DIRECTORIES.  follow_symlinks "If true, dereferences
    links and copies their target instead" (default true): the link becomes a directory holding copies of what the target
    holds; false: it is installed as the same (relative) link."""
    def build(s, m, ab):
        r = Rule('subdir_dirlink_' + follow, s, m)
        top, real, alias, b = nm(s, 'treel'), nm(s, 'real'), nm(s, 'alias'), nm(s, 'lb', '.txt')
        r.files[top + '/' + real + '/' + b] = ('behind a directory link\n', 0o644)
        r.links[top + '/' + alias] = real
        d = 'share/' + nm(s, 'ldir')
        kw = '' if follow == 'unset' else ', follow_symlinks: ' + follow
        r.snippet = 'install_subdir(%s, install_dir: %s%s%s)' % (q(top), q(d), kw, _modekw(m))
        base = d + '/' + top
        r.entries.append(Entry(('rel', base), 'dir', r))
        r.entries.append(Entry(('rel', base + '/' + real), 'dir', r))
        r.entries.append(Entry(('rel', base + '/' + real + '/' + b), 'file', r, src=('src', top + '/' + real + '/' + b), mode=MODE_BITS[m]))
        if follow == 'false':
            r.entries.append(Entry(('rel', base + '/' + alias), 'link', r, target=real, oc_unspec=True, dirlink='nofollow'))
        else:
            r.entries.append(Entry(('rel', base + '/' + alias), 'dir', r, dirlink='follow'))
            r.entries.append(Entry(('rel', base + '/' + alias + '/' + b), 'file', r, src=('src', top + '/' + real + '/' + b), mode=MODE_BITS[m],
                                   dirlink='follow'))
        r.plan.append(('install_subdirs', ('src', top), ('rel', base), None))
        return r
    return build


# rule variants that are enumerated by a family of their own (family L), not in the single / pair / history families
EXTRA_BUILDERS: T.Dict[str, T.Callable] = {'subdir_dirlink_' + f: _r_subdir_dirlink(f) for f in ('unset', 'true', 'false')}


# ------------------------------------------------------------------------------------------------------------
# The SHAPE of the name given to install_subdir() (family N).  install_subdir.yaml, example:
#   install_subdir('foo',     install_dir : 'share', strip_directory : false) creates share/foo/bar/file1, share/foo/file2
#   install_subdir('foo',     install_dir : 'share', strip_directory : true)  creates share/bar/file1, share/file2
#   install_subdir('foo/bar', install_dir : 'share', strip_directory : false) creates share/bar/file1
#   install_subdir('foo/bar', install_dir : 'share', strip_directory : true)  creates share/file1
# i.e. the tree that is installed is the directory the name leads to (seen from the meson.build that holds the call);
# without strip_directory (default false) it arrives as install_dir/<LAST component of the name>, with strip_directory its
# contents arrive in install_dir itself.  exclude_files / exclude_directories: "Names are interpreted as paths relative to
# the `subdir_name` location", i.e. to the directory that is installed - not to its parent, the meson.build or the source root.
# A trailing '/' names the same directory (POSIX), its last component is the one before the slash.
NAME_SHAPES = ('one', 'one/', 'two', 'two/', 'three', 'twin', 'odd-parent', 'nested-one', 'nested-two')
NAME_STRIPS = ('unset', 'false', 'true')
NAME_EXCLS = ('none', 'lists')
NAME_DIRKINDS = ('rel', 'abs')
MULTI_SHAPES = ('two', 'two/', 'three', 'twin', 'odd-parent', 'nested-two')


def name_rule_id(shape: str, strip: str, excl: str, dirkind: str) -> str:
    return 'subdir_name:%s:strip-%s:excl-%s:%s' % (shape, strip, excl, dirkind)


def _r_subdir_name(shape: str, strip: str, excl: str, dirkind: str):
    def build(s, m, ab):
        r = Rule('subdir_name:%s:strip-%s' % (shape, strip), s, m)
        last = nm(s, 'inner')
        outer, mid = nm(s, 'outer'), nm(s, 'mid')
        if shape in ('one', 'one/', 'nested-one'):
            comps = [last]
        elif shape in ('two', 'two/', 'nested-two'):
            comps = [outer, last]
        elif shape == 'three':
            comps = [outer, mid, last]
        elif shape == 'twin':
            comps = [last, last]                       # the last component also occurs earlier in the name
        elif shape == 'odd-parent':
            comps = ['ou t é漢', last]           # space and non-ASCII in a component that is NOT the last one
        else:
            raise ValueError(shape)
        name = '/'.join(comps)
        declared = name + ('/' if shape.endswith('/') else '')
        nest = nm(s, 'nest') if shape.startswith('nested') else ''
        top = (nest + '/' if nest else '') + name       # the directory that is installed, relative to the source root
        a, x, b, e, c = nm(s, 'na', '.txt'), nm(s, 'nx', '.sh'), nm(s, 'nb', '.txt'), nm(s, 'ne', '.txt'), nm(s, 'nc', '.txt')
        dp, kp = nm(s, 'deep'), nm(s, 'keep')
        tree_files = [a, x, 'sub/' + b, 'sub/' + e, 'sub/' + dp + '/' + c, 'sub/' + kp + '/' + c, last + '/' + a]
        tree_dirs = ['sub', 'sub/' + dp, 'sub/' + kp, last]
        for rel in tree_files:
            r.files[top + '/' + rel] = ('%s of %s\n' % (rel.replace('/', ':'), shape), 0o750 if rel == x else 0o640)
        for i in range(1, len(comps)):
            # what lies beside the named directory (in each directory the name passes through) is not part of it
            r.files[(nest + '/' if nest else '') + '/'.join(comps[:i]) + '/' + nm(s, 'beside%d' % i, '.txt')] = ('not installed\n', 0o644)
        d = ('share/' if dirkind == 'rel' else ab + '/etc/') + nm(s, 'ndst')
        kw = ''
        if strip != 'unset':
            kw += ', strip_directory: ' + strip
        if excl == 'lists':
            # relative to the installed directory: sub/<b>, <last>/<a> and sub/<deep> are part of the tree; <e> and <keep> exist only
            # further down, and the name of the call itself (prefixed to <a>) leads nowhere: these exclude nothing
            xf = ['sub/' + b, e, last + '/' + a]
            xd = ['sub/' + dp, kp]
            if len(comps) > 1:
                xf.append(name + '/' + a)
                xd.append(name)
            kw += ', exclude_files: [%s], exclude_directories: [%s]' % (', '.join(q(v) for v in xf), ', '.join(q(v) for v in xd))
            tree_files = [a, x, 'sub/' + e, 'sub/' + kp + '/' + c]
            tree_dirs = ['sub', 'sub/' + kp, last]
        call = 'install_subdir(%s, install_dir: %s%s%s)' % (q(declared), q(d), kw, _modekw(m))
        if nest:
            r.snippet = 'subdir(%s)' % q(nest)
            r.files[nest + '/meson.build'] = (call + '\n', 0o644)
        else:
            r.snippet = call
        if strip == 'true':
            base = d
        else:
            base = d + '/' + last
            r.entries.append(Entry((dirkind, base), 'dir', r))
        for sub in tree_dirs:
            r.entries.append(Entry((dirkind, base + '/' + sub), 'dir', r))
        for rel in tree_files:
            r.entries.append(Entry((dirkind, base + '/' + rel), 'file', r, src=('src', top + '/' + rel), mode=MODE_BITS[m]))
        r.plan.append(('install_subdirs', ('src', top), (dirkind, base), None))
        return r
    return build


# ------------------------------------------------------------------------------------------------------------
# install_data() of a source that is a SYMLINK (family Y).  install_data.yaml, follow_symlinks (default true): "If true,
# dereferences links and copies their target instead"; false: the link is installed as a link - under the name the rule gives
# it (`rename`), whether or not its target (still) exists: a link is copied without looking at what it points to.
# The target may disappear between `meson setup` and `meson install`; what a FOLLOWED link whose target is gone installs is
# not specified (that combination is not generated).
LINK_FOLLOWS = ('unset', 'true', 'false')
LINK_CELLS = [(f, rn, 'kept') for f in LINK_FOLLOWS for rn in ('same-name', 'renamed')] + \
             [('false', rn, 'target-gone') for rn in ('same-name', 'renamed')]


def link_rule_id(follow: str, rename: str, tstate: str) -> str:
    return 'data_link:follow-%s:%s:%s' % (follow, rename, tstate)


def _r_data_link(follow: str, rename: str, tstate: str):
    def build(s, m, ab, prefix='/usr'):
        r = Rule(link_rule_id(follow, rename, tstate), s, m)
        r.key_class = 'data-symlink:follow-%s:%s:%s' % (follow, rename, tstate)
        ln, tg, new = nm(s, 'dlnk', '.txt'), 'lt/' + nm(s, 'dtgt', '.txt'), nm(s, 'dnew', '.txt')
        r.files[tg] = ('behind a link\n', 0o640)
        r.links[ln] = tg
        d = 'share/' + nm(s, 'ldst')
        kw = ''
        if rename == 'renamed':
            kw += ', rename: ' + q(new)
        if follow != 'unset':
            kw += ', follow_symlinks: ' + follow
        r.snippet = 'install_data(%s, install_dir: %s%s%s)' % (q(ln), q(d), kw, _modekw(m))
        w = ('rel', d + '/' + (new if rename == 'renamed' else ln))
        if follow == 'false':
            r.entries.append(Entry(w, 'link', r, target=tg, oc_unspec=True))
        else:
            r.entries.append(Entry(w, 'file', r, src=('src', tg), mode=MODE_BITS[m]))
        if tstate == 'target-gone':
            r.gone_after_setup.append(tg)
            r.key_whole = rename == 'renamed'
        r.plan.append(('data', ('src', ln), w, None))
        return r
    return build


LINK_BUILDERS: T.Dict[str, T.Callable] = {link_rule_id(*c): _r_data_link(*c) for c in LINK_CELLS}


# ------------------------------------------------------------------------------------------------------------
# install_dir spelled with '..' components (family D).  The property: relative directories are taken under the prefix, absolute
# ones re-rooted under DESTDIR, and the install "writes only beneath $DESTDIR".  The directory a spelling denotes is the one its
# lexical normalisation names ('/' is its own parent): share/q/../r is share/r, /opt/../../x is /x, and a relative directory that
# climbs above the root through the prefix ('../' once more than the prefix is deep) is /x as well; under DESTDIR these are
# DESTDIR/<prefix>/share/r and DESTDIR/x.  Not specified, hence optional: whether the directory named BEFORE a '..' (share/q,
# /opt, the prefix) is created on the way - if it is, the log clause applies to it like to every created directory.  An
# implementation may also refuse such a directory at `meson setup` (counted, nothing compared).
DOTDOT_KINDS = ('data', 'subdir', 'emptydir', 'symlink')
DOTDOT_SPELLINGS = ('rel-inside', 'abs-inside', 'rel-above-root', 'abs-above-root')


def dotdot_rule_id(kind: str, spelling: str) -> str:
    return 'dotdot:%s:%s' % (kind, spelling)


def _r_dotdot(kind: str, spelling: str):
    def build(s, m, ab, prefix='/usr'):
        r = Rule(dotdot_rule_id(kind, spelling), s, m)
        r.key_class = 'install_dir-dotdot:%s' % spelling
        r.may_reject = True
        r.has_mode = False
        r.key_whole = spelling.endswith('above-root')
        depth = len([x for x in prefix.split('/') if x])
        if spelling == 'rel-inside':
            d = 'share/' + nm(s, 'dqdir') + '/../' + nm(s, 'drdir')
            wk, nd = 'rel', 'share/' + nm(s, 'drdir')
            r.optional_dirs.append(('rel', 'share/' + nm(s, 'dqdir')))
        elif spelling == 'abs-inside':
            d = ab + '/etc/' + nm(s, 'dqdir') + '/../' + nm(s, 'drdir')
            wk, nd = 'abs', ab + '/etc/' + nm(s, 'drdir')
            r.optional_dirs.append(('abs', ab + '/etc/' + nm(s, 'dqdir')))
        elif spelling == 'rel-above-root':
            assert not ab
            d = '../' * (depth + 1) + 'escaped-rel'
            wk, nd = 'abs', '/escaped-rel'
            r.optional_dirs.append(('abs', prefix))
        elif spelling == 'abs-above-root':
            assert not ab
            d = '/opt/../../escaped-abs'
            wk, nd = 'abs', '/escaped-abs'
            r.optional_dirs.append(('abs', '/opt'))
        else:
            raise ValueError(spelling)
        if kind == 'data':
            f = nm(s, 'ddat', '.txt')
            r.files[f] = ('dotdot data\n', 0o644)
            r.snippet = 'install_data(%s, install_dir: %s)' % (q(f), q(d))
            w = (wk, nd + '/' + f)
            r.entries.append(Entry(w, 'file', r, src=('src', f)))
            r.plan.append(('data', ('src', f), w, None))
        elif kind == 'subdir':
            top, a, b = nm(s, 'dtree'), nm(s, 'da', '.txt'), nm(s, 'db', '.txt')
            r.files[top + '/' + a] = ('dotdot a\n', 0o644)
            r.files[top + '/in/' + b] = ('dotdot b\n', 0o644)
            r.snippet = 'install_subdir(%s, install_dir: %s)' % (q(top), q(d))
            for sub in ('', '/in'):
                r.entries.append(Entry((wk, nd + '/' + top + sub), 'dir', r))
            for rel in (a, 'in/' + b):
                r.entries.append(Entry((wk, nd + '/' + top + '/' + rel), 'file', r, src=('src', top + '/' + rel)))
            r.plan.append(('install_subdirs', ('src', top), (wk, nd + '/' + top), None))
        elif kind == 'emptydir':
            r.snippet = 'install_emptydir(%s)' % q(d + '/' + nm(s, 'dempty'))
            r.entries.append(Entry((wk, nd + '/' + nm(s, 'dempty')), 'dir', r))
        elif kind == 'symlink':
            ln = nm(s, 'dlink')
            r.snippet = 'install_symlink(%s, pointing_to: %s, install_dir: %s)' % (q(ln), q('../dtarget'), q(d))
            r.entries.append(Entry((wk, nd + '/' + ln), 'link', r, target='../dtarget'))
        else:
            raise ValueError(kind)
        return r
    return build


DOTDOT_BUILDERS: T.Dict[str, T.Callable] = {dotdot_rule_id(k, sp): _r_dotdot(k, sp) for k in DOTDOT_KINDS for sp in DOTDOT_SPELLINGS}


# ------------------------------------------------------------------------------------------------------------
# A directory that two rules SHARE (family M).  install_emptydir.yaml: "Installs a new directory entry to the location specified
# ... If the directory exists and is not empty, the contents are left in place", install_mode: "the file mode ... for the created
# directory".  The usual way to give a POPULATED directory a mode of its own is an install_emptydir(P, install_mode: M) beside the
# rule that installs into P (or below P).  Only the install_emptydir rule declares a mode for P (the install_mode of the other
# rules is "for the installed files"), so P must end up with M - whichever rule is declared first, whichever runs first, and
# whether or not P is there before the install (made by `mkdir -p`, a packaging tool, or an install of an earlier revision of
# the project that declared no mode).  place: P is the other rule's destination directory ('dest'), its parent ('ancestor'), or
# - install_subdir only - the installed tree's own top directory ('top').
SHARED_KINDS = ('alone', 'data', 'headers', 'man', 'subdir', 'symlink', 'ct')
SHARED_PLACES = {'alone': ('-',), 'subdir': ('dest', 'ancestor', 'top')}
SHARED_ORDERS = ('dir-first', 'dir-last')
SHARED_CELLS = [(k, p, o) for k in SHARED_KINDS for p in SHARED_PLACES.get(k, ('dest', 'ancestor'))
                for o in (SHARED_ORDERS if k != 'alone' else ('dir-first',))]
DIR_MODE_SRC = {'unset': None, 'sym': "'rwxrwxrwt'", 'suid': "['rwsr-x--T', 0, 0]"}
DIR_MODE_BITS = {'unset': None, 'sym': 0o1777, 'suid': 0o5750}


def shared_rule_id(kind: str, place: str, order: str) -> str:
    return 'shared:%s:%s:%s' % (kind, place, order)


def _r_shared(kind: str, place: str, order: str):
    def build(s, m, ab):
        r = Rule(shared_rule_id(kind, place, order), s, m)
        r.key_class = 'shared-directory:emptydir+%s:%s' % (kind, place)
        r.needs_c = kind == 'ct'
        below = nm(s, 'below')
        if kind == 'man':
            P = 'share/man/man1' if place == 'dest' else 'share/man'      # {mandir}/man{num}
            D = 'share/man/man1'
        else:
            P = 'share/' + nm(s, 'shr')
            D = P if place in ('dest', 'top') else P + '/' + below
        other: T.List[Entry] = []
        if kind == 'alone':
            call = None
        elif kind == 'data':
            f = nm(s, 'sd', '.txt')
            r.files[f] = ('shared data\n', 0o640)
            call = 'install_data(%s, install_dir: %s%s)' % (q(f), q(D), _modekw(m))
            w = ('rel', D + '/' + f)
            other.append(Entry(w, 'file', r, src=('src', f), mode=MODE_BITS[m]))
            r.plan.append(('data', ('src', f), w, None))
        elif kind == 'headers':
            h = nm(s, 'sh', '.h')
            r.files[h] = ('#define SHARED 1\n', 0o644)
            call = 'install_headers(%s, install_dir: %s%s)' % (q(h), q(D), _modekw(m))
            w = ('rel', D + '/' + h)
            other.append(Entry(w, 'file', r, src=('src', h), mode=MODE_BITS[m], tag='devel'))
            r.plan.append(('headers', ('src', h), w, 'devel'))
        elif kind == 'man':
            f = nm(s, 'sm', '.1')
            r.files[f] = ('.TH SM 1\n', 0o644)
            call = 'install_man(%s%s)' % (q(f), _modekw(m))
            w = ('rel', D + '/' + f)
            other.append(Entry(w, 'file', r, src=('src', f), mode=MODE_BITS[m], tag='man'))
            r.plan.append(('man', ('src', f), w, 'man'))
        elif kind == 'subdir':
            top, a, b = nm(s, 'stree'), nm(s, 'sa', '.txt'), nm(s, 'sb', '.txt')
            r.files[top + '/' + a] = ('shared tree a\n', 0o640)
            r.files[top + '/in/' + b] = ('shared tree b\n', 0o644)
            if place == 'top':
                D = 'share/' + nm(s, 'sbase')
                P = D + '/' + top
            call = 'install_subdir(%s, install_dir: %s%s)' % (q(top), q(D), _modekw(m))
            for sub in ('', '/in'):
                other.append(Entry(('rel', D + '/' + top + sub), 'dir', r))
            for rel in (a, 'in/' + b):
                other.append(Entry(('rel', D + '/' + top + '/' + rel), 'file', r, src=('src', top + '/' + rel), mode=MODE_BITS[m]))
            r.plan.append(('install_subdirs', ('src', top), ('rel', D + '/' + top), None))
        elif kind == 'symlink':
            ln = nm(s, 'sl')
            call = 'install_symlink(%s, pointing_to: %s, install_dir: %s)' % (q(ln), q('../starget'), q(D))
            other.append(Entry(('rel', D + '/' + ln), 'link', r, target='../starget'))
        elif kind == 'ct':
            o = nm(s, 'so', '.dat')
            r.files['s_gen.sh'] = ('echo "shared output" > "$1"\n', 0o644)
            call = ("custom_target(%s, output: %s, command: ['sh', files('s_gen.sh'), '@OUTPUT@'], install: true, install_dir: %s, "
                    "install_tag: 'custom'%s)") % (q(nm(s, 'sct')), q(o), q(D), _modekw(m))
            w = ('rel', D + '/' + o)
            other.append(Entry(w, 'file', r, src=('build', o), mode=MODE_BITS[m], tag='custom'))
            r.plan.append(('targets', ('build', o), w, 'custom'))
        else:
            raise ValueError(kind)
        edir = 'install_emptydir(%s%s)' % (q(P), '' if DIR_MODE_SRC[m] is None else ', install_mode: ' + DIR_MODE_SRC[m])
        own = [Entry(('rel', P), 'dir', r, mode=DIR_MODE_BITS[m])]
        lines = [edir] + ([call] if call else [])
        r.entries = own + other
        if order == 'dir-last':
            lines.reverse()
            r.entries = other + own
        r.snippet = '\n'.join(lines)
        return r
    return build


SHARED_BUILDERS: T.Dict[str, T.Callable] = {shared_rule_id(*c): _r_shared(*c) for c in SHARED_CELLS}


NAME_BUILDERS: T.Dict[str, T.Callable] = {
    name_rule_id(sh, st, ex, dk): _r_subdir_name(sh, st, ex, dk)
    for sh in NAME_SHAPES for st in NAME_STRIPS for ex in NAME_EXCLS for dk in NAME_DIRKINDS}
KIND_OF = {rid: rid.split('_')[0] for rid in RULE_IDS}


# ------------------------------------------------------------------------------------------------------------
# Implicit install tags.  Installing.md, "Installation tags": "Meson sets predefined tags on some files", for an item
# WITHOUT install_tag by where it goes:
#   runtime   "Files installed into `bindir`", "Files installed into `libdir` and with `.so` or `.dll` extension"
#   devel     "Files installed into `libdir` and with `.a` or `.pc` extension", "File installed into `includedir`"
#   i18n      "Files installed into `localedir`"
#   tests     "Files installed into `installed-tests` subdir"        systemtap  "Files installed into `systemtap` subdir"
# and "Installable files that have not been tagged either automatically by Meson, or manually using `install_tag` keyword
# argument won't be installed when `--tags` is used".  "Installed into D" is read as path containment: D itself or a
# directory below it.  A directory whose NAME merely begins like D (bin-extra, libexec, share/locale-archive), D's parent,
# or a directory called like D somewhere else is not D.
DOC_TAGS = ('devel', 'runtime', 'python-runtime', 'man', 'doc', 'i18n', 'typelib', 'bin', 'bin-devel', 'tests', 'systemtap')
DIR_DEFAULTS = {'bindir': 'bin', 'sbindir': 'sbin', 'libdir': 'lib', 'includedir': 'include', 'localedir': 'share/locale',
                'libexecdir': 'libexec', 'datadir': 'share'}
# directory layouts: the documented defaults, and one in which every directory the tag rules mention lives elsewhere (a
# Debian-like multiarch libdir, tools under their own directory) - there `bin`, `lib`, `include`, `share/locale` are
# ordinary directories
DIRSETS = (dict(DIR_DEFAULTS),
           dict(DIR_DEFAULTS, bindir='tools/bin', libdir='lib/x86_64-linux-gnu', includedir='inc', localedir='share/lc'))
TAGGED_DIR_OPTS = ('bindir', 'sbindir', 'libdir', 'includedir', 'localedir')
GUESS_KINDS = ('data', 'subdir', 'emptydir', 'symlink', 'conf', 'ct')
# below each base directory: the directory itself, a sub-directory, the two "subdir" names of the tag list (also one
# level further down) and a look-alike of each
GUESS_MIDS = ('', 'sub d', 'installed-tests', 'installed-tests/in ner', 'installed-tests-old', 'systemtap', 'xsystemtap')
MID_CLASS = {'': 'top', 'sub d': 'sub', 'installed-tests': 'installed-tests', 'installed-tests/in ner': 'installed-tests',
             'installed-tests-old': 'near-installed-tests', 'systemtap': 'systemtap', 'xsystemtap': 'near-systemtap'}
EXT_CLASS = {'.a': 'static', '.pc': 'static', '.so': 'shared', '.dll': 'shared'}


def guess_bases(ds: T.Dict[str, str], absbase: str, prefix: str) -> T.List[T.Tuple[str, str, str]]:
    """Base directories of the "destination x no explicit tag" dimension: (symbol, 'rel' | 'abs', directory)."""
    out: T.List[T.Tuple[str, str, str]] = []
    seen = set()

    def add(sym, kind, d):
        if (kind, d) not in seen:
            seen.add((kind, d))
            out.append((sym, kind, d))
    for opt in TAGGED_DIR_OPTS + ('libexecdir', 'datadir'):
        add(opt, 'rel', ds[opt])                          # every standard directory
    for opt in TAGGED_DIR_OPTS:
        d = ds[opt]
        add(opt + '-extra', 'rel', d + '-extra')          # siblings whose name goes on after a non-word character,
        add(opt + 'x', 'rel', d + 'x')                    # ... goes on after a letter,
        add(opt + '[:-1]', 'rel', d[:-1])                 # ... or stops one letter short
        add('other/' + opt, 'rel', 'other/' + d)          # the same name somewhere else below the prefix
        if '/' in d:
            add('parent:' + opt, 'rel', os.path.dirname(d))
        add('default:' + opt, 'rel', DIR_DEFAULTS[opt])   # the default name while the option points elsewhere
        add('abs-in:' + opt, 'abs', prefix.rstrip('/') + '/' + d)       # the directory itself, spelled absolutely
        add('abs-out:' + opt, 'abs', absbase + '/etc/' + d)             # the same name outside the prefix
    return out


def _within(parts: T.Sequence[str], d: str) -> bool:
    dp = d.split('/')
    return len(parts) >= len(dp) and list(parts[:len(dp)]) == dp


def documented_tags(relparts: T.Optional[T.Sequence[str]], allparts: T.Sequence[str], name: str, ds: T.Dict[str, str],
                    item: str = 'file') -> T.FrozenSet[T.Optional[str]]:
    """Tags that Installing.md allows for an item called `name`, without install_tag, installed into a directory.
    relparts: components of that directory relative to the prefix (None: not below the prefix); allparts: all of them."""
    ext = os.path.splitext(name)[1]
    c: T.Set[T.Optional[str]] = set()
    if relparts is not None:
        if _within(relparts, ds['bindir']):
            c.add('runtime')
        if _within(relparts, ds['libdir']):
            if ext in ('.a', '.pc'):
                c.add('devel')
            elif ext in ('.so', '.dll'):
                c.add('runtime')
        if _within(relparts, ds['includedir']):
            c.add('devel')
        if _within(relparts, ds['localedir']):
            c.add('i18n')
        if _within(relparts, ds['sbindir']):
            c.update(('runtime', None))       # the list names bindir only: tagged like bindir, or not at all
    if 'installed-tests' in allparts:
        c.add('tests')
    if 'systemtap' in allparts:
        c.add('systemtap')
    if not c:
        c.add(None)
    elif item == 'dir':
        # install_emptydir: "By default this directory has no install tag", while the list speaks of "files installed into"
        c.add(None)
    return frozenset(c)


def guess_rules(kind: str, s: str, m: str, ab: str, prefix: str, ds: T.Dict[str, str], only: T.Optional[T.Sequence[str]]) -> T.List[Rule]:
    """One install rule WITHOUT install_tag per destination directory (bases x GUESS_MIDS) and file extension."""
    rules: T.List[Rule] = []
    pparts = [x for x in prefix.split('/') if x]
    ctn = Rule('guess:ctn', s, m)          # one custom_target whose install_dir lists a directory per output
    ctn_out: T.List[str] = []
    ctn_dirs: T.List[str] = []
    n = 0
    for sym, wk, base in guess_bases(ds, ab, prefix):
        libish = 'lib' in sym
        for mid in GUESS_MIDS:
            n += 1
            did = sym + ('/' + mid if mid else '')
            if only is not None and did not in only:
                continue
            d = base + ('/' + mid if mid else '')
            if wk == 'rel':
                relparts: T.Optional[T.List[str]] = d.split('/')
                allparts = pparts + d.split('/')
            else:
                allparts = [x for x in d.split('/') if x]
                relparts = allparts[len(pparts):] if allparts[:len(pparts)] == pparts else None
            bcls = sym[len('abs-in:'):] if sym.startswith('abs-in:') else sym

            def mk(ext, item='file', sub=()):
                rp = None if relparts is None else list(relparts) + list(sub)
                r = Rule('guess:%s:%s:%s' % (bcls, MID_CLASS[mid], EXT_CLASS.get(ext, 'other') if ext else 'none'), s, m)
                r.has_mode = False
                r.guess = did
                r.gkind = kind
                return r, documented_tags(rp, list(allparts) + list(sub), 'x' + ext, ds, item)
            if kind == 'data':
                for ext in (('.txt', '.a', '.pc', '.so', '.dll') if libish else ('.txt', '.a', '.so')):
                    r, cands = mk(ext)
                    f = nm(s, 'gd%d' % n, ext)
                    r.snippet = 'install_data(%s, install_dir: %s)' % (q(f), q(d))
                    r.files[f] = ('data %d\n' % n, 0o644)
                    w = (wk, d + '/' + f)
                    r.entries.append(Entry(w, 'file', r, src=('src', f), cands=cands))
                    r.plan.append(('data', ('src', f), w, cands))
                    rules.append(r)
            elif kind == 'conf':
                for ext in (('.txt', '.a', '.pc', '.so', '.dll') if libish else ('.txt', '.so')):
                    r, cands = mk(ext)
                    f = nm(s, 'gc%d' % n, ext)
                    r.snippet = "configure_file(output: %s, configuration: {'N': '%d'}, install: true, install_dir: %s)" % (q(f), n, q(d))
                    w = (wk, d + '/' + f)
                    r.entries.append(Entry(w, 'file', r, src=('build', f), cands=cands))
                    r.plan.append(('configure', ('build', f), w, cands))
                    rules.append(r)
            elif kind == 'symlink':
                for ext in (('.txt', '.a', '.pc', '.so', '.dll') if libish else ('.txt', '.so')):
                    r, cands = mk(ext)
                    f = nm(s, 'gl%d' % n, ext)
                    r.snippet = 'install_symlink(%s, pointing_to: %s, install_dir: %s)' % (q(f), q('../tgt%d' % n), q(d))
                    r.entries.append(Entry((wk, d + '/' + f), 'link', r, target='../tgt%d' % n, cands=cands))
                    rules.append(r)
            elif kind == 'emptydir':
                r, cands = mk('', item='dir')
                f = nm(s, 'ge%d' % n)
                r.snippet = 'install_emptydir(%s)' % q(d + '/' + f)
                r.entries.append(Entry((wk, d + '/' + f), 'dir', r, cands=cands))
                rules.append(r)
            elif kind == 'subdir':
                # the tree holds files whose extension no tag rule mentions
                top = nm(s, 'gt%d' % n)
                r, cands = mk('.txt', sub=(top,))
                a, b = nm(s, 'ta', '.txt'), nm(s, 'tb', '.txt')
                r.files[top + '/' + a] = ('tree %d a\n' % n, 0o644)
                r.files[top + '/in/' + b] = ('tree %d b\n' % n, 0o644)
                r.snippet = 'install_subdir(%s, install_dir: %s)' % (q(top), q(d))
                bd = d + '/' + top
                for sub in ('', '/in'):
                    r.entries.append(Entry((wk, bd + sub), 'dir', r, cands=cands))
                for rel in (a, 'in/' + b):
                    r.entries.append(Entry((wk, bd + '/' + rel), 'file', r, src=('src', top + '/' + rel), cands=cands))
                r.plan.append(('install_subdirs', ('src', top), (wk, bd), cands))
                rules.append(r)
            elif kind == 'ct':
                # (1) one custom_target per directory, several outputs, a single install_dir for all of them
                r0 = Rule('guess:ct1', s, m)
                r0.has_mode = False
                r0.needs_c = True
                outs = []
                for ext in ('.txt', '.a', '.so'):
                    r, cands = mk(ext)
                    f = nm(s, 'go%d' % n, ext)
                    outs.append(f)
                    w = (wk, d + '/' + f)
                    r.needs_c = True
                    r.entries.append(Entry(w, 'file', r, src=('build', f), cands=cands))
                    r.plan.append(('targets', ('build', f), w, cands))
                    rules.append(r)
                r0.snippet = "custom_target(%s, output: [%s], command: ['sh', files('g_gen.sh'), '@OUTPUT@'], install: true, install_dir: %s)" % (
                    q('gct%d' % n), ', '.join(q(o) for o in outs), q(d))
                rules.append(r0)
                # (2) outputs of the one target with a list of directories
                for ext in ('.dat', '.dll'):
                    r, cands = mk(ext)
                    f = nm(s, 'gn%d' % n, ext)
                    ctn_out.append(f)
                    ctn_dirs.append(d)
                    w = (wk, d + '/' + f)
                    r.entries.append(Entry(w, 'file', r, src=('build', f), cands=cands))
                    r.plan.append(('targets', ('build', f), w, cands))
                    rules.append(r)
            else:
                raise ValueError(kind)
    if kind == 'ct':
        ctn.has_mode = False
        ctn.needs_c = True
        ctn.files['g_gen.sh'] = ('for f in "$@"; do echo "made $f" > "$f"; done\n', 0o644)
        ctn.snippet = "custom_target('gctn', output: [%s], command: ['sh', files('g_gen.sh'), '@OUTPUT@'], install: true, install_dir: [%s])" % (
            ', '.join(q(o) for o in ctn_out), ', '.join(q(x) for x in ctn_dirs))
        rules.append(ctn)
    return rules


class Project:
    def __init__(self, rules: T.List[Rule], with_sub: bool, sub_style: str):
        self.rules = rules
        self.with_sub = with_sub
        self.needs_c = any(r.needs_c for r in rules)
        self.files: T.Dict[str, T.Tuple[str, int]] = {}
        self.links: T.Dict[str, str] = {}
        self.entries: T.List[Entry] = []
        self.plan = []
        self.gone_after_setup = [p for r in rules for p in r.gone_after_setup]
        self.optional_dirs = [d for r in rules for d in r.optional_dirs]
        self.may_reject = any(r.may_reject for r in rules)
        self.key_class = next((r.key_class for r in rules if r.key_class), None)
        self.key_whole = any(r.key_whole for r in rules)
        lines = ["project('proj'%s)" % (", 'c'" if any(r.rid in ('exe', 'shlib', 'stlib') for r in rules) else '')]
        for r in rules:
            if r.snippet:
                lines.append(r.snippet)
            for k, v in r.files.items():
                assert k not in self.files, k
                self.files[k] = v
            self.links.update(r.links)
            self.entries += r.entries
            self.plan += r.plan
        if with_sub:
            lines.append("subproject('sp')")
            f, h = nm(sub_style, 'spdata', '.txt'), nm(sub_style, 'sphdr', '.h')
            d = 'share/' + nm(sub_style, 'spdir')
            self.files['subprojects/sp/meson.build'] = (
                "project('sp')\ninstall_data(%s, install_dir: %s, install_tag: 'custom')\ninstall_headers(%s)\n" % (q(f), q(d), q(h)), 0o644)
            self.files['subprojects/sp/' + f] = ('subproject data\n', 0o644)
            self.files['subprojects/sp/' + h] = ('#define SP 1\n', 0o644)
            rs = Rule('sub_data', sub_style, 'unset')
            e1 = Entry(('rel', d + '/' + f), 'file', rs, src=('src', 'subprojects/sp/' + f), tag='custom', sub='sp')
            e2 = Entry(('rel', 'include/' + h), 'file', rs, src=('src', 'subprojects/sp/' + h), tag='devel', sub='sp')
            self.entries += [e1, e2]
            self.plan.append(('data', ('src', 'subprojects/sp/' + f), e1.where, 'custom'))
            self.plan.append(('headers', ('src', 'subprojects/sp/' + h), e2.where, 'devel'))
        self.files['meson.build'] = ('\n'.join(lines) + '\n', 0o644)


def make_project(rules: T.Sequence[T.Tuple[str, str, str]], absbase: str, with_sub: bool = False, sub_style: str = 'plain',
                 guess: T.Optional[T.Dict[str, T.Any]] = None, prefix: str = '/usr') -> Project:
    """rules: [(rule id, name style, mode id)]; absbase: '' or the pseudo-root that absolute install dirs live in.
    A rule id 'guess:<kind>' stands for the whole "destination directory x no explicit tag" family of that kind of rule
    (guess = {'dirset': index into DIRSETS, 'only': None | [destination ids]})."""
    out: T.List[Rule] = []
    for rid, s, m in rules:
        if rid.startswith('guess:'):
            assert guess is not None
            out += guess_rules(rid.split(':', 1)[1], s, m, absbase, prefix, DIRSETS[guess['dirset']], guess.get('only'))
        elif rid in LINK_BUILDERS or rid in DOTDOT_BUILDERS:
            out.append((LINK_BUILDERS.get(rid) or DOTDOT_BUILDERS[rid])(s, m, absbase, prefix=prefix))
        else:
            out.append((BUILDERS.get(rid) or EXTRA_BUILDERS.get(rid) or SHARED_BUILDERS.get(rid) or NAME_BUILDERS[rid])(s, m, absbase))
    return Project(out, with_sub, sub_style)


def select(entries: T.Sequence[Entry], tags: T.Optional[T.Sequence[str]], skip: T.Optional[str]) -> T.Tuple[T.List[Entry], int]:
    """Entries that `meson install --tags T --skip-subprojects S` must install. Second value: number of entries left
    out of the comparison because the docs do not say which tag they carry."""
    out = []
    unspec = 0
    for e in entries:
        if e.sub and skip is not None and (skip == '*' or e.sub in [x.strip() for x in skip.split(',')]):
            continue
        if tags and e.cands is not None:
            hit = [c for c in e.cands if c in tags]
            if not hit:
                continue
            if len(hit) < len(e.cands):      # the documented rules allow a tag that is selected and one that is not
                unspec += 1
                out.append((e, False))
                continue
        elif tags:
            if not e.tag_spec:
                unspec += 1
                out.append((e, False))
                continue
            if e.tag not in tags:
                continue
        out.append((e, True))
    return out, unspec


def syspath(where: T.Tuple[str, str], prefix: str) -> str:
    """Absolute system path of a destination: relative ones under the prefix, absolute ones as they are."""
    return where[1] if where[0] == 'abs' else prefix.rstrip('/') + '/' + where[1]
