#!/bin/bash
# tools/run_all.sh [quick|thorough] [ids...]  -- runs the registered checks one after another and prints one line each
tier="${1:-quick}"; shift || true
cd "$(dirname "$0")/.."
ids="$*"
[ -n "$ids" ] || ids=$(python3 -c "import json;print(' '.join(c['property_id'] for c in json.load(open('MANIFEST.json'))['checks']))")
for id in $ids; do
  start=$(date +%s)
  out=$(./check "$id" --tier "$tier" 2>&1); rc=$?
  end=$(date +%s)
  echo "$id rc=$rc wall=$((end-start))s known=$(echo "$out" | grep -c '^KNOWN-FINDING') viol=$(echo "$out" | grep -c '^VIOLATION') :: $(echo "$out" | tail -1 | cut -c1-160)"
done
