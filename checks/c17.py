# C17 - rewriter edits are local and keep everything else meaning the same.
#
# Bounded exhaustive: real `meson rewrite` (fork runner E4; CLI form and JSON `command` form) on generated trees.
#   layer A  every expression of a typed family (all operator trees of depth <= 2, every string-literal class) placed
#            in an *other* argument of each kind of statement the rewriter re-prints (target call, project(),
#            dependency(), source array, files()), one re-printing command per context;
#   layer B  every command of an alphabet (all `target`, `kwargs`, `default-options` operations) and every ordered
#            pair of a sub-alphabet on every project shape (sources as literals / variable / files() / shared list /
#            sources: kwarg / duplicate / extra_files / inside if / no final newline / CRLF / bare call).
#   layer C  every list operation (add / rm / add_extra_files / rm_extra_files) x every file name of a two-target project in
#            which a name of every class occurs (only among the sources, only among extra_files, in both lists, in a list of
#            the other target, in an array that feeds no target, nowhere) and pairs of names, x every way of writing the
#            two lists (direct strings / array / array + strings / variable / files() / sources: kwarg  x  array / variable /
#            files() / one bare string / absent): the command edits the list it addresses and nothing else.
#   layer D  placement of the pieces: the target call in the root build file or in a sub-directory x every way of writing its lists
#            (strings / files() in the call, array variable, files('a', ..) variable, files([..]) variable) x the build file that
#            defines them (the target's own, the parent's, a sibling directory entered earlier), source files living in four
#            directories; every list command with names given from the source root (new file in each directory, every existing
#            file, add twice, add.rm, rm.add, several names), run inside the source root and from outside with --sourcedir.
#            Oracle: reference evaluation of the whole project (verif.c17place), `info`, files on disk.
#   layer E  a target call that is not a whole statement (array element, argument of another call, dictionary value, ternary
#            branch, parenthesised) x rm_target / add / rm / kwargs set / info.
# Oracle (per process run): (1) touched file parses (real parser and reference parser E6); (2) the addressed call has
# exactly the requested value (reference evaluation of the file, and the rewriter's own `info` JSON); (3) every byte
# outside the statements the command may edit is unchanged; (4) every other argument of a re-printed statement keeps
# its value or failure for all assignments of its free identifiers over a per-type domain.
import itertools, json, os, re, shutil, sys, traceback
from verif.core import Check, pmap, run_main, scratch_root, REPO
from verif import reflang, mesonproc
from verif import c17lib as L
from verif import c17place as P
from verif.c17lib import FAILM, UNSPECM
from verif.reflang import Fail, Unspecified, SyntaxFail, strip_parens

from mesonbuild import mparser, mlog
from mesonbuild.mesonlib import MesonException

# =========================================================================================================
# Commands: abstract dict (the JSON form) + CLI rendering
CLI_TOP = {'src_add': 'add', 'src_rm': 'rm', 'target_add': 'add_target', 'target_rm': 'rm_target',
           'extra_files_add': 'add_extra_files', 'extra_files_rm': 'rm_extra_files', 'info': 'info'}


def c_target(target, op, sources=()):
    return {'type': 'target', 'target': target, 'operation': op, 'sources': list(sources)}


def c_kwargs(op, func, fid, kwargs):
    return {'type': 'kwargs', 'function': func, 'id': fid, 'operation': op, 'kwargs': kwargs}


def c_defopt(op, options):
    return {'type': 'default_options', 'operation': op, 'options': options}


def cli_value(v):
    if v is True:
        return 'true'
    if v is False:
        return 'false'
    return str(v)


def to_cli(cmd):
    """argv after `rewrite --sourcedir d`; None if the command has no CLI spelling (list values, several kwargs
    whose order would matter)."""
    if cmd['type'] == 'target':
        return ['target', cmd['target'], CLI_TOP[cmd['operation']]] + list(cmd['sources'])
    if cmd['type'] == 'kwargs':
        argv = ['kwargs', cmd['operation'], cmd['function'], cmd['id']]
        for k, v in cmd['kwargs'].items():
            if isinstance(v, list):
                if len(v) != 1:
                    return None
                v = v[0]
            argv += [k] if cmd['operation'] in ('delete', 'info') else [k, cli_value(v)]
        return argv
    if cmd['type'] == 'default_options':
        argv = ['default-options', cmd['operation']]
        for k, v in cmd['options'].items():
            argv += [k] if cmd['operation'] == 'delete' else [k, cli_value(v)]
        return argv
    raise AssertionError(cmd)


def cmd_label(cmd):
    if cmd['type'] == 'target':
        return 'target:' + cmd['operation']
    if cmd['type'] == 'kwargs':
        return 'kwargs:%s:%s' % (cmd['operation'], cmd['function'])
    return 'default-options:' + cmd['operation']


# =========================================================================================================
# Reference model of a command on the records of a reading
ID_LIST_KW = {'dependencies', 'link_with'}


class Refused(Exception):
    """The reference expects the rewriter to refuse (error exit, nothing written)."""


class ModelUnspecified(Exception):
    """The documentation does not say what this command should do here; value clauses are skipped."""


def canon_py(v):
    if isinstance(v, bool):
        return ('b', v)
    if isinstance(v, int):
        return ('i', v)
    if isinstance(v, str):
        return ('s', v)
    if isinstance(v, list):
        return ('l', tuple(canon_py(x) for x in v))
    raise AssertionError(v)


def listify(c):
    return c if c[0] == 'l' else ('l', (c,))


def find_call(recs, func, fid, leaves):
    """Index into recs of the addressed call: by name, else by the variable it is assigned to."""
    if func == 'project':
        cand = [j for j, (_, r) in enumerate(recs) if r['fname'] == 'project']
        return cand[0] if cand else None
    fn = L.TARGET_FUNCS if func == 'target' else ('dependency',)
    cand = [j for j, (_, r) in enumerate(recs) if r['fname'] in fn and L.rec_name(r) == fid]
    if not cand:
        cand = [j for j, (li, r) in enumerate(recs) if r['fname'] in fn and leaves[li][2][0] == 'assign' and leaves[li][2][1] == fid]
    if len(cand) > 1:
        raise ModelUnspecified('several calls match the id')
    return cand[0] if cand else None


class _Leaves:
    def __init__(self, leaves):
        self.leaves = leaves


def shared_source(recs, j, f, leaves):
    """f is a source of target j only through an identifier, another target lists f too, and the two calls are built
    from a common identifier (approximation of "comes from a shared variable"): the rewriter documents no behaviour
    for that.  Two targets that each write the same file name in their own lists share nothing."""
    mine = recs[j][1]
    if f in [('s', os.path.normpath(x[1])) for x in mine.get('lit', [])]:
        return False
    rd = _Leaves(leaves)
    my_ids = spine_ids(rd, L.tracked_call(leaves[recs[j][0]][2])) if recs[j][0] is not None else None
    for k, (li, r) in enumerate(recs):
        if k != j and r['src'] is not None and f in [('s', os.path.normpath(x[1])) for x in r['src'] if x[0] == 's']:
            if my_ids is None or li is None or my_ids & spine_ids(rd, L.tracked_call(leaves[li][2])):
                return True
    return False


def copy_rec(r):
    return {'fname': r['fname'], 'pos': list(r['pos']), 'kw': list(r['kw']), 'src': None if r['src'] is None else list(r['src']),
            'items_kw': {k: list(v) for k, v in r['items_kw'].items()}, 'new': r.get('new', False), 'lit': list(r.get('lit', []))}


def defopt_pairs(c):
    """[(key, value)] of a default_options value given as array of 'k=v' strings (or one string)."""
    out = []
    for x in listify(c)[1]:
        if x[0] != 's' or '=' not in x[1]:
            raise ModelUnspecified('default_options entry is not a literal k=v string')
        k, v = x[1].split('=', 1)
        out.append((k, v))
    return out


def model_apply(recs, leaves, env, cmd):
    """Expected records after cmd.  Returns (new recs, touched) where touched describes what the command addresses:
    {'j': index in recs or None, 'keys': addressed keyword names, 'src': bool, 'rm': bool, 'append': bool, 'info': bool}.
    Raises Refused / ModelUnspecified."""
    recs = [(li, copy_rec(r)) for li, r in recs]
    t = {'j': None, 'keys': set(), 'src': False, 'rm': False, 'append': False, 'info': False, 'add': [], 'del': []}
    if cmd['type'] == 'target':
        op = cmd['operation']
        j = find_call(recs, 'target', cmd['target'], leaves)
        if op == 'target_add':
            if j is not None:
                raise Refused('target exists')
            t['append'] = True
            new = {'fname': 'executable', 'pos': [('s', cmd['target'])], 'kw': [], 'items_kw': {}, 'new': True,
                   'src': sorted([('s', f) for f in cmd['sources']], key=repr)}
            return recs + [(None, new)], t
        if j is None:
            raise Refused('unknown target')
        t['j'] = j
        r = recs[j][1]
        if op == 'info':
            t['info'] = True
            return recs, t
        if op == 'target_rm':
            t['rm'] = True
            del recs[j]
            return recs, t
        files = [('s', os.path.normpath(f)) for f in cmd['sources']]
        if op in ('src_add', 'src_rm'):
            t['src'] = True
            cur = r['src']
            if any(x[0] != 's' for x in cur):
                raise ModelUnspecified('target has sources that are not plain strings in its own environment')
            if len(set(cur)) != len(cur):
                raise ModelUnspecified('a source is listed twice')
            norm = [('s', os.path.normpath(x[1])) for x in cur]
            if op == 'src_add':
                for f in sorted(set(files)):
                    if f not in norm:
                        cur.append(f)
                        norm.append(f)
                        t['add'].append(f)
            else:
                if any(f in norm and shared_source(recs, j, f, leaves) for f in files):
                    raise ModelUnspecified('the file reaches the target through a list another target uses too')
                for f in files:
                    if f in norm:
                        i = norm.index(f)
                        t['del'].append(cur[i])
                        del cur[i]
                        del norm[i]
            r['src'] = sorted(cur, key=repr)
            return recs, t
        # extra files
        t['keys'] = {'extra_files'}
        cur = r['items_kw'].get('extra_files')
        had = cur is not None
        cur = list(cur or [])
        if any(x[0] != 's' for x in cur) or len(set(cur)) != len(cur):
            raise ModelUnspecified('extra_files not plain / duplicated')
        if op == 'extra_files_add':
            for f in sorted(set(files)):
                if f not in cur:
                    cur.append(f)
                    t['add'].append(f)
        else:
            for f in files:
                if f in cur:
                    cur.remove(f)
                    t['del'].append(f)
        if had or cur:
            r['items_kw']['extra_files'] = sorted(cur, key=repr)
            if not had:
                r['kw'].append(('extra_files', ('items',)))
        return recs, t
    if cmd['type'] == 'default_options':
        sub = c_kwargs('defopt_' + cmd['operation'], 'project', '/', {'default_options': cmd['options']})
        return model_apply(recs, leaves, env, sub)
    assert cmd['type'] == 'kwargs'
    op = cmd['operation']
    if cmd['function'] == 'project' and cmd['id'] not in ('/', '//'):
        raise Refused('project id must be /')
    j = find_call(recs, cmd['function'], cmd['id'], leaves)
    if j is None:
        raise Refused('unknown ' + cmd['function'])
    t['j'] = j
    r = recs[j][1]
    if op == 'info':
        t['info'] = True
        return recs, t
    kw = r['kw']
    for k, v in sorted(cmd['kwargs'].items()):
        t['keys'].add(k)
        idx = [i for i, (kk, _) in enumerate(kw) if kk == k]
        old = kw[idx[0]][1] if idx else None
        if old in (FAILM, UNSPECM) and op not in ('set', 'delete'):
            raise ModelUnspecified('addressed keyword does not evaluate')
        if op == 'delete':
            if idx:
                del kw[idx[0]]
            continue
        if op == 'set':
            new = canon_py(v)
        elif op == 'add':
            vals = v if isinstance(v, list) else [v]
            if k in ID_LIST_KW:
                if any(x not in env for x in vals):
                    raise ModelUnspecified('identifier to add is not defined')
                add = [L.shallow(reflang.canon(env[x])) for x in vals]
            else:
                add = [canon_py(x) for x in vals]
            new = ('l', tuple(listify(old)[1] if old is not None else ()) + tuple(add))
        elif op in ('remove', 'remove_regex'):
            if old is None:
                continue
            vals = v if isinstance(v, list) else [v]
            if op == 'remove':
                if k in ID_LIST_KW:
                    rm = [L.shallow(reflang.canon(env[x])) for x in vals if x in env]
                else:
                    rm = [canon_py(x) for x in vals]
                new = ('l', tuple(x for x in listify(old)[1] if x not in rm))
            else:
                new = ('l', tuple(x for x in listify(old)[1] if not (x[0] == 's' and any(re.match(rx, x[1]) for rx in vals))))
        elif op in ('defopt_set', 'defopt_delete'):
            pairs = defopt_pairs(old) if old is not None else []
            keys = list(v.keys())
            pairs = [(a, b) for a, b in pairs if a not in keys]
            if op == 'defopt_set':
                pairs += [(a, cli_value(v[a])) for a in sorted(keys)]
            if old is None and not pairs:
                continue
            new = ('l', tuple(('s', a + '=' + b) for a, b in pairs))
        else:
            raise AssertionError(op)
        if idx:
            kw[idx[0]] = (k, new)
        else:
            kw.append((k, new))
    return recs, t


# =========================================================================================================
# Comparison of records
def kw_equal(key, exp, got, loose):
    """loose: the key is addressed by the command -> array-of-one and bare value are the same request; for
    default_options the values compare case-insensitively (true/True)."""
    if exp == got:
        return True
    if not loose:
        return False
    a, b = listify(exp), listify(got)
    if key == 'default_options':
        try:
            return [(k, v.lower()) for k, v in defopt_pairs(a)] == [(k, v.lower()) for k, v in defopt_pairs(b)]
        except ModelUnspecified:
            return a == b
    return a == b


def compare_exact(exp, got, touched_keys, src_touched):
    """Differences between an expected and an observed record (own environment)."""
    d = []
    if exp['fname'] != got['fname']:
        d.append(('fname', None))
        return d
    if (exp['pos'][:1] != got['pos'][:1]):
        d.append(('name', None))
    if exp['src'] is not None:
        if exp['src'] != got['src']:
            d.append(('src', None))
    if (exp['src'] is None or not src_touched) and not exp.get('new'):
        if exp['pos'] != got['pos']:
            d.append(('pos', None))
    # for an addressed keyword, absent and the empty array are the same request
    empty = ('l', ())
    ek = [k for k, v in exp['kw'] if not (k in touched_keys and v == empty)]
    gk = [k for k, v in got['kw'] if not (k in touched_keys and v == empty)]
    if sorted(ek) != sorted(gk):
        d.append(('kwset', tuple(sorted(set(ek) ^ set(gk)))))
    else:
        eo = [k for k in ek if k not in touched_keys]
        go = [k for k in gk if k not in touched_keys]
        if eo != go:
            d.append(('kworder', None))
        gd = dict(got['kw'])
        for k, v in exp['kw']:
            if k not in gd:
                continue
            if v == ('items',):
                # `sources:` is part of the source multiset compared above
                if k != 'sources' and exp['items_kw'].get(k) != got['items_kw'].get(k):
                    d.append(('kw', k))
            elif not kw_equal(k, v, gd[k], k in touched_keys):
                d.append(('kw', k))
    return d


def multiset_diff(a, b):
    """(elements of a not in b, elements of b not in a) as lists, multiset-wise."""
    bb = list(b)
    only_a = []
    for x in a:
        if x in bb:
            bb.remove(x)
        else:
            only_a.append(x)
    return only_a, bb


def compare_diff(old, new, touched_keys, add, rm, src_touched):
    """Differences between the records of a statement before/after that the command does not permit.  add / rm are
    the strings a SOURCE operation of the step may add / remove: only the source list may gain / lose them; a file
    list kept in a keyword the step does not address (extra_files under a source operation) must not change at all.
    A list difference is reported as (what, key, (gone, came))."""
    d = []
    if old['fname'] != new['fname']:
        return [('fname', None, None)]
    if old['pos'][:1] != new['pos'][:1]:
        d.append(('name', None, None))
    if old['src'] is not None:
        gone, came = multiset_diff(old['src'], new['src'])
        if any(x not in rm for x in gone) or any(x not in add for x in came):
            d.append(('src', None, (gone, came)))
    if old['src'] is None or not src_touched:
        # (a changed source multiset is reported once, as 'src')
        if old['pos'] != new['pos'] and not any(w == 'src' for w, _, _ in d):
            d.append(('pos', None, None))
    ok = [k for k, _ in old['kw'] if k not in touched_keys]
    nk = [k for k, _ in new['kw'] if k not in touched_keys]
    if ok != nk:
        d.append(('kwset' if sorted(ok) != sorted(nk) else 'kworder', tuple(sorted(set(ok) ^ set(nk))), None))
    else:
        nd = dict(new['kw'])
        for k, v in old['kw']:
            if k in touched_keys:
                continue
            if v == UNSPECM:
                continue
            if v == ('items',):
                gone, came = multiset_diff(old['items_kw'].get(k) or [], new['items_kw'].get(k) or [])
                if k == 'sources':
                    # part of the source list compared above
                    continue
                if gone or came:
                    d.append(('kw', k, (gone, came)))
            elif nd[k] != v:
                d.append(('kw', k, None))
    return d


# =========================================================================================================
# Running one case
_case_counter = [0]


def real_parse_error(text):
    try:
        with mlog.no_logging():
            mparser.Parser(text, 'meson.build').parse()
        return None
    except MesonException as e:
        return str(e).splitlines()[0][:200]
    except RecursionError:
        return 'recursion'


def exc_name(out):
    m = re.findall(r'^(\w+(?:\.\w+)*(?:Error|Exception|Interrupt|Exit)\w*)\b', out, re.M)
    return m[-1] if m else 'unknown'


def has_ordering_comparison(rd):
    def go(e):
        if e[0] == 'cmp' and e[1] in ('<', '<=', '>', '>='):
            return True
        return any(go(ch) for _, ch in L.children(e))
    return any(go(L.stmt_rhs(st)) for _, _, st in rd.leaves if L.stmt_rhs(st) is not None)


def untaken_branch_fails(rd):
    """Some ternary / and / or of the file has an operand that fails in the file's own environment but is never
    evaluated there."""
    env = rd.env

    def go(e):
        if e[0] == 'tern':
            c = L.evalm(e[1], env)
            if c == ('b', True) and L.evalm(e[3], env) == FAILM:
                return True
            if c == ('b', False) and L.evalm(e[2], env) == FAILM:
                return True
        if e[0] in ('and', 'or'):
            c = L.evalm(e[1], env)
            if c == ('b', e[0] == 'or') and L.evalm(e[2], env) == FAILM:
                return True
        return any(go(ch) for _, ch in L.children(e))
    return any(go(L.stmt_rhs(st)) for _, _, st in rd.leaves if L.stmt_rhs(st) is not None)


def allowed_leaves(reading, cmds):
    """Leaf indices a step may edit: the addressed call's statement and, for source/extra-file operations, the
    assignments of the identifiers the ADDRESSED list (sources for add/rm, extra_files for add_extra_files /
    rm_extra_files) is built from (transitively): the other list of the target is not the command's to edit."""
    leaves = reading.leaves
    allowed = set()
    for cmd in cmds:
        if cmd['type'] == 'default_options':
            func, fid = 'project', '/'
        elif cmd['type'] == 'kwargs':
            func, fid = cmd['function'], cmd['id']
        else:
            func, fid = 'target', cmd['target']
        try:
            j = find_call(reading.records, func, fid, leaves)
        except ModelUnspecified:
            j = None
        if j is None:
            continue
        li = reading.records[j][0]
        allowed.add(li)
        if cmd['type'] == 'target' and cmd['operation'] in ('src_add', 'src_rm', 'extra_files_add', 'extra_files_rm'):
            call = L.tracked_call(leaves[li][2])
            if cmd['operation'].startswith('src'):
                exprs = list(call[2][1:]) + [v for k, v in call[3] if k == 'sources']
            else:
                exprs = [v for k, v in call[3] if k == 'extra_files']
            names = []
            for e in exprs:
                names += L.free_ids(e)
            seen = set()
            while names:
                n = names.pop()
                if n in seen:
                    continue
                seen.add(n)
                for i, (_, _, st) in enumerate(leaves):
                    if st[0] in ('assign', 'plusassign') and st[1] == n:
                        allowed.add(i)
                        names += L.free_ids(st[2])
    return allowed


def units(e):
    """The argument expressions of a re-printed statement, split down to array elements / files() arguments."""
    e = L.unparen(e)
    if e[0] == 'arr':
        return [u for x in e[1] for u in units(x)]
    if e[0] == 'call' and (e[1] in L.TARGET_FUNCS or e[1] in ('project', 'dependency', 'files')):
        return [u for x in list(e[2]) + [v for _, v in e[3]] for u in units(x)]
    return [e]


def domain_envs(exprs, base_env, cap=1024):
    """Every assignment of the typed free identifiers of each argument expression over the per-type domain (the
    identifiers of the other arguments keep the value the file gives them).  Returns (envs, number of capped units)."""
    seen = set()
    out = []
    capped = 0
    for rhs in exprs:
        for u in units(rhs):
            typed = [i for i in L.free_ids(u) if i in L.VAR_TYPE]
            doms = [L.DOMAIN[L.VAR_TYPE[i]] for i in typed]
            for k, combo in enumerate(itertools.product(*doms)):
                if k >= cap:
                    capped += 1
                    break
                key = tuple(sorted((n, repr(v)) for n, v in zip(typed, combo)))
                if key in seen:
                    continue
                seen.add(key)
                env = dict(base_env)
                env.update(zip(typed, combo))
                out.append(env)
    return out, capped


def stmt_features(st):
    """(paren labels the reference grammar needs syntactically, those it needs semantically, string features) over
    the whole statement expression."""
    rhs = L.stmt_rhs(st)
    if rhs is None:
        return [], [], []
    syn, sem = L.necessary_parens(rhs)
    sf = set()
    for s in L.all_strings(rhs):
        for f in L.string_features(s):
            sf.add(f)
    return syn, sem, sorted(sf)


def classify_unparsable(old_stmts, new_values_strs):
    """Which construct of the statements that were re-printed explains an unparsable result: parentheses whose
    loss alone breaks the syntax; failing that, parentheses whose loss changes the reading; a quote in a string."""
    feats, weak = set(), set()
    for st in old_stmts:
        syn, sem, sf = stmt_features(st)
        feats |= set(syn)
        weak |= set(sem)
        if 'quote' in sf:
            feats.add('string-quote')
    for s in new_values_strs:
        if "'" in s:
            feats.add('string-quote')
    return '+'.join(sorted(feats or weak)) or 'unexplained'


def arg_pairs(oc, nc, what, key):
    """(old expr, new expr) pairs to explain a difference `what` between two call/array expressions."""
    oc, nc = L.unparen(oc), L.unparen(nc)
    if oc[0] == 'call' and nc[0] == 'call':
        if what == 'kw':
            od, nd = dict(oc[3]), dict(nc[3])
            if key in od and key in nd:
                return [(od[key], nd[key])]
            return []
        oa, na = list(oc[2]), list(nc[2])
    elif oc[0] == 'arr' and nc[0] == 'arr':
        oa, na = list(oc[1]), list(nc[1])
    else:
        return [(oc, nc)]
    ns = [strip_parens(x) for x in na]
    os_ = [strip_parens(x) for x in oa]
    o_only = [x for x in oa if strip_parens(x) not in ns]
    n_only = [x for x in na if strip_parens(x) not in os_]
    return list(zip(o_only, n_only))


def explain(oc, nc, what, key):
    for o, n in arg_pairs(oc, nc, what, key):
        lab = L.culprit(o, n)
        if lab:
            return lab
        # nested call/array (e.g. files([...]) or shared + [...]): look one level down
        o1, n1 = L.unparen(o), L.unparen(n)
        if o1[0] == n1[0] and o1[0] in ('arr', 'call'):
            r = explain(o1, n1, 'pos', None)
            if r != 'unexplained':
                return r
    return 'unexplained'


def addressed_target_call(rd, cmd):
    if cmd['type'] != 'target':
        return None
    try:
        j = find_call(rd.records, 'target', cmd['target'], rd.leaves)
    except ModelUnspecified:
        return None
    if j is None:
        return None
    return L.tracked_call(rd.leaves[rd.records[j][0]][2])


def bare_string_list_kwarg(rd, cmds):
    """Operation name if a step edits a file-list keyword whose value is ONE string, not an array (`extra_files`
    and `sources` take `str | file | array`, so that is a valid way to write a list of one)."""
    for c in cmds:
        call = addressed_target_call(rd, c)
        if call is None or c['operation'] not in ('extra_files_add', 'extra_files_rm'):
            continue
        for k, v in call[3]:
            if k == 'extra_files' and L.evalm(v, rd.env)[0] == 's':
                return c['operation']
    return None


def edits_call_and_nested_list(rd, cmds):
    """One removal command names a file written directly among the positional arguments of the call AND a file
    written in an array / files() nested in the same call: two extents, one inside the other, are re-printed."""
    for c in cmds:
        call = addressed_target_call(rd, c)
        if call is None or c['operation'] != 'src_rm':
            continue
        files = [os.path.normpath(f) for f in c['sources']]
        direct = nested = False
        for a in call[2][1:]:
            a = L.unparen(a)
            if a[0] == 'str':
                direct = direct or os.path.normpath(a[1]) in files
            else:
                nested = nested or any(os.path.normpath(x[1]) in files for x in L.literal_items(a))
        if direct and nested:
            return True
    return False


def check_step(cmds, form, t0, t1, res, counters):
    """All clauses for one process run.  Returns list of (key, what)."""
    pre = []
    if '\r\n' in t0:
        if t1 != t0 and '\r' not in t1:
            pre.append(('C17:locality:crlf-normalised', '%s rewrote every CRLF line ending of the file to LF'
                        % '+'.join(cmd_label(c) for c in cmds)))
        # the reference grammar knows LF only; the remaining clauses are decided on LF-normalised texts
        t0 = t0.replace('\r\n', '\n')
        t1 = t1.replace('\r\n', '\n')
        counters['crlf_inputs'] += 1
    if t1.count('\r') > t0.count('\r'):
        # Build files are read in text mode (universal newlines): a carriage return on its own is a line break, so a raw
        # one that the command put into the file (no command names one) does not read back as a carriage return
        counters['raw_cr_written'] += 1
        return pre + [('C17:reprint:raw-carriage-return', '%s wrote a raw carriage return into the file (the original has the escape '
                       '\\r): a build file is read with universal newlines, the string now reads back with a line feed'
                       % '+'.join(cmd_label(c) for c in cmds))]
    return pre + check_step_lf(cmds, form, t0, t1, res, counters)


def check_step_lf(cmds, form, t0, t1, res, counters):
    V = []
    ops = '+'.join(cmd_label(c) for c in cmds)
    out = res['out']
    try:
        rd0 = L.read_program(t0)
    except (SyntaxFail, Unspecified) as e:
        return [('C17:internal:unreadable-input', 'reference cannot read the input of this step: %s' % e)]
    # ---- reference model
    expect_refusal = False
    refused_after = None
    model_unspec = None
    exp = rd0.records
    touched = []
    try:
        for c in cmds:
            exp, tch = model_apply(exp, rd0.leaves, rd0.env, c)
            touched.append(tch)
    except Refused:
        if touched:
            # commands before the refused one have been applied and written
            refused_after = len(touched)
            cmds = cmds[:refused_after]
        else:
            expect_refusal = True
    except ModelUnspecified as e:
        model_unspec = str(e)
        counters['skipped_unspecified'] += 1
    # ---- exit status
    if res['unhandled'] or res['signaled']:
        V.append(('C17:crash:%s:%s' % (cmds[-1]['operation'] if len(cmds) == 1 else 'sequence', exc_name(out)),
                  '%s died with an unhandled exception: %s' % (ops, out.strip().splitlines()[-4:] if out.strip() else '')))
        if t1 != t0 and len(cmds) == 1:
            V.append(('C17:error-but-modified', '%s crashed and still changed the file' % ops))
        return V
    if expect_refusal:
        counters['refusals'] += 1
        if t1 != t0:
            V.append(('C17:refusal-modified-file', '%s must be refused (%s) but the file changed' % (ops, 'rc=%d' % res['rc'])))
        elif res['rc'] == 0:
            V.append(('C17:refusal-exit-0:%s' % ops, '%s cannot be done but exit status is 0' % ops))
        return V
    if refused_after is not None:
        counters['refusals'] += 1
        if res['rc'] == 0:
            return [('C17:refusal-exit-0:%s' % ops, 'the last command of %s cannot be done but exit status is 0' % ops)]
    elif res['rc'] != 0:
        if 'Unhandled node type' in out and has_ordering_comparison(rd0):
            V.append(('C17:refused:unhandled-node:ordering-comparison',
                      '%s is refused with "Unhandled node type ... This is a Meson bug": the file contains a <, <=, > or >= comparison' % ops))
            return V
        if 'Unhandled' not in out and untaken_branch_fails(rd0):
            V.append(('C17:refused:untaken-branch-evaluated',
                      '%s is refused because the rewriter evaluates the branch of a ternary / and / or that the file never takes: %s'
                      % (ops, out.strip()[-200:])))
            return V
        V.append(('C17:refused:%s' % ops, '%s failed with exit status %d: %s' % (ops, res['rc'], out.strip()[-300:])))
        if t1 != t0:
            V.append(('C17:error-but-modified', '%s failed and still changed the file' % ops))
        return V
    only_info = all(t['info'] for t in touched) if touched and not model_unspec else False
    if only_info:
        counters['info_cmds'] += 1
        if t1 != t0:
            V.append(('C17:info-modified-file', 'an info command changed the file'))
        V += check_info(out, cmds, rd0, counters)
        return V
    if t1 == t0:
        counters['text_unchanged'] += 1
    # ---- (3) locality of the textual change
    allowed = allowed_leaves(rd0, cmds)
    append = any(c['type'] == 'target' and c['operation'] == 'target_add' for c in cmds)
    runs, why = L.skeleton_match(t0, t1, rd0.leaves, allowed, append)
    if runs is None:
        sit = ':call-and-nested-list-edited-by-one-command' if edits_call_and_nested_list(rd0, cmds) else ''
        V.append(('C17:locality:other-text-changed' + sit, '%s: %s' % (ops, why)))
        return V
    # ---- (1) the touched file parses
    perr = real_parse_error(t1)
    lenient = False
    rerr = None
    try:
        rd1 = L.read_program(t1)
    except SyntaxFail as e:
        rerr = str(e)
        rd1 = None
    except Unspecified as e:
        lenient = True
        try:
            rd1 = L.read_program(t1, lenient=True)
        except (SyntaxFail, Unspecified) as e2:
            rerr = str(e2)
            rd1 = None
        if rd1 is not None:
            V.append(('C17:reprint:deprecated-newline-in-string',
                      '%s re-printed a \\n escape as a raw line break inside a single-quoted string (deprecated; announced hard error)' % ops))
    if perr or rerr:
        counters['unparsable'] += 1
        old_stmts = [rd0.leaves[i][2] for run, _ in runs for i in run]
        newvals = []
        for c in cmds:
            if c['type'] == 'kwargs':
                newvals += [str(x) for x in c['kwargs'].values()]
            elif c['type'] == 'target':
                newvals += c['sources'] + [c['target']]
        if append and not t0.endswith('\n') and t0.strip():
            V.append(('C17:append:no-final-newline', 'target_add glued the new statements to the last line of a file without final newline'))
        else:
            V.append(('C17:reprint:unparsable:' + classify_unparsable(old_stmts, newvals),
                      '%s left a file that no longer parses (real: %s; reference: %s)' % (ops, perr, rerr)))
        return V
    # ---- per run: pair old and new statements; (4) other arguments keep value / failure over the domain
    edited = 0
    edited_vars = []
    for run, text in runs:
        olds = [rd0.leaves[i] for i in run]
        try:
            news = L.split_statements(text, lenient) if text.strip() else []
        except (SyntaxFail, Unspecified) as e:
            V.append(('C17:internal:replacement-unparsable', 'whole file parses but the isolated replacement does not: %r' % text[:200]))
            return V
        removed_expected = sum(1 for c in cmds if c['type'] == 'target' and c['operation'] == 'target_rm')
        if not run:
            # appended statements (target_add): checked at program level
            continue
        if len(news) != len(olds):
            if len(news) == len(olds) - removed_expected and removed_expected:
                # drop the removed statement(s): those whose text no longer appears
                newtexts = [text[s:e] for s, e, _ in news]
                keep = [o for o in olds if t0[o[0]:o[1]] in newtexts]
                if len(keep) == len(news):
                    olds = keep
                else:
                    continue
            else:
                V.append(('C17:locality:statement-count', '%s: %d statements became %d' % (ops, len(olds), len(news))))
                return V
        for (os_, oe, ost), (ns, ne, nst) in zip(olds, news):
            if t0[os_:oe] == text[ns:ne]:
                continue
            edited += 1
            if L.tracked_call(ost) is None and ost[0] in ('assign', 'plusassign'):
                edited_vars.append(ost[1])
            V += check_edited_statement(ost, nst, cmds, touched, rd0, counters, ops)
    counters['edited_statements'] += edited
    if edited > len(cmds):
        V.append(('C17:locality:too-many-statements', '%s edited %d statements' % (ops, edited)))
    if V:
        return V
    if rd0.eval_ok and rd1 is not None and not rd1.eval_ok:
        # "still parses" is about a build file Meson accepts: a statement that evaluated before must still evaluate
        bare = bare_string_list_kwarg(rd0, cmds)
        V.append(('C17:value:%s:bare-string-kwarg' % bare if bare else 'C17:value:%s:no-longer-evaluates' % ops,
                  '%s: the file evaluated before and fails to evaluate now%s' %
                  (ops, ' (the addressed file-list keyword holds one bare string)' if bare else '')))
        return V
    # ---- (2) program level: every tracked call has exactly the expected record
    if model_unspec is None and rd0.eval_ok and rd1 is not None and rd1.eval_ok:
        V += check_program(exp, touched, rd0, rd1, ops, cmds, form, counters, edited_vars)
    elif model_unspec is not None and rd0.eval_ok and rd1 is not None and rd1.eval_ok:
        # the value of the addressed call is not prescribed here, every other call still is
        V += check_others(rd0, rd1, cmds, ops, counters)
    else:
        counters['program_level_skipped'] += 1
    return V


def permitted(cmds):
    """What a step may change in a re-printed statement: (addressed keyword names, strings a source operation may
    add, strings a source operation may remove, strings any file-list operation may add, ... remove, whether
    positional sources may be reordered)."""
    keys, add, rm, add_any, rm_any = set(), [], [], [], []
    src_touched = False
    for c in cmds:
        if c['type'] == 'default_options':
            keys.add('default_options')
        elif c['type'] == 'kwargs':
            keys |= set(c['kwargs'])
        else:
            files = [('s', f) for f in c['sources']] + [('s', os.path.normpath(f)) for f in c['sources']]
            if c['operation'] in ('src_add', 'extra_files_add'):
                add_any += files
            elif c['operation'] in ('src_rm', 'extra_files_rm'):
                rm_any += files
            if c['operation'] == 'src_add':
                add += files
            elif c['operation'] == 'src_rm':
                rm += files
            if c['operation'] in ('src_add', 'src_rm'):
                src_touched = True
            if c['operation'].startswith('extra_files'):
                keys.add('extra_files')
    return keys, add, rm, add_any, rm_any, src_touched


def named_files(cmds):
    out = []
    for c in cmds:
        if c['type'] == 'target':
            out += [('s', f) for f in c['sources']] + [('s', os.path.normpath(f)) for f in c['sources']]
    return out


def check_edited_statement(ost, nst, cmds, touched, rd0, counters, ops):
    V = []
    if ost[0] != nst[0] or (ost[0] in ('assign', 'plusassign') and ost[1] != nst[1]):
        return [('C17:locality:statement-kind', '%s: statement head changed' % ops)]
    orhs, nrhs = L.stmt_rhs(ost), L.stmt_rhs(nst)
    if orhs is None:
        return [('C17:locality:statement-kind', '%s: a non-expression statement changed' % ops)]
    ids = []
    for x in L.free_ids(orhs) + L.free_ids(nrhs):
        if x not in ids:
            ids.append(x)
    envs, capped = domain_envs([orhs, nrhs], rd0.env)
    counters['domain_capped'] += capped
    keys, add, rm, add_any, rm_any, src_touched = permitted(cmds)
    named = named_files(cmds)
    oc = L.tracked_call(ost)
    nc = L.tracked_call(nst)
    seen = set()
    for env in envs:
        counters['domain_evaluations'] += 1
        if oc is not None and nc is not None:
            o, n = L.call_record(oc, env), L.call_record(nc, env)
            if any(p == UNSPECM for p in o['pos']) or (o['src'] and UNSPECM in o['src']):
                counters['skipped_unspecified_env'] += 1
                continue
            diffs = compare_diff(o, n, keys, add, rm, src_touched)
            a, b = oc, nc
        elif oc is None and nc is None:
            oi = sorted(L.items(orhs, env), key=repr)
            ni = sorted(L.items(nrhs, env), key=repr)
            if UNSPECM in oi:
                counters['skipped_unspecified_env'] += 1
                continue
            # an array / files() assignment: which list it feeds is decided by allowed_leaves (only assignments
            # that feed the addressed list may be edited at all)
            gone, came = multiset_diff(oi, ni)
            diffs = [('src', None, (gone, came))] if (any(x not in rm_any for x in gone) or any(x not in add_any for x in came)) else []
            a, b = L.unparen(orhs), L.unparen(nrhs)
            if a[0] == 'call' and b[0] == 'call' and a[1] == b[1] == 'files':
                a, b = ('arr', a[2]), ('arr', b[2])
        else:
            return [('C17:locality:statement-kind', '%s: call turned into something else' % ops)]
        for what, key, moved in diffs:
            if (what, key) in seen:
                continue
            seen.add((what, key))
            counters['value_changes'] += 1
            if moved is not None and (moved[0] or moved[1]) and all(x in named for x in moved[0] + moved[1]):
                # not a re-printing accident: a file the command names left / entered a list the command does not address
                # (or the wrong way round)
                lst = 'sources' if what == 'src' else key
                V.append(('C17:value:%s:%s' % (ops, lst if what == 'src' or key in keys else 'collateral-' + lst),
                          '%s: the %s of the edited statement lost %r and gained %r: %s  ->  %s'
                          % (ops, lst, [x[1] for x in moved[0]], [x[1] for x in moved[1]], L.unparse(orhs)[:200], L.unparse(nrhs)[:200])))
            elif what in ('kw', 'src', 'pos', 'name'):
                lab = explain(a, b, what, key)
                V.append(('C17:reprint:value:' + lab,
                          '%s: %s of the re-printed statement no longer evaluates the same (e.g. under %s): %s  ->  %s'
                          % (ops, 'keyword ' + key if key else what, _env_brief(env, ids), L.unparse(orhs)[:160], L.unparse(nrhs)[:160])))
            elif what == 'kworder':
                V.append(('C17:reprint:kwarg-order', '%s changed the order of keyword arguments' % ops))
            else:
                V.append(('C17:reprint:kwarg-set', '%s lost or invented keyword arguments %s' % (ops, key)))
    return V


def _env_brief(env, ids):
    return {i: env[i] for i in ids if i in L.VAR_TYPE}


def spine_ids(rd, call):
    """Identifiers whose value is (part of) the source list of a target call: reached through array elements,
    files() arguments, `+` operands and plain references - not through an index or a method call."""
    out = set()

    def go(e):
        e = L.unparen(e)
        if e[0] == 'id':
            if e[1] not in out:
                out.add(e[1])
                for _, _, st in rd.leaves:
                    if st[0] in ('assign', 'plusassign') and st[1] == e[1]:
                        go(st[2])
        elif e[0] == 'arr':
            for x in e[1]:
                go(x)
        elif e[0] == 'call' and e[1] == 'files':
            for x in e[2]:
                go(x)
        elif e[0] == 'bin' and e[1] == '+':
            go(e[2])
            go(e[3])
        elif e[0] == 'tern':
            go(e[2])
            go(e[3])
    for a in list(call[2][1:]) + [v for k, v in call[3] if k in L.ITEM_KW]:
        go(a)
    return out


def check_program(exp, touched, rd0, rd1, ops, cmds, form, counters, edited_vars):
    V = []
    got = rd1.records
    keys = set()
    src_touched = False
    for t in touched:
        keys |= t['keys']
        src_touched = src_touched or t['src']
    counters['program_level_compared'] += 1
    if [(r['fname'], L.rec_name(r)) for _, r in exp] != [(r['fname'], L.rec_name(r)) for _, r in got]:
        V.append(('C17:value:call-list:%s' % ops, 'after %s the file defines %s, expected %s'
                  % (ops, [(r['fname'], L.rec_name(r)) for _, r in got], [(r['fname'], L.rec_name(r)) for _, r in exp])))
        return V
    addressed = {t['j'] for t in touched if t['j'] is not None}
    # indices shift after a removal; compare by position in the expected list
    for k, ((eli, er), (_, gr)) in enumerate(zip(exp, got)):
        d = compare_exact(er, gr, keys, src_touched)
        if not d:
            continue
        name = L.rec_name(er)
        for what, key in d:
            detail = '%s(%s) %s%s' % (er['fname'], name, what, ':' + str(key) if key else '')
            if what == 'kw' and key in keys:
                vv = dict(gr['kw']).get(key)
                ev_ = dict(er['kw']).get(key)
                kk = 'C17:value:kwargs-set:cli-bool-false' if (form == 'cli' and ev_ == ('b', False) and vv == ('b', True)) \
                    else 'C17:value:%s:%s' % (ops, key)
                if ev_ is not None and ev_[0] == 's' and '\\' in ev_[1] and any(c['type'] == 'kwargs' and c['operation'] == 'set' for c in cmds):
                    # the requested text is to be stored as it is: it is a value, not Meson source
                    kk = 'C17:value:kwargs-set:backslash-in-value'
                if vv == ('items',):
                    vv, ev_ = gr['items_kw'].get(key), er['items_kw'].get(key)
                    bare = bare_string_list_kwarg(rd0, cmds) if key == 'extra_files' else None
                    if bare:
                        kk = 'C17:value:%s:bare-string-kwarg' % bare
                V.append((kk, 'after %s keyword %s of %s(%s) is %r, requested %r' % (ops, key, er['fname'], name, vv, ev_)))
            elif what == 'src' and edited_vars and eli is not None and \
                    any(v not in spine_ids(rd0, L.tracked_call(rd0.leaves[eli][2])) for v in edited_vars):
                V.append(('C17:value:src_add:edited-array-that-is-only-indexed',
                          'after %s the sources of %s are %r, expected %r: the file was added to / removed from the array %s, which the '
                          'target only uses through an index or method call' % (ops, name, gr['src'], er['src'], edited_vars)))
            elif what == 'src':
                V.append(('C17:value:%s:sources' % ops, 'after %s the sources of %s are %r, expected %r' % (ops, name, gr['src'], er['src'])))
            else:
                V.append(('C17:value:%s:collateral-%s' % (ops, what), 'after %s: %s differs from the expected record' % (ops, detail)))
    return V


def check_others(rd0, rd1, cmds, ops, counters):
    V = []
    addressed = set()
    for c in cmds:
        if c['type'] == 'default_options':
            addressed.add(('project', None))
        elif c['type'] == 'kwargs':
            addressed.add((c['function'], c['id']))
        else:
            addressed.add(('target', c['target']))
    counters['others_only_compared'] += 1
    got = {(r['fname'], L.rec_name(r)): r for _, r in rd1.records}
    for li, r in rd0.records:
        name = L.rec_name(r)
        func = 'project' if r['fname'] == 'project' else ('dependency' if r['fname'] == 'dependency' else 'target')
        var = rd0.leaves[li][2][1] if rd0.leaves[li][2][0] == 'assign' else None
        if func == 'project' and any(f == 'project' for f, _ in addressed):
            continue
        if (func, name) in addressed or (func, var) in addressed:
            continue
        g = got.get((r['fname'], name))
        if g is None or compare_exact(r, g, set(), False):
            V.append(('C17:value:%s:other-call-changed' % ops, 'after %s the call %s(%s), which the command does not address, '
                      'no longer has the same arguments' % (ops, r['fname'], name)))
    return V


def check_info(out, cmds, rd, counters):
    """`info` JSON against the reference reading."""
    V = []
    try:
        start = out.index('{')
        data = json.loads(out[start:])
    except (ValueError, json.JSONDecodeError):
        return [('C17:info:no-json', 'info printed no JSON: %r' % out[:200])]
    for c in cmds:
        if c['type'] == 'target':
            j = find_call(rd.records, 'target', c['target'], rd.leaves)
            rec = rd.records[j][1]
            ent = [v for v in data.get('target', {}).values() if v.get('name') == L.rec_name(rec)]
            if len(ent) != 1:
                V.append(('C17:info:target-missing', 'target info has no entry for %s' % c['target']))
                continue
            for field, items in (('sources', rec['src']), ('extra_files', rec['items_kw'].get('extra_files', []))):
                if any(x[0] != 's' for x in items) or 'unknown' in ent[0][field]:
                    counters['info_skipped_unknown'] += 1
                    continue
                counters['info_compared'] += 1
                if sorted(os.path.normpath(x[1]) for x in items) != sorted(ent[0][field]):
                    V.append(('C17:info:target-' + field, 'info reports %s=%r, the file says %r' % (field, ent[0][field], [x[1] for x in items])))
        elif c['type'] == 'kwargs':
            j = find_call(rd.records, c['function'], c['id'], rd.leaves)
            li, rec = rd.records[j]
            ent = data.get('kwargs', {}).get('%s#%s' % (c['function'], c['id']))
            if ent is None:
                V.append(('C17:info:kwargs-missing', 'kwargs info has no entry for %s#%s' % (c['function'], c['id'])))
                continue
            call = L.tracked_call(rd.leaves[li][2])
            if sorted(ent.keys()) != sorted(k for k, _ in call[3]):
                V.append(('C17:info:kwargs-keys', 'kwargs info lists %r, the call has %r' % (sorted(ent), sorted(k for k, _ in call[3]))))
                continue
            for k, e in call[3]:
                lit = _literal(e)
                if lit is None:
                    counters['info_skipped_unknown'] += 1
                    continue
                counters['info_compared'] += 1
                if ent[k] != lit[0]:
                    V.append(('C17:info:kwargs-value', 'kwargs info reports %s=%r, the file says %r' % (k, ent[k], lit[0])))
    return V


def _literal(e):
    """(python value,) of a literal string/bool/number or an array of those; None otherwise."""
    e = L.unparen(e)
    if e[0] in ('str', 'bool', 'num'):
        return (e[1],)
    if e[0] == 'arr':
        out = []
        for x in e[1]:
            v = _literal(x)
            if v is None or isinstance(v[0], list):
                return None
            out.append(v[0])
        return (out,)
    return None


def observer_cmds(rd):
    cmds = []
    for li, rec in rd.records:
        name = L.rec_name(rec)
        if rec['fname'] == 'project':
            cmds.append(c_kwargs('info', 'project', '/', {}))
        elif name is None:
            continue
        elif rec['fname'] == 'dependency':
            cmds.append(c_kwargs('info', 'dependency', name, {}))
        else:
            cmds.append(c_target(name, 'info'))
            cmds.append(c_kwargs('info', 'target', name, {}))
    return cmds


def new_counters():
    return {k: 0 for k in ('skipped_unspecified', 'refusals', 'info_cmds', 'text_unchanged', 'unparsable', 'edited_statements',
                           'program_level_skipped', 'program_level_compared', 'domain_capped', 'domain_evaluations',
                           'skipped_unspecified_env', 'value_changes', 'info_skipped_unknown', 'info_compared', 'processes',
                           'observer_runs', 'steps', 'crlf_inputs', 'crash_located', 'others_only_compared', 'raw_cr_written',
                           'place_existence_checked')}


def run_rewrite(d, argv, cold=False):
    fn = mesonproc.cold_meson if cold else mesonproc.run_meson
    r = fn(['rewrite', '--sourcedir', d] + argv, d)
    return {'rc': r.rc, 'out': r.out, 'unhandled': r.unhandled, 'signaled': r.signaled}


def run_case(case, cold=False):
    """Executes the real rewriter for one case and decides every clause.  Returns plain data."""
    if case.get('layer') == 'D':
        return run_place_case(case, cold)
    if case.get('layer') == 'E':
        return run_nest_case(case, cold)
    _case_counter[0] += 1
    d = os.path.join(scratch_root(), 'c17', '%d.%d' % (os.getpid(), _case_counter[0]))
    os.makedirs(d)
    path = os.path.join(d, 'meson.build')
    counters = new_counters()
    viol = []
    texts = [case['text']]
    try:
        with open(path, 'w', encoding='utf-8', newline='') as f:
            f.write(case['text'])
        cmds = case['cmds']
        steps = [[c] for c in cmds] if case['form'] == 'cli' else [cmds]
        for step in steps:
            if case['form'] == 'cli':
                argv = to_cli(step[0])
            else:
                argv = ['command', json.dumps(step)]
            t0 = texts[-1]
            res = run_rewrite(d, argv, cold)
            counters['processes'] += 1
            counters['steps'] += 1
            with open(path, 'r', encoding='utf-8', newline='') as f:
                t1 = f.read()
            texts.append(t1)
            v = check_step(step, case['form'], t0, t1, res, counters)
            if v and len(step) > 1 and any(k.startswith('C17:crash:sequence:') for k, _ in v):
                # diagnostic re-execution: which command of the JSON list dies?
                counters['crash_located'] += 1
                with open(path, 'w', encoding='utf-8', newline='') as f:
                    f.write(t0)
                op = 'sequence'
                for c in step:
                    r1 = run_rewrite(d, ['command', json.dumps([c])], cold)
                    counters['processes'] += 1
                    if r1['unhandled'] or r1['signaled']:
                        op = c['operation']
                        break
                v = [(k.replace('C17:crash:sequence:', 'C17:crash:%s:' % op), w) for k, w in v]
            if v:
                viol += v
                break
        if not viol and case.get('info_in_run'):
            # the same run printed `info` (asked for before AND after the edit): it must describe the file as the run left it
            try:
                rd = L.read_program(texts[-1])
            except (SyntaxFail, Unspecified):
                rd = None
            if rd is not None:
                infos = [c for c in cmds if c.get('operation') == 'info']
                seen_i, uniq = set(), []
                for c in infos:
                    k = json.dumps(c, sort_keys=True)
                    if k not in seen_i:
                        seen_i.add(k)
                        uniq.append(c)
                viol += [(k.replace('C17:info:', 'C17:info-in-run:'), w + ' (info requested before and after the edit in one run)')
                         for k, w in check_info(res['out'], uniq, rd, counters)]
        if not viol and case.get('observe') and not (case['observe'] == 'if-changed' and texts[-1] == texts[0]):
            try:
                rd = L.read_program(texts[-1])
            except (SyntaxFail, Unspecified):
                rd = None
            if rd is not None:
                oc = observer_cmds(rd)
                res = run_rewrite(d, ['command', json.dumps(oc)], cold)
                counters['processes'] += 1
                counters['observer_runs'] += 1
                with open(path, 'r', encoding='utf-8', newline='') as f:
                    t2 = f.read()
                if res['rc'] != 0 or res['unhandled']:
                    viol.append(('C17:info:failed', 'info on the rewritten file failed: %s' % res['out'].strip()[-300:]))
                elif t2 != texts[-1]:
                    viol.append(('C17:info-modified-file', 'an info command changed the file'))
                else:
                    viol += check_info(res['out'], oc, rd, counters)
    finally:
        shutil.rmtree(d, ignore_errors=True)
    return {'id': case['id'], 'viol': viol, 'counters': counters, 'final': texts[-1], 'texts': texts if viol else None}


# =========================================================================================================
# Layer A: expression x re-print context
PROJECT_LINE = "project('p', version: '1.0', default_options: ['warning_level=2', 'werror=false'], license: ['MIT', 'BSD'])\n"


def fmt_wrap(text, suffix=''):
    """A string-typed expression whose value shows the value of an int/bool expression.  The expression sits in a
    bracketed slot (a method argument), so the wrapper adds no grouping of its own."""
    return "'v@0@%s'.format(%s)" % (suffix, text)


CONTEXTS = ['target-call/src_add', 'target-call/kwargs', 'array', 'files', 'project', 'dependency']


def layer_a_case(cid, etext, closed_text, ty, ctx):
    """Project text + command for one expression in one context; None if the type has no slot there."""
    head = PROJECT_LINE + L.VARS_TEXT
    if ctx.startswith('target-call'):
        if ty == 'bool':
            slot = 'install: ' + etext
        elif ty == 'str':
            slot = 'name_prefix: ' + etext
        elif ty == 'list':
            slot = 'c_args: ' + etext
        else:
            slot = 'name_prefix: ' + fmt_wrap(etext)
        text = head + "prog = executable('prog', 'main.c', 'alpha.c', %s, pie: false)\n" % slot
        if ctx.endswith('src_add'):
            return {'id': cid, 'text': text, 'cmds': [c_target('prog', 'src_add', ['new.c'])], 'form': 'cli'}
        return {'id': cid, 'text': text, 'cmds': [c_kwargs('set', 'target', 'prog', {'pie': True})], 'form': 'json'}
    if ctx in ('array', 'files'):
        el = etext if ty in ('str', 'list') else fmt_wrap(etext, '.c')
        if ctx == 'array':
            text = head + "srcs = ['main.c', %s]\nprog = executable('prog', srcs, pie: false)\n" % el
        else:
            text = head + "srcs = files('main.c', %s)\nprog = executable('prog', srcs, pie: false)\n" % el
        return {'id': cid, 'text': text, 'cmds': [c_target('prog', 'src_add', ['new.c'])], 'form': 'cli'}
    if ctx == 'project':
        if closed_text is None:
            return None
        if ty == 'list':
            slot = 'license: ' + closed_text
        else:
            slot = 'version: ' + (closed_text if ty == 'str' else fmt_wrap(closed_text))
        text = "project('p', %s, default_options: ['warning_level=2'])\n" % slot + L.VARS_TEXT + \
               "prog = executable('prog', 'main.c')\n"
        return {'id': cid, 'text': text, 'cmds': [c_kwargs('set', 'project', '/', {'meson_version': '>=0.50'})], 'form': 'cli'}
    if ctx == 'dependency':
        if ty == 'bool':
            slot = 'required: ' + etext
        elif ty == 'list':
            slot = 'required: false, version: ' + etext
        else:
            slot = 'required: false, not_found_message: ' + (etext if ty == 'str' else fmt_wrap(etext))
        text = head + "dep = dependency('zlib', %s)\nprog = executable('prog', 'main.c', dependencies: dep)\n" % slot
        return {'id': cid, 'text': text, 'cmds': [c_kwargs('set', 'dependency', 'zlib', {'method': 'auto'})], 'form': 'json'}
    raise AssertionError(ctx)


def layer_a(ck, stats):
    env = L.own_env()
    fam_full = L.family(ck.q(1, 3))
    n_small = len(L.family(1))
    cases = []
    dropped_syntax = dropped_illtyped = 0
    exprs = []
    for k, t in enumerate(fam_full):
        txt = L.render(t)
        try:
            e = L.parse_expr(txt)
        except SyntaxFail:
            dropped_syntax += 1      # a ternary inside a ternary does not exist in the language, even parenthesised
            continue
        if L.evalm(e, env) in (FAILM, UNSPECM):
            dropped_illtyped += 1    # fails in the generated file's own environment: not a valid project
            continue
        exprs.append((k, t, txt, k < n_small))
    stats.update(family_trees=len(fam_full), dropped_nested_ternary=dropped_syntax, dropped_fails_in_own_env=dropped_illtyped,
                 expressions=len(exprs))
    for k, t, txt, small in exprs:
        ty = L.tree_type(t)
        closed = L.render(t, closed=True)
        # the full family goes through the target call (both commands in thorough); the one-compound-operand
        # sub-family through every context
        ctxs = ['target-call/src_add', 'target-call/kwargs']
        if small:
            ctxs = list(CONTEXTS) if ck.thorough else ['target-call/src_add', 'array', 'files', 'project', 'dependency']
        for ctx in ctxs:
            c = layer_a_case('A/%s/%d:%s' % (ctx, k, txt), txt, closed, ty, ctx)
            if c is None:
                continue
            c['layer'] = 'A'
            c['family'] = L.tree_label(t)
            cases.append(c)
    # redundant parentheses (thorough): the same small family fully over-parenthesised, target call only
    if ck.thorough:
        for k, t, txt, small in exprs:
            if not small or t[0] == 'leaf':
                continue
            rtxt = L.render(t, redundant=True)
            c = layer_a_case('A/redundant/%d:%s' % (k, rtxt), rtxt, None, L.tree_type(t), 'target-call/src_add')
            c['layer'] = 'A'
            c['family'] = 'redundant:' + L.tree_label(t)
            cases.append(c)
    # string literals in every context
    for name, lit in L.STRING_LITS:
        for ctx in CONTEXTS:
            closed = None if lit.startswith('f') else lit
            c = layer_a_case('A/%s/str:%s' % (ctx, name), lit, closed, 'str', ctx)
            if c is None:
                continue
            c['layer'] = 'A'
            c['family'] = 'string:' + name
            cases.append(c)
    return cases


# =========================================================================================================
# Layer B: commands x project shapes
FILLER_BEFORE = """# leading comment with a ' quote and (brackets
""" + L.VARS_TEXT + """if p   # condition comment
    x1 =   a+b   # odd spacing
elif q
\ty1 = 'tab indented'
else
  z1 = [ 1,2 ,
     3 ]
endif
foreach it : l
  w1 = it + '.c'  # in loop
endforeach
dep = dependency('zlib', required: false, version: ['>=1.0'])
"""
FILLER_AFTER = """# comment after the targets
zz = {'k' : 1}
message('done', zz)   # trailing comment
if not p
  message ( 'never' )
endif
# last comment
"""
BENIGN_KW = """c_args: ['-Da\\\\b', '-Dgrüß', s + t, p ? s : t, '''-Dml
x''', f'-D@s@', l[a - (b - c)]],
  build_by_default: (a + b) * c == 8,  # inner comment (documented as lost)
  install: (p and q) or r,
  name_prefix: s / (t + u)"""


def shape_text(shape):
    pl = PROJECT_LINE.replace("license:", "meson_version: '>= 0.' + '50', license:")
    # entries that merely contain an addressed name ('werror=', 'buildtype=', 'BSD') must survive set/delete/remove_regex
    pl = pl.replace("'werror=false']", "'sub:werror=true', 'werror=false', 'cpp_args=-Dbuildtype=x']").replace("'BSD']", "'BSD', '0BSD']")
    assert 'sub:werror' in pl and '0BSD' in pl
    tgt_kw = BENIGN_KW
    lib = ''
    if shape == 'literal':
        tgt = "prog = executable('prog', 'main.c', 'alpha.c',\n  %s)\n" % tgt_kw
    elif shape == 'variable':
        tgt = "srcs = ['main.c', 'alpha.c']\nprog = executable('prog', srcs,\n  %s)\n" % tgt_kw
    elif shape == 'files':
        tgt = "srcs = files('main.c', 'alpha.c')\n\nprog = executable('prog', srcs,\n  %s)\n" % tgt_kw
    elif shape == 'shared':
        tgt = "shared = ['shared.c']\nprog = executable('prog', shared + ['main.c', 'alpha.c'],\n  %s)\n" % tgt_kw
        lib = "lib = static_library('lib', shared, 'main.c', 'lib.c', install: false)\n"
    elif shape == 'two-arrays':
        # two source arrays that start on the same line: one command may have to edit both
        tgt = "prog = executable('prog', ['main.c', 'x1.c'], ['alpha.c', 'x2.c'],\n  %s)\n" % tgt_kw
    elif shape == 'sources-kw':
        tgt = "prog = executable('prog', sources: ['main.c', 'alpha.c'],\n  %s)\n" % tgt_kw
    elif shape == 'duplicate':
        tgt = "prog = executable('prog', 'main.c', 'alpha.c', 'main.c',\n  %s)\n" % tgt_kw
    elif shape == 'extra-files':
        tgt = "prog = executable('prog', 'main.c', 'alpha.c', extra_files: ['README', 'NEWS'],\n  %s)\n" % tgt_kw
    elif shape == 'in-if':
        tgt = "if r\n    prog = executable('prog', 'main.c', 'alpha.c',\n      %s)   # kept comment\n    inner = 1\nendif\n" % tgt_kw
    elif shape == 'odd-name':
        # addressed through the variable it is assigned to
        tgt = "prog = shared_library('my prog+x', 'main.c', 'alpha.c',\n  %s)\n" % tgt_kw
    elif shape == 'bare-call':
        tgt = "executable('prog', 'main.c', 'alpha.c',\n  %s)   # kept comment\n" % tgt_kw
    elif shape in ('no-final-newline', 'crlf'):
        tgt = "prog = executable('prog', 'main.c', 'alpha.c',\n  %s)" % tgt_kw
        text = pl + FILLER_BEFORE + tgt
        if shape == 'crlf':
            text = (text + '\n' + FILLER_AFTER).replace("'''-Dml\nx'''", "'-Dmlx'").replace('\n', '\r\n')
        return text
    else:
        raise AssertionError(shape)
    return pl + FILLER_BEFORE + tgt + lib + FILLER_AFTER


SHAPES_QUICK = ['literal', 'variable', 'files', 'shared', 'two-arrays', 'sources-kw', 'duplicate', 'extra-files', 'in-if', 'bare-call', 'odd-name',
                'no-final-newline', 'crlf']

ALPHABET = [
    ('add-new', c_target('prog', 'src_add', ['new.c'])),
    ('add-existing', c_target('prog', 'src_add', ['main.c'])),
    ('add-two', c_target('prog', 'src_add', ['new.c', 'sub/zed.c'])),
    ('rm-existing', c_target('prog', 'src_rm', ['main.c'])),
    ('rm-missing', c_target('prog', 'src_rm', ['nothere.c'])),
    ('rm-all', c_target('prog', 'src_rm', ['main.c', 'alpha.c'])),
    ('rm-all-rev', c_target('prog', 'src_rm', ['alpha.c', 'main.c'])),
    ('rm-new', c_target('prog', 'src_rm', ['new.c'])),
    ('rm-shared', c_target('prog', 'src_rm', ['shared.c'])),
    ('xf-add', c_target('prog', 'extra_files_add', ['README.md'])),
    ('xf-add-existing', c_target('prog', 'extra_files_add', ['README'])),
    ('xf-rm', c_target('prog', 'extra_files_rm', ['README'])),
    ('xf-rm-new', c_target('prog', 'extra_files_rm', ['README.md'])),
    ('tgt-info', c_target('prog', 'info')),
    ('tgt-rm', c_target('prog', 'target_rm')),
    ('tgt-add', c_target('newt', 'target_add', ['x.c', 'y.c'])),
    ('tgt-add-existing', c_target('prog', 'target_add', ['x.c'])),
    # the new statements name variables after the target: every character a target name may hold (Reference manual: "a-z, A-Z, 0-9, _ - . + and space"...)
    ('tgt-add-dot', c_target('new.t', 'target_add', ['x.c'])),
    ('tgt-add-plus', c_target('new+t', 'target_add', ['x.c'])),
    ('tgt-add-dash-space', c_target('new-t two', 'target_add', ['x.c'])),
    ('tgt-add-digit-first', c_target('2new', 'target_add', ['x.c'])),
    ('tgt-add-at', c_target('new@t', 'target_add', ['x.c'])),
    ('add-unknown-target', c_target('nope', 'src_add', ['new.c'])),
    ('kw-set-new-true', c_kwargs('set', 'target', 'prog', {'pie': True})),
    ('kw-set-new-false', c_kwargs('set', 'target', 'prog', {'pie': False})),
    ('kw-set-str', c_kwargs('set', 'target', 'prog', {'install_dir': 'some/dir'})),
    ('kw-set-existing', c_kwargs('set', 'target', 'prog', {'install': False})),
    ('kw-del-existing', c_kwargs('delete', 'target', 'prog', {'install': None})),
    ('kw-del-missing', c_kwargs('delete', 'target', 'prog', {'pie': None})),
    ('kw-del-new-str', c_kwargs('delete', 'target', 'prog', {'install_dir': None})),
    ('kw-add-dep', c_kwargs('add', 'target', 'prog', {'dependencies': 'dep'})),
    ('kw-rm-dep', c_kwargs('remove', 'target', 'prog', {'dependencies': 'dep'})),
    ('kw-info-target', c_kwargs('info', 'target', 'prog', {})),
    ('kw-set-quote', c_kwargs('set', 'target', 'prog', {'install_dir': "it's"})),
    ('kw-set-backslash', c_kwargs('set', 'target', 'prog', {'install_dir': 'C:\\temp\\new'})),
    ('proj-set-version', c_kwargs('set', 'project', '/', {'version': '2.0'})),
    ('proj-add-license', c_kwargs('add', 'project', '/', {'license': 'GPL'})),
    ('proj-rm-license', c_kwargs('remove', 'project', '/', {'license': 'MIT'})),
    ('proj-rmre-license', c_kwargs('remove_regex', 'project', '/', {'license': 'B.*'})),
    ('proj-del-license', c_kwargs('delete', 'project', '/', {'license': None})),
    ('proj-info', c_kwargs('info', 'project', '/', {})),
    ('proj-bad-id', c_kwargs('set', 'project', 'x', {'version': '2.0'})),
    ('dep-set-required', c_kwargs('set', 'dependency', 'zlib', {'required': True})),
    ('dep-add-version', c_kwargs('add', 'dependency', 'zlib', {'version': '<2.0'})),
    ('dep-del-version', c_kwargs('delete', 'dependency', 'zlib', {'version': None})),
    ('dep-rm-version', c_kwargs('remove', 'dependency', 'zlib', {'version': '>=1.0'})),
    ('dep-rmre-version', c_kwargs('remove_regex', 'dependency', 'zlib', {'version': '>=.*'})),
    ('dep-by-var', c_kwargs('set', 'dependency', 'dep', {'static': True})),
    ('dep-info', c_kwargs('info', 'dependency', 'zlib', {})),
    ('opt-set-existing', c_defopt('set', {'warning_level': '3'})),
    ('opt-set-new', c_defopt('set', {'buildtype': 'release'})),
    ('opt-set-bool', c_defopt('set', {'werror': True})),
    ('opt-del-existing', c_defopt('delete', {'werror': None})),
    ('opt-del-missing', c_defopt('delete', {'buildtype': None})),
]
# the commands whose ordered pairs are run everywhere (add.rm, rm.add, set.delete, add twice, ...)
PAIR_QUICK = ['add-new', 'rm-new', 'rm-existing', 'add-existing', 'xf-add', 'xf-rm-new', 'kw-set-new-true', 'kw-del-missing',
              'kw-set-str', 'kw-del-new-str', 'opt-set-new', 'opt-del-missing', 'proj-add-license', 'tgt-add', 'tgt-rm']
NO_PAIR = {'tgt-add-existing', 'add-unknown-target', 'proj-bad-id', 'kw-set-quote', 'kw-set-backslash'}


def layer_b(ck):
    cases = []
    alpha = dict(ALPHABET)
    shapes = SHAPES_QUICK
    for sh in shapes:
        text = shape_text(sh)
        for name, cmd in ALPHABET:
            for form in ('cli', 'json'):
                cases.append({'id': 'B/%s/%s/%s' % (sh, form, name), 'layer': 'B', 'text': text, 'cmds': [cmd], 'form': form,
                              'observe': True, 'family': 'single'})
    pair_shapes = ['literal', 'variable', 'files', 'shared', 'sources-kw', 'extra-files', 'in-if', 'bare-call'] if ck.thorough \
        else ['literal', 'variable', 'shared', 'extra-files']
    pair_alpha = [n for n, _ in ALPHABET if n not in NO_PAIR] if ck.thorough else PAIR_QUICK
    for sh in pair_shapes:
        text = shape_text(sh)
        for x in pair_alpha:
            for y in pair_alpha:
                forms = ('json', 'cli') if sh in (('literal', 'variable', 'shared') if ck.thorough else ('literal',)) else ('json',)
                for form in forms:
                    # the JSON form of the same pair already observes the final state through `info`
                    cases.append({'id': 'B/%s/%s/%s,%s' % (sh, form, x, y), 'layer': 'B', 'text': text, 'cmds': [alpha[x], alpha[y]],
                                  'form': form, 'observe': form == 'json', 'family': 'pair'})
    # info, edit, info in ONE run (JSON form only: the CLI runs one command per process)
    sandwich = {'add-new': 'target', 'rm-existing': 'target', 'xf-add': 'target', 'kw-set-new-true': 'target', 'kw-set-existing': 'target',
                'kw-del-existing': 'target', 'proj-set-version': 'project', 'proj-add-license': 'project', 'proj-del-license': 'project',
                'dep-set-required': 'dependency', 'dep-add-version': 'dependency'}
    for sh in (('literal', 'variable', 'files', 'extra-files') if ck.thorough else ('literal', 'extra-files')):
        text = shape_text(sh)
        for x, what in sandwich.items():
            if what == 'target':
                infos = [c_target('prog', 'info'), c_kwargs('info', 'target', 'prog', {})]
            elif what == 'project':
                infos = [c_kwargs('info', 'project', '/', {})]
            else:
                infos = [c_kwargs('info', 'dependency', 'zlib', {})]
            cases.append({'id': 'B/%s/json/info,%s,info' % (sh, x), 'layer': 'B', 'text': text, 'cmds': infos + [alpha[x]] + infos,
                          'form': 'json', 'observe': False, 'info_in_run': True, 'family': 'info-sandwich'})
    return cases


# =========================================================================================================
# Layer C: the two file lists of a target (sources / extra_files) x where a named file occurs
#
# A target has two lists a `target` command can edit.  "Changes only what it was asked to" quantifies over the
# names a command may be given: a name can occur in the list the command addresses, in the OTHER list of the same
# target, in both, in a list of another target, in an array that feeds no target at all, or nowhere.  The project
# below has one file name of every such class (relative to either target); every list-editing operation is run
# with every name (and every pair of names) on every way of writing the two lists.
CROSS_FILES = {
    #        sources                                         extra_files
    'prog': (['main.c', 'both.h', 'shared.h', 'util.c'], ['README', 'both.h', 'common.txt', 'COPYING']),
    'lib': (['lib.c', 'libboth.h', 'common.txt', 'util.c'], ['LIBNOTES', 'libboth.h', 'shared.h', 'COPYING']),
}
CROSS_NAMES = ['main.c', 'README', 'both.h', 'shared.h', 'common.txt', 'util.c', 'COPYING', 'lib.c', 'LIBNOTES', 'libboth.h',
               'new.txt']
CROSS_SF = ['pos', 'arr', 'mixed', 'var', 'files', 'kw']       # how the sources are written
CROSS_XF = ['arr', 'var', 'files', 'str', 'none']              # how extra_files is written
CROSS_OPS = ['src_add', 'src_rm', 'extra_files_add', 'extra_files_rm']


def _strs(names):
    return ', '.join("'%s'" % n for n in names)


def cross_target(var, func, name, sf, xf):
    """Statements that define one target whose sources / extra_files are written in the forms sf / xf."""
    src, xfs = CROSS_FILES[name]
    pre, pos, kw = [], [], []
    if sf == 'pos':
        pos = [_strs(src)]
    elif sf == 'arr':
        pos = ['[%s]' % _strs(src)]
    elif sf == 'mixed':
        # an array nested in the call next to direct strings: one command may have to edit both
        pos = ['[%s]' % _strs(src[:2]), _strs(src[2:])]
    elif sf == 'var':
        pre.append('%s_srcs = [%s]\n' % (var, _strs(src)))
        pos = [var + '_srcs']
    elif sf == 'files':
        pre.append('%s_srcs = files(%s)\n' % (var, _strs(src)))
        pos = [var + '_srcs']
    elif sf == 'kw':
        kw.append('sources: [%s]' % _strs(src))
    else:
        raise AssertionError(sf)
    kw.append("c_args: ['-DX=' + s, '-Dq=\\'1\\'']")
    if xf == 'arr':
        kw.append('extra_files: [%s]' % _strs(xfs))
    elif xf == 'var':
        pre.append('%s_docs = [%s]\n' % (var, _strs(xfs)))
        kw.append('extra_files: %s_docs' % var)
    elif xf == 'files':
        kw.append('extra_files: files(%s)' % _strs(xfs))
    elif xf == 'str':
        # one extra file written as a bare string (the keyword takes `str | file | array`): the one that is a source too
        kw.append("extra_files: '%s'" % xfs[1])
    elif xf != 'none':
        raise AssertionError(xf)
    kw.append('install: (p and q) or r')
    return ''.join(pre) + "%s = %s('%s', %s)\n" % (var, func, name, ',\n  '.join(pos + kw))


def cross_text(sf, xf):
    return ("project('p', version: '1.0')\n" + L.VARS_TEXT + "before = 'statement before'\n"
            + cross_target('prog', 'executable', 'prog', sf, xf)
            # an array of the same names that feeds no target
            + "unrelated = ['main.c', 'README', 'both.h', 'new.txt']\n"
            + cross_target('lib', 'static_library', 'lib', sf, xf)
            + "after_variable = 1\n")


def cross_where(rd, tname, fname):
    """Where the reference reading of the project finds a file name, relative to the addressed target:
    subset of {'own', 'other-list', 'other-target'} ('own' = the list the operation addresses)."""
    out = {}
    for _, r in rd.records:
        if r['src'] is None:
            continue
        who = 'T' if L.rec_name(r) == tname else 'O'
        if ('s', fname) in r['src']:
            out[who + 'src'] = True
        if ('s', fname) in r['items_kw'].get('extra_files', []):
            out[who + 'xf'] = True
    return out


def layer_c(ck, stats):
    """Quick: every operation x every single name on all shapes for the first target, on the 6 "diagonal" shapes for
    the second; every unordered pair of the names the addressed target mentions (+ the new one) on 2 shapes.
    Thorough: both targets and both command forms for every single name everywhere; every unordered pair of all names
    everywhere for the first target; every ordered pair for both targets on the diagonal shapes."""
    cases = []
    n = {k: 0 for k in ('shapes', 'single_name', 'two_names', 'name_only_in_other_list', 'name_in_both_lists', 'name_only_in_other_target',
                        'name_in_own_list', 'name_nowhere', 'second_target_addressed', 'info_of_initial_state')}
    for sf in CROSS_SF:
        for xf in CROSS_XF:
            text = cross_text(sf, xf)
            rd = L.read_program(text)
            assert rd.eval_ok, (sf, xf)
            n['shapes'] += 1
            diagonal = CROSS_SF.index(sf) % len(CROSS_XF) == CROSS_XF.index(xf)
            forms = ('cli', 'json') if ck.thorough else ('cli',)
            for tname in (['prog', 'lib'] if (ck.thorough or diagonal) else ['prog']):
                for form in forms:
                    # the edit cases ask `info` only if the file changed: the initial state is observed here
                    cases.append({'id': 'C/%s+%s/%s/%s/info' % (sf, xf, form, tname), 'layer': 'C', 'text': text, 'form': form,
                                  'cmds': [c_target(tname, 'info')], 'observe': True, 'family': 'cross:info'})
                    n['info_of_initial_state'] += 1
                mentioned = [x for x in CROSS_NAMES if x in CROSS_FILES[tname][0] + CROSS_FILES[tname][1] + ['new.txt']]
                oname = 'lib' if tname == 'prog' else 'prog'
                # quick: single names without the three classes that only differ from another one by what the OTHER target
                # does with the name (same list in both targets, both lists of the other target); they stay in the pairs
                singles = [x for x in CROSS_NAMES if ck.thorough or not (
                    (x in CROSS_FILES[tname][0] and x in CROSS_FILES[oname][0]) or (x in CROSS_FILES[tname][1] and x in CROSS_FILES[oname][1])
                    or (x in CROSS_FILES[oname][0] and x in CROSS_FILES[oname][1]))]
                for op in CROSS_OPS:
                    lists = [[x] for x in singles]
                    if ck.thorough and (diagonal or tname == 'prog'):
                        lists += [[x, y] for x in CROSS_NAMES for y in CROSS_NAMES if x != y and (diagonal or x < y)]
                    elif (sf, xf) in (('pos', 'arr'), ('mixed', 'files')):
                        lists += [[x, y] for x in mentioned for y in mentioned if x < y]
                    own, other = ('Tsrc', 'Txf') if op.startswith('src') else ('Txf', 'Tsrc')
                    for files in lists:
                        # a removal whose every name is absent from the addressed list but present in the other list of the target
                        wrong_list_rm = op.endswith('_rm') and all(other in w and own not in w for w in (cross_where(rd, tname, f) for f in files))
                        for form in (forms if len(files) == 1 else ('cli',)):
                            cases.append({'id': 'C/%s+%s/%s/%s/%s/%s' % (sf, xf, form, tname, op, ','.join(files)), 'layer': 'C',
                                          'text': text, 'cmds': [c_target(tname, op, files)], 'form': form, 'observe': 'if-changed',
                                          'family': 'cross:%s:%s' % (op, 'pair' if len(files) > 1 else 'single'),
                                          'wrong_list_rm': wrong_list_rm})
                        n['single_name' if len(files) == 1 else 'two_names'] += 1
                        n['second_target_addressed'] += tname == 'lib'
                        for f in files:
                            w = cross_where(rd, tname, f)
                            n['name_in_own_list'] += own in w and other not in w
                            n['name_only_in_other_list'] += other in w and own not in w
                            n['name_in_both_lists'] += other in w and own in w
                            n['name_only_in_other_target'] += not (own in w or other in w) and bool(w)
                            n['name_nowhere'] += not w
    stats.update(n)
    return cases


# =========================================================================================================
# Layer D: where the pieces live.  The target call, the assignments its lists are built from and the source files are spread
# over the build files of several directories (verif.c17place).  A list command names files relative to the source root
# (Rewriter.md: "assumes that it is run inside the project root directory. If this isn't the case, use --sourcedir"; the
# `info` output lists paths from the source root); the strings the rewriter writes are relative to the directory in which
# the edited list is RESOLVED (the target's for strings and arrays, the files() call's for files()).  Oracle per step:
# exit status 0; only the statement of the call / the assignments of the addressed list changed, every other build file is
# byte-identical; every build file parses; the reference evaluation of the whole project gives the addressed target
# exactly the requested set (other arguments, the other list and the other target unchanged); every file the target now
# names exists on disk (all files a command names were created beforehand); `info` reports the same set.
PLACE_OPS = ('src_add', 'src_rm', 'extra_files_add', 'extra_files_rm')


def place_text(build):
    return ''.join('### %s\n%s' % (k, build[k]) for k in sorted(build))


def place_chains(place, full):
    """[(family, [commands])]: each chain is run step by step (one CLI process per command), every step is checked."""
    g = P.generate(place)
    td, dd, rd = P.place_dirs(place)
    src, xf = g['sources'], g['extra_files']
    out = []
    add = lambda fs: c_target('prog', 'src_add', fs)
    rm = lambda fs: c_target('prog', 'src_rm', fs)
    xadd = lambda fs: c_target('prog', 'extra_files_add', fs)
    xrm = lambda fs: c_target('prog', 'extra_files_rm', fs)
    # a new file in each directory class: add it, add it again (nothing to do), remove it (the original set is back)
    for k, d in enumerate(('root', 'sub', 'early', 'lib')):
        n = P.NEW_SRC[d]
        out.append(('add.add.rm' if (full or k == 0) else 'add.rm', [add([n])] + ([add([n])] if (full or k == 0) else []) + [rm([n])]))
    # every existing file: remove it, add it back (the set is kept)
    # every existing file (quick: the one below the resolving directory is removed by `rm-several` only)
    for e in src:
        if full or e != P.under(rd, 'deep/d.c'):
            out.append(('rm.add', [rm([e]), add([e])]))
    out.append(('add-existing', [add([P.under(rd, 'a.c')])]))
    out.append(('rm-foreign', [rm([P.FOREIGN_SRC])] if P.FOREIGN_SRC not in src else [rm([P.NEW_SRC['lib']])]))
    out.append(('add-several', [add([P.NEW_SRC['lib'], P.NEW_SRC['root'], P.NEW_SRC['sub'], P.NEW_SRC['below']])]))
    out.append(('rm-several', [rm([P.under(td, 'main.c'), P.under(rd, 'deep/d.c')])]))
    for d in (('root', 'sub', 'early', 'lib') if full else ('sub', 'lib')):
        out.append(('xadd.xrm', [xadd([P.NEW_XF[d]]), xrm([P.NEW_XF[d]])]))
    for e in (xf if full else xf[:1] + xf[-1:]):
        out.append(('xrm.xadd', [xrm([e]), xadd([e])]))
    return out


def place_expected(t, cmd):
    """(sources, extra_files) the addressed target must have after the command (sorted, from the source root)."""
    src, xf = list(t.sources), list(t.extra_files)
    files = [os.path.normpath(f) for f in cmd['sources']]
    cur = src if cmd['operation'].startswith('src') else xf
    if len(set(cur)) != len(cur):
        raise ModelUnspecified('a file is listed twice')
    if cmd['operation'].endswith('_add'):
        for f in sorted(set(files)):
            if f not in cur:
                cur.append(f)
    else:
        for f in files:
            if f in cur:
                cur.remove(f)
    return tuple(sorted(src)), tuple(sorted(xf))


def run_place_tool(d, mode, argv, cold):
    """mode 'root': run inside the source root without --sourcedir (the documented default); 'outside': from an empty
    directory next to it with --sourcedir."""
    fn = mesonproc.cold_meson if cold else mesonproc.run_meson
    if mode == 'root':
        r = fn(['rewrite'] + argv, os.path.join(d, 'proj'))
    else:
        r = fn(['rewrite', '--sourcedir', os.path.join(d, 'proj')] + argv, os.path.join(d, 'cwd'))
    return {'rc': r.rc, 'out': r.out, 'unhandled': r.unhandled, 'signaled': r.signaled}


def read_build(root, paths):
    out = {}
    for p in paths:
        with open(os.path.join(root, p), 'r', encoding='utf-8', newline='') as f:
            out[p] = f.read()
    return out


def place_tag(place):
    return '%s-list@%s' % ('files' if place[2] in ('files', 'files-arr', 'inline-files') else 'string', place[1])


def place_call_and_nested(lv, cmd, td):
    """The removal names a string written directly in the call AND a string of an array / files() nested in the same call."""
    hit = P.target_call(lv, cmd['target'])
    if hit is None:
        return False
    files = [os.path.normpath(f) for f in cmd['sources']]
    direct = nested = False
    for a in hit[2][2][1:]:
        a = L.unparen(a)
        if a[0] == 'str':
            direct = direct or P.under(td, a[1]) in files
        else:
            nested = nested or any(P.under(td, x[1]) in files for x in L.literal_items(a))
    return direct and nested


def check_place_step(case, cmd, b0, b1, res, root, counters):
    """Clauses of one list command on a multi-directory project.  Returns ([(key, what)], state after or None)."""
    place = tuple(case['place'])
    op = cmd['operation']
    where = '%s, project %s' % (op + ' ' + ' '.join(cmd['sources']), '/'.join(place))
    pre = 'C17:placement:%s:' % op
    if res['unhandled'] or res['signaled']:
        return [(pre + 'crash:' + exc_name(res['out']), '%s died: %s' % (where, res['out'].strip().splitlines()[-3:]))], None
    if res['rc'] != 0:
        return [(pre + 'refused', '%s failed with exit status %d: %s' % (where, res['rc'], res['out'].strip()[-300:]))], None
    try:
        lv0 = P.leaves_of(b0)
        s0 = {t.name: t for t in P.evaluate(b0)}
    except (SyntaxFail, Fail, Unspecified) as e:
        return [('C17:internal:unreadable-input', 'reference cannot read the input of this step: %s' % e)], None
    # ---- locality over all build files
    which = 'sources' if op.startswith('src') else 'extra_files'
    may = P.editable(lv0, 'prog', which)
    edited_files = []
    for path in sorted(b0):
        if b1[path] == b0[path]:
            continue
        edited_files.append(path)
        allowed = {i for p, i in may if p == path}
        if not allowed:
            return [(pre + 'other-file-changed', '%s changed %s, which holds neither the target call nor an assignment its %s are built '
                     'from' % (where, path, which))], None
        runs, why = L.skeleton_match(b0[path], b1[path], lv0[path], allowed, False)
        if runs is None:
            if op == 'src_rm' and place_call_and_nested(lv0, cmd, P.TDIRS[place[0]]):
                # the defect layer C knows: two extents, one inside the other, re-printed by one command
                return [('C17:locality:other-text-changed:call-and-nested-list-edited-by-one-command', '%s, in %s: %s' % (where, path, why))], None
            return [(pre + 'other-text-changed', '%s, in %s: %s' % (where, path, why))], None
        counters['edited_statements'] += sum(1 for _, text in runs if text.strip())
    if not edited_files:
        counters['text_unchanged'] += 1
    # ---- every build file parses
    for path in edited_files:
        perr = real_parse_error(b1[path])
        if perr:
            counters['unparsable'] += 1
            return [(pre + 'unparsable', '%s left %s unparsable: %s' % (where, path, perr))], None
    try:
        s1l = P.evaluate(b1)
    except SyntaxFail as e:
        counters['unparsable'] += 1
        return [(pre + 'unparsable', '%s: the reference parser rejects an edited file: %s' % (where, e))], None
    except (Fail, Unspecified) as e:
        return [(pre + 'no-longer-evaluates', '%s: the project evaluated before and does not now: %s' % (where, e))], None
    s1 = {t.name: t for t in s1l}
    # ---- value
    V = []
    try:
        exp_src, exp_xf = place_expected(s0['prog'], cmd)
    except ModelUnspecified:
        counters['skipped_unspecified'] += 1
        return [], s1
    counters['program_level_compared'] += 1
    if sorted(s1) != sorted(s0):
        return [(pre + 'target-set', '%s: the project now defines %s' % (where, sorted(s1)))], None
    got = s1['prog']
    diff = ' | '.join('%s: %s' % (p, ' '.join(ln.strip() for ln in b1[p].splitlines() if ln not in b0[p].splitlines())) for p in edited_files)
    for name, e, g_, o in (('sources', exp_src, got.sources, s0['prog'].sources), ('extra_files', exp_xf, got.extra_files, s0['prog'].extra_files)):
        if e != g_:
            addressed = name == which
            missing = [f for f in g_ if not os.path.exists(os.path.join(root, f))]
            key = pre + (name if addressed else 'collateral-' + name) + ':' + place_tag(place)
            if case['cwd'] == 'root' and place[0] != 'root' and addressed:
                # would the result be right for the names taken relative to the target's directory?
                alt = dict(cmd, sources=[os.path.relpath(f, P.TDIRS[place[0]]) for f in cmd['sources']])
                if place_expected(s0['prog'], alt)[0 if name == 'sources' else 1] == g_:
                    key = 'C17:placement:run-in-source-root:name-rebased-on-target-dir'
            V.append((key, '%s (run %s): the %s of prog are %s, requested %s (before: %s)%s; edit: %s'
                      % (where, 'inside the source root' if case['cwd'] == 'root' else 'with --sourcedir', name, list(g_), list(e), list(o),
                         '; named but not on disk: %s' % missing if missing else '', diff)))
    if got.other != s0['prog'].other or got.dir != s0['prog'].dir or got.func != s0['prog'].func:
        V.append((pre + 'collateral-arguments', '%s: another argument of the call changed its value' % where))
    for n in s0:
        if n != 'prog' and s1[n] != s0[n]:
            V.append((pre + 'other-target-changed', '%s: target %s, which the command does not address, changed: %s -> %s' % (where, n, s0[n], s1[n])))
    if V:
        return V, None
    # ---- end to end: what the build definition names is on disk
    counters['place_existence_checked'] += 1
    missing = [f for f in got.sources + got.extra_files if not os.path.exists(os.path.join(root, f))]
    if missing:
        return [(pre + 'names-missing-file', '%s: the target now names %s, not on disk' % (where, missing))], None
    return [], s1


def check_place_info(case, out, t, counters):
    try:
        data = json.loads(out[out.index('{'):])
    except (ValueError, json.JSONDecodeError):
        return [('C17:info:no-json', 'info printed no JSON: %r' % out[:200])]
    ent = [v for v in data.get('target', {}).values() if v.get('name') == t.name]
    if len(ent) != 1:
        return [('C17:info:target-missing', 'target info has no entry for %s' % t.name)]
    V = []
    for field, want in (('sources', t.sources), ('extra_files', t.extra_files)):
        counters['info_compared'] += 1
        got = sorted(os.path.normpath(x) for x in ent[0][field])
        if got != sorted(want):
            V.append(('C17:placement:info:' + field + ':' + place_tag(tuple(case['place'])),
                      'project %s: info reports %s=%r, the build files say %r (paths from the source root)'
                      % ('/'.join(case['place']), field, got, list(want))))
    return V


def run_place_case(case, cold=False):
    _case_counter[0] += 1
    d = os.path.join(scratch_root(), 'c17', 'd%d.%d' % (os.getpid(), _case_counter[0]))
    root = os.path.join(d, 'proj')
    counters = new_counters()
    viol = []
    g = P.generate(tuple(case['place']))
    texts = [place_text(g['build'])]
    try:
        os.makedirs(os.path.join(d, 'cwd'))
        for rel, text in g['build'].items():
            os.makedirs(os.path.dirname(os.path.join(root, rel)), exist_ok=True)
            with open(os.path.join(root, rel), 'w', encoding='utf-8', newline='') as f:
                f.write(text)
        named = [os.path.normpath(f) for c in case['cmds'] for f in c['sources']]
        for rel in sorted(set(g['disk']) | set(named)):
            os.makedirs(os.path.dirname(os.path.join(root, rel)), exist_ok=True)
            with open(os.path.join(root, rel), 'w') as f:
                f.write('/* %s */\n' % rel)
        b0 = dict(g['build'])
        state = None
        if case.get('info_first'):
            res = run_place_tool(d, case['cwd'], to_cli(c_target('prog', 'info')), cold)
            counters['processes'] += 1
            counters['info_cmds'] += 1
            if res['rc'] != 0 or res['unhandled']:
                viol.append(('C17:info:failed', 'info on the generated project failed: %s' % res['out'].strip()[-300:]))
            else:
                viol += check_place_info(case, res['out'], {t.name: t for t in P.evaluate(b0)}['prog'], counters)
        for cmd in ([] if viol else case['cmds']):
            res = run_place_tool(d, case['cwd'], to_cli(cmd), cold)
            counters['processes'] += 1
            counters['steps'] += 1
            b1 = read_build(root, sorted(b0))
            texts.append(place_text(b1))
            v, state = check_place_step(case, cmd, b0, b1, res, root, counters)
            if not v and b1 != b0:
                res = run_place_tool(d, case['cwd'], to_cli(c_target('prog', 'info')), cold)
                counters['processes'] += 1
                counters['observer_runs'] += 1
                if res['rc'] != 0 or res['unhandled']:
                    v = [('C17:info:failed', 'info on the rewritten project failed: %s' % res['out'].strip()[-300:])]
                elif read_build(root, sorted(b0)) != b1:
                    v = [('C17:info-modified-file', 'an info command changed a build file')]
                else:
                    v = check_place_info(case, res['out'], state['prog'], counters)
            if v:
                viol += v
                break
            b0 = b1
    finally:
        shutil.rmtree(d, ignore_errors=True)
    return {'id': case['id'], 'viol': viol, 'counters': counters, 'final': texts[-1], 'texts': texts if viol else None}


def layer_d(ck, stats):
    """Quick: every placement with the full chain set in one working-directory mode (target in the root file: run inside the
    source root; target in a sub-directory: run from outside with --sourcedir) and, for sub-directory targets, the single
    commands run inside the source root.  Thorough: every chain in both modes."""
    cases = []
    n = {k: 0 for k in ('placements', 'chains', 'steps', 'list_in_other_file', 'list_resolved_in_other_dir_than_target',
                        'target_in_subdir', 'run_inside_source_root', 'run_with_sourcedir', 'named_file_in_target_dir',
                        'named_file_in_defining_dir', 'named_file_in_third_dir')}
    for place in P.all_places():
        td, dd, rd = P.place_dirs(place)
        n['placements'] += 1
        modes = ['root', 'outside'] if ck.thorough else (['root'] if td == '' else ['outside', 'root'])
        for mi, mode in enumerate(modes):
            chains = place_chains(place, ck.thorough)
            if not ck.thorough and mi == 1:
                # the second mode: first command of the chains that add / remove one file
                # (a file in the target's directory and one elsewhere for add / rm, one file for the extra_files operations)
                seen, short = set(), []
                for fam, cmds in chains:
                    c = cmds[0]
                    k = (c['operation'], os.path.dirname(c['sources'][0]) == td if c['operation'].startswith('src') else None)
                    if len(c['sources']) == 1 and k not in seen:
                        seen.add(k)
                        short.append((fam.split('.')[0], cmds[:1]))
                chains = short
            for ci, (fam, cmds) in enumerate(chains):
                cid = 'D/%s/%s/%s' % ('/'.join(place), mode, ','.join('%s:%s' % (CLI_TOP[c['operation']], '+'.join(c['sources'])) for c in cmds))
                cases.append({'id': cid, 'layer': 'D', 'family': 'place:' + fam, 'place': list(place), 'cwd': mode, 'cmds': cmds, 'form': 'cli',
                              'text': place_text(P.generate(place)['build']), 'info_first': ci == 0})
                n['chains'] += 1
                n['steps'] += len(cmds)
                n['list_in_other_file'] += dd != td
                n['list_resolved_in_other_dir_than_target'] += rd != td
                n['target_in_subdir'] += td != ''
                n['run_inside_source_root' if mode == 'root' else 'run_with_sourcedir'] += 1
                for c in cmds:
                    for f in c['sources']:
                        fd = os.path.dirname(os.path.normpath(f))
                        n['named_file_in_target_dir'] += fd == td
                        n['named_file_in_defining_dir'] += fd == dd and dd != td
                        n['named_file_in_third_dir'] += fd not in (td, dd)
    stats.update(n)
    return cases


# =========================================================================================================
# Layer E: a target call that is not a whole statement.  Every project of the other layers writes a target as
# `name = executable(...)` or as a bare call; the language lets the call stand wherever an expression can (an array element,
# an argument of another call, a dictionary value, a branch of a ternary), and every `target` / `kwargs` command addresses
# it by name all the same.  Oracle: exit status 0, only the statement that holds the call changes, the file parses, the
# reference evaluation finds the addressed target with exactly the requested value (gone after rm_target) and the other
# target as before; `info` agrees.  What the enclosing expression should become when the call is taken out of it is not
# specified (counted, not compared).
NEST_CONTEXTS = [
    ('assigned', 'two = %s'),
    ('bare', '%s'),
    ('array-only', 'x = [%s]'),
    ('array-first', "x = [%s, 'tail']"),
    ('array-middle', "x = ['head', %s, 'tail']"),
    ('array-last', "x = ['head', %s]"),
    ('call-argument', "test('t', %s)"),
    ('call-keyword', "test('t', keep, depends : %s)"),
    ('dict-value', "x = {'k' : %s}"),
    ('ternary-branch', 'x = flag ? %s : keep'),
    ('parenthesised', 'x = (%s)'),
]
NEST_CMDS = [
    ('rm_target', c_target('two', 'target_rm')),
    ('add', c_target('two', 'src_add', ['new.c'])),
    ('rm', c_target('two', 'src_rm', ['b.c'])),
    ('kwargs-set', c_kwargs('set', 'target', 'two', {'install': True})),
    ('info', c_target('two', 'info')),
]


def nest_text(fmt):
    return ("project('p', 'c')\nflag = true\nkeep = executable('keep', 'k.c', install : false)   # kept comment\n"
            + fmt % "executable('two', 'a.c', 'b.c', c_args : ['-DX=' + (1 + 2).to_string()])" + "\nafter_variable = 1\n")


def run_nest_case(case, cold=False):
    _case_counter[0] += 1
    d = os.path.join(scratch_root(), 'c17', 'e%d.%d' % (os.getpid(), _case_counter[0]))
    os.makedirs(d)
    counters = new_counters()
    t0 = case['text']
    cmd = case['cmds'][0]
    op = cmd['operation']
    pre = 'C17:nested-call:%s:' % (op if cmd['type'] == 'target' else 'kwargs-' + op)
    where = '%s on a target call written as %s' % (cmd_label(cmd), case['context'])
    t1 = t0
    try:
        path = os.path.join(d, 'meson.build')
        with open(path, 'w', encoding='utf-8', newline='') as f:
            f.write(t0)
        for n in ('a.c', 'b.c', 'k.c', 'new.c'):
            with open(os.path.join(d, n), 'w') as f:
                f.write('/* %s */\n' % n)
        res = run_rewrite(d, to_cli(cmd), cold)
        counters['processes'] += 1
        counters['steps'] += 1
        with open(path, 'r', encoding='utf-8', newline='') as f:
            t1 = f.read()
        viol = check_nest_step(case, cmd, pre, where, t0, t1, res, counters)
        if not viol and t1 != t0:
            s1 = {t.name: t for t in P.evaluate({P.BUILD: t1})}
            for name in sorted(s1):
                r2 = run_rewrite(d, to_cli(c_target(name, 'info')), cold)
                counters['processes'] += 1
                counters['observer_runs'] += 1
                if r2['rc'] != 0 or r2['unhandled']:
                    viol.append(('C17:info:failed', 'info on the rewritten file failed: %s' % r2['out'].strip()[-300:]))
                else:
                    viol += check_nest_info(r2['out'], s1[name], counters)
    finally:
        shutil.rmtree(d, ignore_errors=True)
    return {'id': case['id'], 'viol': viol, 'counters': counters, 'final': t1, 'texts': [t0, t1] if viol else None}


def check_nest_info(out, t, counters):
    try:
        data = json.loads(out[out.index('{'):])
    except (ValueError, json.JSONDecodeError):
        return [('C17:info:no-json', 'info printed no JSON: %r' % out[:200])]
    ent = [v for v in data.get('target', {}).values() if v.get('name') == t.name]
    if len(ent) != 1:
        return [('C17:info:target-missing', 'target info has no entry for %s' % t.name)]
    counters['info_compared'] += 1
    if sorted(os.path.normpath(x) for x in ent[0]['sources']) != sorted(t.sources):
        return [('C17:nested-call:info:sources', 'info reports sources=%r, the file says %r' % (ent[0]['sources'], list(t.sources)))]
    return []


def check_nest_step(case, cmd, pre, where, t0, t1, res, counters):
    if res['unhandled'] or res['signaled']:
        return [(pre + 'crash:' + exc_name(res['out']), '%s died: %s' % (where, res['out'].strip().splitlines()[-3:]))]
    if res['rc'] != 0:
        return [(pre + 'refused', '%s failed with exit status %d: %s' % (where, res['rc'], res['out'].strip()[-300:]))]
    b0 = {P.BUILD: t0}
    lv0 = P.leaves_of(b0)
    s0 = {t.name: t for t in P.evaluate(b0)}
    if cmd['operation'] == 'info':
        counters['info_cmds'] += 1
        if t1 != t0:
            return [('C17:info-modified-file', 'an info command changed the file')]
        return check_nest_info(res['out'], s0['two'], counters)
    hit = P.target_call(lv0, 'two')
    runs, why = L.skeleton_match(t0, t1, lv0[P.BUILD], {hit[1]}, False)
    if runs is None:
        return [(pre + 'other-text-changed', '%s: %s' % (where, why))]
    counters['edited_statements'] += 1
    perr = real_parse_error(t1)
    try:
        s1l = P.evaluate({P.BUILD: t1})
    except SyntaxFail as e:
        perr = perr or 'reference parser: %s' % e
        s1l = None
    except (Fail, Unspecified) as e:
        return [(pre + 'no-longer-evaluates', '%s: the file evaluated before and does not now: %s' % (where, e))]
    if perr:
        counters['unparsable'] += 1
        new = [ln for ln in t1.splitlines() if ln not in t0.splitlines()]
        return [(pre + 'unparsable', '%s left a file that no longer parses (%s): %s' % (where, perr, new))]
    s1 = {t.name: t for t in s1l}
    counters['program_level_compared'] += 1
    old = s0['two']
    if cmd['operation'] == 'target_rm':
        exp = None
        if case['context'] not in ('assigned', 'bare'):
            counters['skipped_unspecified'] += 1     # the value of the enclosing expression
    elif cmd['type'] == 'kwargs':
        exp = old._replace(other=old.other + (('install', reflang.canon(True)),))
    elif cmd['operation'] == 'src_add':
        exp = old._replace(sources=tuple(sorted(old.sources + ('new.c',))))
    else:
        exp = old._replace(sources=tuple(x for x in old.sources if x != 'b.c'))
    V = []
    if s1.get('two') != exp:
        V.append((pre + 'value', '%s: the target is now %s, requested %s' % (where, s1.get('two'), exp)))
    if s1.get('keep') != s0['keep']:
        V.append((pre + 'other-target-changed', '%s changed the target it does not address' % where))
    return V


def layer_e(ck, stats):
    cases = []
    for ctx, fmt in NEST_CONTEXTS:
        text = nest_text(fmt)
        P.evaluate({P.BUILD: text})
        for name, cmd in NEST_CMDS:
            cases.append({'id': 'E/%s/%s' % (ctx, name), 'layer': 'E', 'family': 'nest:' + name, 'context': ctx, 'text': text, 'cmds': [cmd],
                          'form': 'cli'})
    stats.update(contexts=len(NEST_CONTEXTS), commands=len(NEST_CMDS),
                 call_is_not_a_whole_statement=sum(1 for c in cases if c['context'] not in ('assigned', 'bare')))
    return cases


# =========================================================================================================
def main():
    ck = Check('C17', 'exploration')
    if ck.args.replay:
        return replay(ck)
    mesonproc.preimport()
    scratch_root()      # created (and later removed) by the parent; pool workers inherit it
    stats = {}
    cases = []
    if ck.want('A'):
        cases += layer_a(ck, stats)
    if ck.want('B'):
        cases += layer_b(ck)
    cstats = {}
    if ck.want('C'):
        cases += layer_c(ck, cstats)
    dstats = {}
    if ck.want('D'):
        cases += layer_d(ck, dstats)
    estats = {}
    if ck.want('E'):
        cases += layer_e(ck, estats)
    by_id = {c['id']: c for c in cases}
    ck.require(len(by_id) == len(cases), 'case ids are not unique')
    total = new_counters()
    outcome_classes = set()
    reprinted = {}
    n_viol_cases = 0
    pending = []
    finals = {}
    for r in pmap(run_case, cases, chunksize=4):
        c = by_id[r['id']]
        for k, v in r['counters'].items():
            total[k] += v
        layer = c['layer']
        finals[c['id']] = r['final'] == c['text']
        keys = sorted({k for k, _ in r['viol']})
        outcome_classes.add((layer, c['family'] if layer != 'A' else '', tuple(keys), r['final'] != c['text']))
        if r['viol']:
            n_viol_cases += 1
            pending.append((c, r))
    # report (simplest first = generation order); every new (unknown) key is re-executed once to show determinism
    rechecked = set()
    for c, r in pending:
        for key, what in r['viol']:
            known = any(k.get('status') == 'known' and k['key'] == key for k in ck.known)
            if not known and key not in rechecked:
                rechecked.add(key)
                r2 = run_case(c)
                if sorted(k for k, _ in r2['viol']) != sorted(k for k, _ in r['viol']):
                    ck.internal('nondeterministic verdict for %s: %r vs %r' % (c['id'], r['viol'], r2['viol']))
            ck.violation(key, '[%s] %s' % (c['id'], what),
                         {'case': {k: c[k] for k in ('id', 'text', 'cmds', 'form', 'layer', 'family', 'place', 'cwd', 'info_first', 'context') if k in c},
                          'observe': c.get('observe', False), 'texts': r['texts']})
    # cold re-validation of a slice: the fork runner must be faithful to a fresh `python meson.py`
    cold_n = 0
    if ck.want('cold') and cases:
        step = max(1, len(cases) // ck.q(12, 48))
        sl = cases[ck.seed % step::step][:ck.q(12, 48)]
        warm = {r['id']: r for r in pmap(run_case, sl)}
        for r in pmap(run_case_cold, sl):
            cold_n += 1
            w = warm[r['id']]
            if r['final'] != w['final'] or sorted(r['viol']) != sorted(w['viol']):
                ck.internal('fork runner and cold process disagree on %s' % r['id'])
    if ck.args.only:
        hist = {}
        for c, r in pending:
            for key in sorted({k for k, _ in r['viol']}):
                hist.setdefault(key, []).append(c['id'])
        for key in sorted(hist):
            print('HIST %5d %s   e.g. %s' % (len(hist[key]), key, hist[key][0]))
    for k in ('A', 'B', 'C', 'D', 'E'):
        sub = [c for c in cases if c['layer'] == k]
        ck.part('layer' + k, cases=len(sub))
    ck.part('layerA', **stats)
    ck.part('layerC', **cstats)
    ck.part('layerD', **dstats)
    ck.part('layerE', **estats)
    ck.part('counters', **total)
    ck.sample({'case': cases[0]['id'], 'cmd': cases[0]['cmds']})
    if len(cases) > 1:
        ck.sample({'case': cases[-1]['id'], 'cmd': cases[-1]['cmds']})
    for c, r in pending[:3]:
        ck.sample({'case': c['id'], 'keys': sorted({k for k, _ in r['viol']})})
    if ck.want('C'):
        ck.require(cstats['name_only_in_other_list'] > 100, 'no list operation was given a name that occurs only in the OTHER list of its target')
        ck.require(cstats['name_in_both_lists'] > 50, 'no list operation was given a name that occurs in both lists of its target')
        ck.require(cstats['name_only_in_other_target'] > 100, 'no list operation was given a name that only another target lists')
        ck.require(cstats['two_names'] > 100 and cstats['second_target_addressed'] > 100, 'two-name commands / the second target were not exercised')
        unchanged_c = sum(1 for c in cases if c['layer'] == 'C' and finals[c['id']])
        wl = [c for c in cases if c.get('wrong_list_rm')]
        wl_kept = sum(1 for c in wl if finals[c['id']])
        ck.part('layerC', file_left_unchanged=unchanged_c, removals_naming_only_files_of_the_other_list=len(wl),
                of_which_left_the_file_byte_identical=wl_kept)
        ck.require(len(wl) > 50, 'no removal named a file that only the other list of the target holds')
        ck.require(0 < unchanged_c < len([c for c in cases if c['layer'] == 'C']), 'layer C: every / no command changed the file')
    if ck.want('D'):
        dc = [c for c in cases if c['layer'] == 'D']
        ck.part('layerD', file_left_unchanged=sum(1 for c in dc if finals[c['id']]), sets_checked_against_disk=total['place_existence_checked'])
        ck.require(dstats['placements'] >= 19 and dstats['list_in_other_file'] > 100 and dstats['list_resolved_in_other_dir_than_target'] > 50,
                   'layer D: no project keeps a list in another build file / resolves it in another directory than the target')
        ck.require(dstats['target_in_subdir'] > 100 and dstats['run_inside_source_root'] > 50 and dstats['run_with_sourcedir'] > 50,
                   'layer D: sub-directory targets / both ways of running the tool were not exercised')
        ck.require(min(dstats['named_file_in_target_dir'], dstats['named_file_in_defining_dir'], dstats['named_file_in_third_dir']) > 50,
                   'layer D: the commands did not name files of every directory class')
        ck.require(total['place_existence_checked'] > 200, 'layer D: few steps reached the comparison with the files on disk')
        ck.require(any(not finals[c['id']] for c in dc if c['place'][1] != 'same'), 'layer D: no command changed a project whose list lives in another file')
    if ck.want('E'):
        ec = [c for c in cases if c['layer'] == 'E']
        changed = sum(1 for c in ec if not finals[c['id']] and c['context'] not in ('assigned', 'bare'))
        ck.part('layerE', nested_call_edited=changed)
        ck.require(estats['call_is_not_a_whole_statement'] >= 40 and changed >= 30, 'layer E: commands on nested target calls did not edit the file')
    if not ck.args.only:
        ck.require(total['edited_statements'] > 100, 'few edited statements were compared')
        ck.require(total['domain_evaluations'] > 1000, 'domain evaluation did not run')
        ck.require(total['program_level_compared'] > 100, 'program-level comparison did not run')
        ck.require(total['info_compared'] > 100, 'info JSON was not compared')
        ck.require(total['refusals'] > 0, 'no refused command was exercised')
    ck.assume('statement extents, values and failures come from verif.reflang (E6), written from Syntax.md; calls of '
              'project()/executable()/files()/dependency() are uninterpreted constructors')
    ck.assume('documented limitations are not compared: indentation and comments inside a modified statement, alphabetical '
              'sorting of source strings (positional sources compare as a multiset after flattening)')
    ck.assume('for a keyword addressed by the command an array of one value and the bare value are the same request (Meson '
              'listifies these keywords); default_options values compare case-insensitively')
    ck.assume('a list operation owns one list: `add`/`rm` the sources (positional arguments, `sources:` and the assignments they are built '
              'from), `add_extra_files`/`rm_extra_files` the `extra_files` keyword (and the assignments it is built from); the other list of the '
              'target, every other target and every array that feeds no target must stay textually and by value what they were; build files are '
              'read with universal newlines (a lone carriage return is a line break)')
    ck.assume('layer D: a string that reaches a target (directly or through an array variable) names a file relative to the directory of the '
              'build file with the target call, a files() object relative to the directory of the build file that calls files() (Reference '
              'manual); file names on the rewriter command line and in its info output are paths from the source root (Rewriter.md; '
              'unittests/rewritetests.py test_target_subdir); every file a command names exists on disk')
    ck.assume('unspecified corners (skipped, counted): a source listed twice, addressed keyword that does not evaluate to '
              'literals, kwargs info of non-literal values, value clauses when the reference cannot evaluate the file')
    ck.finish(evaluations=total['steps'], distinct_nontrivial=len(outcome_classes),
              rule='every tree of the typed operator family (depth <= 2, <= %d compound operands) x re-print contexts %s; every string '
                   'literal class x every context; every command of a %d-command alphabet in CLI and JSON form on %d project shapes; '
                   'every ordered pair of %s commands; layer C: every list operation (add / rm / add_extra_files / rm_extra_files) with every file name '
                   'of a project in which each name class occurs (only in the sources, only in extra_files, in both, in the lists of another '
                   'target, in an unrelated array, nowhere) and %s, on %d ways of writing the two lists (sources: %s x extra_files: %s). '
                   'Layer D: every list operation on %d placements of the pieces (target call in the root file / a sub-directory x lists written as '
                   'strings or files() in the call, as array / files(..) / files([..]) variable assigned in the same file, the parent\'s file or a '
                   'sibling directory entered earlier), names given from the source root for a new file in each of 4 directories, every existing file, '
                   'a file only the other target lists, several names; chains add.add.rm / rm.add / xadd.xrm / xrm.xadd checked step by step; run '
                   'inside the source root and with --sourcedir (%s). '
                   'Layer E: rm_target / add / rm / kwargs set / info on a target call written in each of %d positions (assignment, bare call, array '
                   'element first/middle/last/only, argument and keyword argument of another call, dictionary value, ternary branch, parenthesised). '
                   'One evaluation = one real `meson rewrite` process whose result went through '
                   'clauses (1)-(4). distinct_nontrivial = distinct (layer, family, violation keys, file changed) outcome classes'
                   % (ck.q(1, 3), CONTEXTS, len(ALPHABET), len(SHAPES_QUICK), ck.q('%d (4 shapes)' % len(PAIR_QUICK), 'all non-refused (8 shapes)'),
                      ck.q('every unordered pair of the names the target mentions on 2 shapes (second target addressed on 6 shapes)',
                           'every unordered pair of names (ordered, and for either target, on 6 shapes), single names for either target in CLI and JSON form'),
                      len(CROSS_SF) * len(CROSS_XF), CROSS_SF, CROSS_XF, len(P.all_places()),
                      ck.q('root-file targets inside the source root; sub-directory targets with --sourcedir and, single commands, inside the source root',
                           'every chain both ways'), len(NEST_CONTEXTS)),
              exhaustive=True, cases=len(cases), cases_with_findings=n_viol_cases, skipped_unspecified=total['skipped_unspecified'],
              cold_revalidated=cold_n)


def run_case_cold(case):
    return run_case(case, cold=True)


def replay(ck):
    d = json.load(open(ck.args.replay))
    case = d['case']
    case['observe'] = d.get('observe', False)
    mesonproc.preimport()
    scratch_root()
    print('case', case['id'])
    print('commands (%s form): %s' % (case['form'], json.dumps(case['cmds'])))
    r = run_case(case)
    print('--- input\n' + case['text'])
    print('--- output\n' + r['final'])
    print('recorded key:', d.get('key'))
    for k, w in r['viol']:
        print('observed:', k, '-', w)
    still = any(k == d.get('key') for k, _ in r['viol'])
    print('still violates' if still else 'no longer violates (expected: no violation)')
    sys.exit(1 if still else 0)


run_main(main)
